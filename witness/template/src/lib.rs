//! Type-level / compile-fail witnesses (Engine C).  Each `compile_fail` doctest has a compiling twin
//! that differs only by the offending attribute or type, so a witness that fails for the wrong
//! reason (bad path, missing import) is caught by its twin failing too.
//!
//! rustc (type checker + the derive it expands) is the decision procedure; nothing is executed.

/// `#[ts(optional)]` on a field that is not an `Option` must not type-check (IsOption bound).
/// ```compile_fail,E0277
/// #[derive(ts_rs::TS)]
/// struct W { #[ts(optional)] a: i32 }
/// ```
/// twin:
/// ```no_run
/// #[derive(ts_rs::TS)]
/// struct W { #[ts(optional)] a: Option<i32> }
/// ```
pub struct OptionalNeedsOption;

/// `#[ts(optional = nullable)]` likewise.
/// ```compile_fail,E0277
/// #[derive(ts_rs::TS)]
/// struct W { #[ts(optional = nullable)] a: String }
/// ```
/// ```no_run
/// #[derive(ts_rs::TS)]
/// struct W { #[ts(optional = nullable)] a: Option<String> }
/// ```
pub struct OptionalNullableNeedsOption;

/// A wrapper around Option is not an Option for `#[ts(optional)]` (IS_OPTION / IsOption are not forwarded).
/// ```compile_fail,E0277
/// #[derive(ts_rs::TS)]
/// struct W { #[ts(optional)] a: Box<Option<i32>> }
/// ```
pub struct WrapperIsNotOption;

/// Unknown `ts` keys are diagnosed at every position.
/// ```compile_fail
/// #[derive(ts_rs::TS)]
/// #[ts(no_such_key)]
/// struct W { a: i32 }
/// ```
/// ```compile_fail
/// #[derive(ts_rs::TS)]
/// struct W { #[ts(no_such_key)] a: i32 }
/// ```
/// ```compile_fail
/// #[derive(ts_rs::TS)]
/// enum W { #[ts(no_such_key)] A }
/// ```
/// ```compile_fail
/// #[derive(ts_rs::TS)]
/// #[ts(no_such_key)]
/// enum W { A }
/// ```
/// twin (known keys at the same four positions):
/// ```no_run
/// #[derive(ts_rs::TS)]
/// #[ts(rename = "X")]
/// struct W { #[ts(rename = "b")] a: i32 }
/// #[derive(ts_rs::TS)]
/// #[ts(rename = "Y")]
/// enum V { #[ts(rename = "b")] A }
/// ```
pub struct UnknownKeysRejected;

/// Incompatible combinations are rejected rather than silently producing a binding.
/// ```compile_fail
/// #[derive(ts_rs::TS)]
/// struct W { #[ts(type = "string", as = "String")] a: i32 }
/// ```
/// ```compile_fail
/// #[derive(ts_rs::TS)]
/// struct I { x: i32 }
/// #[derive(ts_rs::TS)]
/// struct W { #[ts(flatten, rename = "b")] a: I }
/// ```
/// ```compile_fail
/// #[derive(ts_rs::TS)]
/// #[ts(untagged, tag = "t")]
/// enum W { A { x: i32 } }
/// ```
/// ```compile_fail
/// #[derive(ts_rs::TS)]
/// #[ts(content = "c")]
/// enum W { A }
/// ```
/// ```compile_fail
/// #[derive(ts_rs::TS)]
/// #[ts(tag = "t")]
/// struct W(i32, i32);
/// ```
/// twins:
/// ```no_run
/// #[derive(ts_rs::TS)]
/// struct I { x: i32 }
/// #[derive(ts_rs::TS)]
/// struct W { #[ts(type = "string")] a: i32, #[ts(flatten)] b: I }
/// #[derive(ts_rs::TS)]
/// #[ts(tag = "t", content = "c")]
/// enum V { A { x: i32 } }
/// #[derive(ts_rs::TS)]
/// #[ts(tag = "t")]
/// struct U { a: i32 }
/// ```
pub struct IncompatibleCombinationsRejected;

/// Items other than structs and enums are rejected with a diagnostic.
/// ```compile_fail
/// #[derive(ts_rs::TS)]
/// union W { a: i32, b: u32 }
/// ```
pub struct UnsupportedItemRejected;

/// Unusual identifiers must expand without a proc-macro panic (totality of the case conversion).
/// ```no_run
/// #![allow(non_snake_case, non_camel_case_types, uncommon_codepoints, mixed_script_confusables)]
/// #[derive(ts_rs::TS)]
/// #[ts(rename_all = "camelCase")]
/// struct W { __: i32, _a: i32, a__b: i32, r#type: i32 }
/// #[derive(ts_rs::TS)]
/// #[ts(rename_all = "camelCase")]
/// enum V { Über, Foo_Bar, __A }
/// #[derive(ts_rs::TS)]
/// #[ts(rename_all = "SCREAMING-KEBAB-CASE")]
/// enum U { Über, HTTPServer }
/// ```
pub struct UnusualIdentifiersExpand;

/// Unknown / unparseable serde attributes do not break compilation (serde-compat on by default).
/// ```no_run
/// #[derive(ts_rs::TS, serde::Serialize)]
/// #[serde(deny_unknown_fields, rename_all = "camelCase", crate = "serde")]
/// struct W { #[serde(skip_serializing_if = "Option::is_none", alias = "ж")] a_b: Option<i32> }
/// ```
pub struct UnknownSerdeIsInert;

/// Items with defaulted generic parameters (type and const) must expand to an impl that compiles.
/// ```no_run
/// #![allow(dead_code)]
/// #[derive(ts_rs::TS)]
/// struct Buffer<const N: usize = 4> { data: [u8; N] }
/// #[derive(ts_rs::TS)]
/// struct Page<'a, T = i32, const K: usize = { 1 + 1 }> where T: Clone { items: &'a [T; K] }
/// #[derive(ts_rs::TS)]
/// enum Either<L = String, R = L> { Left(L), Right(R) }
/// ```
pub struct DefaultedGenericsExpand;

/// Items whose members are all skipped still expand to an impl that compiles (no `[].join(..)`).
/// ```no_run
/// #![allow(dead_code)]
/// #[derive(ts_rs::TS)]
/// struct T(#[ts(skip)] i32, #[ts(skip)] String);
/// #[derive(ts_rs::TS)]
/// enum V { A(#[ts(skip)] i32, #[ts(skip)] i32), B }
/// #[derive(ts_rs::TS)]
/// enum W { #[ts(skip)] A, #[ts(skip)] B }
/// #[derive(ts_rs::TS)]
/// struct S { #[ts(skip)] a: i32 }
/// #[derive(ts_rs::TS)]
/// struct N(#[ts(skip)] i32);
/// ```
pub struct AllSkippedExpands;

/// Every type parameter the generated impl mentions gets its bound: parameters no field uses, parameters behind
/// `#[ts(optional)]` / `optional_fields` projections, parameters inside a `$t:ty` macro fragment.
/// ```no_run
/// #![allow(dead_code)]
/// use std::marker::PhantomData;
/// #[derive(ts_rs::TS)]
/// struct H<T> { id: u32, #[ts(skip)] m: PhantomData<T> }
/// #[derive(ts_rs::TS)]
/// struct G<T> { #[ts(optional)] x: Option<T> }
/// #[derive(ts_rs::TS)]
/// #[ts(optional_fields)]
/// struct O<T> { t: T, u: Option<T> }
/// #[derive(ts_rs::TS)]
/// #[ts(optional_fields)]
/// struct P<T> { rest: Vec<T>, b: Box<T>, first: T, next: Option<T> }
/// #[derive(ts_rs::TS)]
/// struct R<T> { #[ts(optional)] a: Option<Vec<T>> }
/// macro_rules! mk { ($name:ident, $t:ty) => { #[derive(ts_rs::TS)] struct $name<T> { x: $t } }; }
/// mk!(Grouped, Vec<T>);
/// ```
pub struct EveryMentionedParameterIsBounded;

/// Raw identifiers as type parameters, and a parameter that is inlined, expand and compile.
/// ```no_run
/// #![allow(dead_code, non_camel_case_types)]
/// #[derive(ts_rs::TS)]
/// struct Raw<r#type> { a: r#type }
/// #[derive(ts_rs::TS)]
/// struct GI<T> { #[ts(inline)] v: Vec<T>, #[ts(inline)] w: (T, i32) }
/// #[derive(ts_rs::TS)]
/// #[ts(concrete(A = i32), concrete(B = u8))]
/// struct Two<A, B> { a: A, b: B }
/// ```
pub struct UnusualGenericsExpand;

/// serde accepts a trailing comma and an empty list; neither may break the derive.
/// ```no_run
/// #![allow(dead_code)]
/// #[derive(ts_rs::TS, serde::Serialize)]
/// #[serde(rename_all = "camelCase",)]
/// #[serde()]
/// struct W { #[serde(rename = "x",)] a_b: i32 }
/// ```
pub struct SerdeListFormsAccepted;

/// Items named like prelude types do not capture the names the generated code uses.
/// ```no_run
/// #![allow(dead_code)]
/// mod m {
///     #[derive(ts_rs::TS)]
///     pub struct String { a: i32 }
///     #[derive(ts_rs::TS)]
///     pub struct Option { s: String }
///     #[derive(ts_rs::TS)]
///     pub enum Some<T> { V(T) }
///     /// documented, exported to a directory, with a flattened member and a tuple
///     #[derive(ts_rs::TS)]
///     #[ts(export_to = "w/")]
///     pub struct Holder<T> { o: Option, s: Some<T>, #[ts(flatten)] f: Inner, t: (i32, i32) }
///     #[derive(ts_rs::TS)]
///     pub struct Inner { #[ts(flatten)] e: E }
///     #[derive(ts_rs::TS)]
///     pub enum E { A { x: i32 }, B { y: i32 } }
/// }
/// ```
pub struct PreludeNamesNotCaptured;
