#!/usr/bin/env python3
"""debug helper: tools/dumpbody.py <crate> <path-regex> [featureset]  — compact MIR listing"""
import sys, os, json, re
sys.path.insert(0, os.path.dirname(os.path.dirname(os.path.abspath(__file__))))
from vlib import common, mirlib

def pl(p):
    return "_%d%s" % (p["l"], "".join(p["p"]))
def op(o):
    if o["k"] in ("copy","move"): return ("mv " if o["k"]=="move" else "")+pl(o["pl"])
    c=o.get("c",{})
    if "str" in c: return "const %r" % c["str"]
    if "fn" in c: return "fn:"+c["fn"]["path"]
    return "const "+c.get("dbg","?")[:60]
def rv(r):
    k=r["k"]
    if k=="use": return op(r["op"])
    if k=="ref": return ("&mut " if r["mut"] else "&")+pl(r["pl"])
    if k=="agg":
        h=r.get("adt") and (r["adt"]+"::"+r["variant"]) or r.get("closure") and ("closure "+r["closure"]) or ("tuple" if r.get("tuple") else "arr")
        return h+"("+", ".join(op(o) for o in r["ops"])+")"
    if k=="discr": return "discr("+pl(r["pl"])+")"
    if k=="cast": return "cast("+op(r["op"])+" as "+r["ty"]+")"
    if k=="binop": return r["op"]+"("+op(r["a"])+", "+op(r["b"])+")"
    if k=="unop": return r["op"]+"("+op(r["a"])+")"
    return k+":"+r.get("dbg","")[:80]
crate, rx = sys.argv[1], sys.argv[2]
fs = sys.argv[3] if len(sys.argv)>3 else "default"
c = mirlib.Crate(common.get_mir(fs)[crate])
for b in c.find(rx):
    print("==", b.path, "|", b.kind, "|", b.raw.get("impl_self"), b.raw.get("impl_trait"), "|", b.file(), b.line())
    for i,l in enumerate(b.locals):
        if l["name"] or i<=b.raw["arg_count"]: print("   _%d %s: %s" % (i, l["name"], l["ty"]))
    for i in range(b.n):
        print(" bb%d%s:" % (i, " (cleanup)" if b.is_cleanup(i) else ""))
        for st in b.stmts(i):
            if st["k"]=="assign":
                if st["rv"]["k"]=="use" and st["rv"]["op"]["k"]=="const" and st["rv"]["op"]["c"]["ty"]=="bool" and b.local_name(st["dst"]["l"]) is None and not st["dst"]["p"]: continue
                print("    %s = %s   @%s" % (pl(st["dst"]), rv(st["rv"]), st["span"]["line"]))
            else: print("    ", json.dumps(st)[:120])
        t=b.term(i)
        if t["k"]=="call":
            f=t.get("fn") or {}
            nm=f.get("res_full") or f.get("full") or t.get("fn_dbg") or "indirect"
            print("    %s = CALL %s(%s) -> bb%s unwind bb%s  @%s %s" % (pl(t["dst"]), nm, ", ".join(op(a) for a in t["args"]), t["target"], t["unwind"], t["span"]["line"], t["span"].get("macros","")))
        elif t["k"]=="switch":
            print("    SWITCH %s [%s] else bb%d" % (op(t["discr"]), ", ".join("%s->bb%d"%(v,tg) for v,tg in t["targets"]), t["otherwise"]))
        elif t["k"]=="drop": print("    DROP %s -> bb%s unwind bb%s" % (pl(t["pl"]), t["target"], t["unwind"]))
        elif t["k"]=="assert": print("    ASSERT %s %s -> bb%s" % (op(t["cond"]), t["msg_dbg"][:60], t["target"]))
        else: print("    "+t["k"].upper()+" "+str(t.get("target","")))
