#!/usr/bin/env python3
"""For every stored seed: does the author's demo still fail with the patch applied to /repo's HEAD?
Lanes run in parallel, each with ONE fixed scratch worktree and ONE target directory of its own (sharing a target directory
between worktrees gave wrong answers).  Writes seeded/HEAD_AUDIT.txt: DEMO-FAILS = still a live regression,
DEMO-PASSES = neutralised by a later repair, PATCH-DOES-NOT-APPLY.
usage: audit_seeds_at_head.py [lanes] [seed ids...]"""
import glob, os, queue, re, shutil, subprocess, sys, threading
VERIF = os.path.dirname(os.path.dirname(os.path.abspath(__file__)))
LANES = int(sys.argv[1]) if len(sys.argv) > 1 and sys.argv[1].isdigit() else 4
only = [a for a in sys.argv[1:] if not a.isdigit()]
root = os.path.join(VERIF, "seeded")
seeds = [s for s in sorted(os.listdir(root)) if re.match(r"^C\d+_[a-z]$", s) and (not only or s in only)]
def sh(*a, **k): return subprocess.run(a, stdout=subprocess.PIPE, stderr=subprocess.STDOUT, text=True, **k)
BASE = "/tmp/sdaudit"
shutil.rmtree(BASE, ignore_errors=True)
sh("git", "-C", "/repo", "worktree", "prune")
q = queue.Queue()
[q.put(s) for s in seeds]
res = {}
lock = threading.Lock()

def lane(i):
    wt = "%s/wt%d" % (BASE, i)
    assert sh("git", "-C", "/repo", "worktree", "add", "-q", "--detach", wt, "HEAD").returncode == 0
    env = dict(os.environ, CARGO_NET_OFFLINE="true", CARGO_TARGET_DIR="%s/target%d" % (BASE, i))
    while True:
        try:
            s = q.get_nowait()
        except queue.Empty:
            break
        d = os.path.join(root, s)
        sh("git", "-C", wt, "checkout", "--", ".")
        sh("git", "-C", wt, "clean", "-fdq")
        ok = False
        for p in [os.path.join(d, "patch.diff")] + sorted(glob.glob(os.path.join(d, "patch_rebased_*.diff")), key=os.path.getmtime, reverse=True):
            for extra in ([], ["-C1"]):
                if sh("git", "-C", wt, "apply", *extra, p).returncode == 0:
                    ok = True
                    break
            if ok:
                break
        if not ok:
            out = "PATCH-DOES-NOT-APPLY"
        else:
            demos = glob.glob(os.path.join(d, "demo", "seed*_*.rs"))
            for f in demos:
                shutil.copy(f, os.path.join(wt, "ts-rs/tests", os.path.basename(f)))
            scripts = glob.glob(os.path.join(d, "demo", "*.sh"))
            rc = 0
            if scripts:
                rc = sh("bash", scripts[0], wt, cwd=wt, env=env).returncode
            else:
                run = open(os.path.join(d, "demo", "RUN.md")).read() if os.path.exists(os.path.join(d, "demo", "RUN.md")) else ""
                feat = []
                m = re.search(r"cargo test[^\n]*?(--features [a-z_,-]+|--no-default-features)", run)
                if m:
                    feat = m.group(1).split()
                for f in demos:
                    t = os.path.basename(f)[:-3]
                    if t.endswith("_empty"):
                        continue
                    r = sh("cargo", "test", "--offline", "-q", "-p", "ts-rs", *feat, "--test", t, cwd=wt, env=env)
                    if r.returncode != 0:
                        rc = 1
            out = "DEMO-FAILS" if rc != 0 else "DEMO-PASSES"
        with lock:
            res[s] = out
            print(s, out, flush=True)
    sh("git", "-C", "/repo", "worktree", "remove", "--force", wt)

ts = [threading.Thread(target=lane, args=(i,)) for i in range(min(LANES, len(seeds)))]
[t.start() for t in ts]
[t.join() for t in ts]
shutil.rmtree(BASE, ignore_errors=True)
sh("git", "-C", "/repo", "worktree", "prune")
prev = {}
p = os.path.join(root, "HEAD_AUDIT.txt")
if only and os.path.exists(p):
    for l in open(p):
        a = l.split()
        if len(a) >= 2:
            prev[a[0]] = a[1]
prev.update(res)
head = sh("git", "-C", "/repo", "rev-parse", "--short", "HEAD").stdout.strip()
with open(p, "w") as fh:
    fh.write("# audited against /repo HEAD %s\n" % head)
    for s in sorted(prev):
        fh.write("%s %s\n" % (s, prev[s]))
