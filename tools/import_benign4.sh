#!/bin/bash
# copy the refactorings delivered by the round-B3 sub-agents (/tmp/seed_outB4/<ID>/<x>/) into /verif/benign4/<ID>_<x>/
set -e
mkdir -p /verif/benign4
for d in /tmp/seed_outB4/C*/[a]; do
  [ -f "$d/patch.diff" ] || continue
  id=$(basename $(dirname $d)); x=$(basename $d)
  dst=/verif/benign4/${id}_${x}
  mkdir -p $dst/demo
  cp $d/patch.diff $dst/
  cp $d/demo/*.rs $dst/demo/ 2>/dev/null || true
  [ -f $d/RUN.md ] && cp $d/RUN.md $dst/ || true
done
ls /verif/benign4 | wc -l
