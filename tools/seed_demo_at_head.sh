#!/bin/bash
# seed_demo_at_head.sh <seed-id> : does a stored seed still break its property on /repo's HEAD?
# scratch worktree, apply (plain, -C1, newest rebased), run the author's demo; prints DEMO-FAILS (still a regression) or DEMO-PASSES (neutralised)
S=$1; D=/verif/seeded/$S; WT=/tmp/sd/$S
export CARGO_NET_OFFLINE=true
rm -rf $WT; git -C /repo worktree prune; git -C /repo worktree add -q --detach $WT HEAD || exit 3
cd $WT; export CARGO_TARGET_DIR=${SD_TARGET:-$WT/target}
ok=1
for p in $D/patch.diff $(ls -t $D/patch_rebased_*.diff 2>/dev/null); do
  git apply $p 2>/dev/null && ok=0 && break
  git apply -C1 $p 2>/dev/null && ok=0 && break
done
if [ $ok -ne 0 ]; then echo "$S PATCH-DOES-NOT-APPLY"; cd /; git -C /repo worktree remove --force $WT; exit 0; fi
cp $D/demo/seed*_*.rs ts-rs/tests/ 2>/dev/null
rc=0
if ls $D/demo/*.sh >/dev/null 2>&1; then bash $D/demo/*.sh $WT > $WT/demo.log 2>&1 || rc=1
else
  FEAT=$(grep -o -m1 -- "--features [a-z_,-]*\|--no-default-features" $D/demo/RUN.md 2>/dev/null)
  for f in $D/demo/seed*_*.rs; do t=$(basename $f .rs); cargo test --offline -q -p ts-rs $FEAT --test $t >> $WT/demo.log 2>&1 || rc=1; done
fi
if [ $rc -ne 0 ]; then echo "$S DEMO-FAILS"; else echo "$S DEMO-PASSES"; fi
cd /; git -C /repo worktree remove --force $WT; rm -rf $WT
