#!/usr/bin/env python3
"""Apply every seeded change in /verif/seeded (or a given dir) to /repo in turn, run all quick checks, undo it.
Writes seeded/MATRIX.json: which checks report a new violation for which change."""
import json, os, subprocess, sys
VERIF = os.path.dirname(os.path.dirname(os.path.abspath(__file__)))
root = os.path.abspath(sys.argv[1] if len(sys.argv) > 1 else os.path.join(VERIF, "seeded"))
only = sys.argv[2:] 
props = [c["property_id"] for c in json.load(open(os.path.join(VERIF, "MANIFEST.json")))["checks"]]
out = json.load(open(os.path.join(root, "MATRIX.json"))) if (only and os.path.exists(os.path.join(root, "MATRIX.json"))) else {}
def sh(*a, **k): return subprocess.run(a, stdout=subprocess.PIPE, stderr=subprocess.STDOUT, text=True, **k)
assert sh("git", "-C", "/repo", "diff", "--quiet").returncode == 0, "/repo dirty"
for sid in sorted(os.listdir(root)):
    d = os.path.join(root, sid)
    patch = os.path.join(d, "patch.diff")
    if not os.path.isfile(patch) or (only and sid not in only):
        continue
    import glob
    r = None
    for pth in [patch] + sorted(glob.glob(os.path.join(d, "patch_rebased_*.diff")), reverse=True):
        for extra in ([], ["-C1"]):
            r = sh("git", "-C", "/repo", "apply", *extra, pth)
            if r.returncode == 0:
                break
        if r.returncode == 0:
            break
    if r.returncode != 0:
        out[sid] = {"error": "patch does not apply: " + r.stdout[-300:]}
        print(sid, "PATCH DOES NOT APPLY"); continue
    try:
        hits = {}
        for p in props:
            rr = sh(os.path.join(VERIF, "check"), p, "quick", cwd=VERIF)
            keys = [l.split(": [")[0].split(": ", 1)[-1] for l in rr.stdout.splitlines() if ": [" in l and not l.startswith("KNOWN-FINDING")]
            if rr.returncode == 1:
                hits[p] = keys
            elif rr.returncode != 0:
                hits[p] = ["CHECK-ERROR rc=%d: %s" % (rr.returncode, rr.stdout[-200:])]
        out[sid] = {"detected_by": hits}
        print(sid, "->", {k: len(v) for k, v in hits.items()} or "MISSED", flush=True)
    finally:
        sh("git", "-C", "/repo", "checkout", "--", ".")
json.dump(out, open(os.path.join(root, "MATRIX.json"), "w"), indent=1)
