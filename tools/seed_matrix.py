#!/usr/bin/env python3
"""For every seeded change in /verif/seeded (or a given dir): apply it to a scratch worktree of /repo's HEAD,
run all quick checks against that tree (VERIF_REPO), undo it.  Several lanes run in parallel, each with its own
worktree, cache and evidence directory under /tmp/mx (removed afterwards).  /repo itself is not touched.
Writes seeded/MATRIX.json: which checks report a new violation for which change.
usage: seed_matrix.py [root] [seed ids...]      (with ids: merge into the existing MATRIX.json)"""
import glob, json, os, queue, shutil, subprocess, sys, threading
VERIF = os.path.dirname(os.path.dirname(os.path.abspath(__file__)))
root = os.path.abspath(sys.argv[1] if len(sys.argv) > 1 else os.path.join(VERIF, "seeded"))
only = sys.argv[2:]
LANES = int(os.environ.get("MATRIX_LANES", "6"))
props = [c["property_id"] for c in json.load(open(os.path.join(VERIF, "MANIFEST.json")))["checks"]]
out = json.load(open(os.path.join(root, "MATRIX.json"))) if (only and os.path.exists(os.path.join(root, "MATRIX.json"))) else {}
def sh(*a, **k): return subprocess.run(a, stdout=subprocess.PIPE, stderr=subprocess.STDOUT, text=True, **k)
assert sh("git", "-C", "/repo", "diff", "--quiet").returncode == 0, "/repo dirty"
BASE = "/tmp/mx"
shutil.rmtree(BASE, ignore_errors=True)
sh("git", "-C", "/repo", "worktree", "prune")
seeds = [s for s in sorted(os.listdir(root)) if os.path.isfile(os.path.join(root, s, "patch.diff")) and (not only or s in only)]
q = queue.Queue()
for s in seeds:
    q.put(s)
lock = threading.Lock()

def lane(i):
    wt = "%s/wt%d" % (BASE, i)
    r = sh("git", "-C", "/repo", "worktree", "add", "-q", "--detach", wt, "HEAD")
    assert r.returncode == 0, r.stdout
    env = dict(os.environ, VERIF_REPO=wt, VERIF_CACHE="%s/cache%d" % (BASE, i), VERIF_EVIDENCE_DIR="%s/ev%d" % (BASE, i))
    while True:
        try:
            sid = q.get_nowait()
        except queue.Empty:
            break
        d = os.path.join(root, sid)
        r = None
        for pth in [os.path.join(d, "patch.diff")] + sorted(glob.glob(os.path.join(d, "patch_rebased_*.diff")), key=os.path.getmtime, reverse=True):
            for extra in ([], ["-C1"]):
                r = sh("git", "-C", wt, "apply", *extra, pth)
                if r.returncode == 0:
                    break
            if r.returncode == 0:
                break
        if r.returncode != 0:
            with lock:
                out[sid] = {"error": "patch does not apply: " + r.stdout[-300:]}
                print(sid, "PATCH DOES NOT APPLY", flush=True)
            continue
        try:
            hits = {}
            for p in props:
                rr = sh(os.path.join(VERIF, "check"), p, "quick", cwd=VERIF, env=env)
                keys = [l.split(": [")[0].split(": ", 1)[-1] for l in rr.stdout.splitlines() if ": [" in l and not l.startswith("KNOWN-FINDING")]
                if rr.returncode == 1:
                    hits[p] = keys
                    if os.environ.get("MATRIX_LINES"):
                        hits[p] = [l for l in rr.stdout.splitlines() if ": [" in l and not l.startswith("KNOWN-FINDING")]
                elif rr.returncode != 0:
                    hits[p] = ["CHECK-ERROR rc=%d: %s" % (rr.returncode, rr.stdout[-200:])]
            with lock:
                out[sid] = {"detected_by": hits}
                print(sid, "->", {k: len(v) for k, v in hits.items()} or "MISSED", flush=True)
        finally:
            sh("git", "-C", wt, "checkout", "--", ".")
            sh("git", "-C", wt, "clean", "-fdq")
    sh("git", "-C", "/repo", "worktree", "remove", "--force", wt)

ts = [threading.Thread(target=lane, args=(i,)) for i in range(min(LANES, max(1, len(seeds))))]
[t.start() for t in ts]
[t.join() for t in ts]
shutil.rmtree(BASE, ignore_errors=True)
sh("git", "-C", "/repo", "worktree", "prune")
json.dump(dict(sorted(out.items())), open(os.path.join(root, "MATRIX.json"), "w"), indent=1)
