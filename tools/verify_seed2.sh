#!/bin/bash
# verify_seed.sh <ID> <a|b> : confirm a seeded change independently in a scratch worktree of /repo.
# Writes /tmp/seed_out/<ID>/<x>/verify.json ; removes the worktree and its build output afterwards.
set -u
ROOT=$1; ID=$2; X=$3; BASE=${4:-HEAD}
SRC=$ROOT/$ID/$X
WT=/tmp/vs/$ID$X
export CARGO_NET_OFFLINE=true
rm -rf $WT; git -C /repo worktree prune; git -C /repo worktree add -q --detach $WT $BASE || exit 3
cd $WT
export CARGO_TARGET_DIR=$WT/target
run_demo() {
  # returns 0 if the demonstration passes
  if ls $SRC/demo/*.sh >/dev/null 2>&1; then
    bash $SRC/demo/*.sh $WT > $WT/demo.log 2>&1; return $?
  fi
  rc=0
  for f in $SRC/demo/seed*_*.rs; do
    t=$(basename $f .rs)
    if [ -n "${VERIFY_FEAT+x}" ]; then FEAT="$VERIFY_FEAT"; else FEAT=$(grep -o -m1 -- "--features [a-z_,-]*\|--no-default-features" $SRC/demo/RUN.md 2>/dev/null); fi
    cargo test --offline -p ts-rs $FEAT --test $t >> $WT/demo.log 2>&1 || rc=1
  done
  return $rc
}
cp $SRC/demo/seed*_*.rs ts-rs/tests/ 2>/dev/null
: > $WT/demo.log
run_demo; BASE=$?
git apply $SRC/patch.diff; APPLY=$?
: > $WT/demo.log
run_demo; WITH=$?
tail -30 $WT/demo.log > $SRC/demo_with_patch.log
rm -f ts-rs/tests/seed*_*.rs
cargo nextest run --workspace --no-fail-fast --offline --test-threads 4 > $WT/suite.log 2>&1; SUITE=$?
PASSED=$(grep -o "[0-9]* passed" $WT/suite.log | tail -1)
cargo check -p ts-rs --all-features --offline > $WT/allf.log 2>&1; ALLF=$?
echo "{\"id\":\"$ID\",\"x\":\"$X\",\"apply_rc\":$APPLY,\"demo_without_patch_rc\":$BASE,\"demo_with_patch_rc\":$WITH,\"suite_rc\":$SUITE,\"suite\":\"$PASSED\",\"all_features_check_rc\":$ALLF}" > $SRC/verify.json
cd /; git -C /repo worktree remove --force $WT; rm -rf $WT
cat $SRC/verify.json
