#!/usr/bin/env python3
"""usage: show_alarms.py <corpus> id... : distinct alarm messages of the last corpus run"""
import json, sys
r = json.load(open("/tmp/cr/%s_result.json" % sys.argv[1]))
for sid in sys.argv[2:]:
    seen = set()
    for p, ms in sorted((r[sid].get("detected_by") or {}).items()):
        for m in ms:
            key = m.split(": ", 1)[1] if ": " in m else m
            if key in seen:
                continue
            seen.add(key)
            print(sid, p, m[:int(__import__("os").environ.get("W", "420"))])
