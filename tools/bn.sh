#!/bin/bash
# bn.sh <root/id> <prop...>: apply a stored patch (benign/<id> or seeded/<id>) to a scratch worktree and run quick checks against it
set -u
SID=$1; shift
WT=/tmp/bn/wt_$(echo $SID | tr '/' '_')
mkdir -p /tmp/bn
if [ ! -d $WT ]; then git -C /repo worktree add -q --detach $WT HEAD || exit 2; fi
git -C $WT checkout -q --detach $(git -C /repo rev-parse HEAD); git -C $WT checkout -- .; git -C $WT clean -fdq
P=/verif/$SID/patch.diff
[ -f /verif/$SID ] && P=/verif/$SID
for q in $(ls -t /verif/$SID/patch_rebased_*.diff 2>/dev/null) $P; do
  if git -C $WT apply $q 2>/dev/null || git -C $WT apply -C1 $q 2>/dev/null; then OK=1; break; fi
done
[ "${OK:-0}" = 1 ] || { echo "patch does not apply"; exit 2; }
for p in "$@"; do
  VERIF_REPO=$WT VERIF_EVIDENCE_DIR=/tmp/bn/ev VERIF_CACHE=/tmp/bn/cache /verif/check $p quick 2>&1 | grep -v "^\[" | cut -c1-${BN_CUT:-400}
done
