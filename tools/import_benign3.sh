#!/bin/bash
# copy the refactorings delivered by the round-B3 sub-agents (/tmp/seed_outB3/<ID>/<x>/) into /verif/benign3/<ID>_<x>/
set -e
mkdir -p /verif/benign3
for d in /tmp/seed_outB3/C*/[ab]; do
  [ -f "$d/patch.diff" ] || continue
  id=$(basename $(dirname $d)); x=$(basename $d)
  dst=/verif/benign3/${id}_${x}
  mkdir -p $dst/demo
  cp $d/patch.diff $dst/
  cp $d/demo/*.rs $dst/demo/ 2>/dev/null || true
  [ -f $d/RUN.md ] && cp $d/RUN.md $dst/ || true
done
ls /verif/benign3 | wc -l
