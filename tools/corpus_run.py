#!/usr/bin/env python3
"""Development loop over a stored corpus of changes (benign/ = behaviour-preserving refactorings that must stay silent,
seeded/ = regressions that must be reported).  Keeps one scratch worktree per change under /tmp/cr/<root>/ (patch
applied once) and one shared facts cache, so that after the first run only the rules are re-evaluated.
usage: corpus_run.py <benign|seeded> [--props C01,C02] [--jobs N] [ids...]
Nothing here is registered in MANIFEST.json; `rm -rf /tmp/cr && git -C /repo worktree prune` removes everything."""
import concurrent.futures as cf, glob, json, os, re, subprocess, sys
VERIF = os.path.dirname(os.path.dirname(os.path.abspath(__file__)))
args = sys.argv[1:]
root = args.pop(0)
props_only, jobs = None, 14
while args and args[0].startswith("--"):
    a = args.pop(0)
    if a == "--props":
        props_only = args.pop(0).split(",")
    elif a == "--jobs":
        jobs = int(args.pop(0))
only = args
ROOT = os.path.join(VERIF, root)
BASE = "/tmp/cr/" + os.path.basename(root.rstrip("/"))
os.makedirs(BASE, exist_ok=True)
def sh(*a, **k): return subprocess.run(a, stdout=subprocess.PIPE, stderr=subprocess.STDOUT, text=True, **k)
head = sh("git", "-C", "/repo", "rev-parse", "HEAD").stdout.strip()
props = props_only or [c["property_id"] for c in json.load(open(os.path.join(VERIF, "MANIFEST.json")))["checks"]]
ids = [s for s in sorted(os.listdir(ROOT)) if os.path.isfile(os.path.join(ROOT, s, "patch.diff")) and (not only or s in only)]

def prepare(sid):
    wt = os.path.join(BASE, sid)
    stamp = os.path.join(BASE, sid + ".head")
    if os.path.isdir(wt) and os.path.exists(stamp) and open(stamp).read() == head:
        return wt
    if os.path.isdir(wt):
        sh("git", "-C", "/repo", "worktree", "remove", "--force", wt)
    r = sh("git", "-C", "/repo", "worktree", "add", "-q", "--detach", wt, head)
    if r.returncode != 0:
        return None
    d = os.path.join(ROOT, sid)
    for pth in sorted(glob.glob(os.path.join(d, "patch_rebased_*.diff")), key=os.path.getmtime, reverse=True) + [os.path.join(d, "patch.diff")]:
        for extra in ([], ["-C1"]):
            if sh("git", "-C", wt, "apply", *extra, pth).returncode == 0:
                open(stamp, "w").write(head)
                return wt
    return None

def run(sid):
    wt = prepare(sid)
    if wt is None:
        return sid, {"error": "patch does not apply"}
    env = dict(os.environ, VERIF_REPO=wt, VERIF_CACHE="/tmp/cr/cache", VERIF_CACHE_KEEP="100000", VERIF_EVIDENCE_DIR=os.path.join(BASE, sid + ".ev"))
    hits = {}
    for p in props:
        rr = sh(os.path.join(VERIF, "check"), p, "quick", cwd=VERIF, env=env)
        lines = [l for l in rr.stdout.splitlines() if ": [" in l and not l.startswith("KNOWN-FINDING")]
        if rr.returncode == 1:
            hits[p] = lines
        elif rr.returncode != 0:
            hits[p] = ["CHECK-ERROR rc=%d: %s" % (rr.returncode, rr.stdout[-400:])]
    return sid, {"detected_by": hits}

out = {}
with cf.ThreadPoolExecutor(jobs) as ex:
    for sid, res in ex.map(run, ids):
        out[sid] = res
json.dump(out, open("/tmp/cr/%s_result.json" % os.path.basename(root.rstrip("/")), "w"), indent=1)
byrule = {}
silent, loud, err = [], [], []
for sid, v in sorted(out.items()):
    if "error" in v:
        err.append(sid)
        continue
    (loud if v["detected_by"] else silent).append(sid)
    for p, lines in v["detected_by"].items():
        for l in lines:
            m = re.search(r"\[(C\d\d\.R\d+\w*)\]", l)
            byrule.setdefault(m.group(1) if m else l[:60], set()).add(sid)
print("%s: %d changes, %d silent, %d raise an alarm, %d errors" % (root, len(out), len(silent), len(loud), len(err)))
if root.startswith("benign"):
    for r, s in sorted(byrule.items(), key=lambda kv: -len(kv[1])):
        print("  %-10s %s" % (r, " ".join(sorted(s))))
    print("silent:", " ".join(silent))
else:
    print("MISSED:", " ".join(silent))
if err:
    print("errors:", " ".join(err))
