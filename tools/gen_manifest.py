#!/usr/bin/env python3
"""Regenerates /verif/MANIFEST.json from the table below (hand-maintained)."""
import json
import os

VERIF = os.path.dirname(os.path.dirname(os.path.abspath(__file__)))

SETUP = ("cd /verif/engines/synlint && CARGO_NET_OFFLINE=true cargo build --release --offline && "
         "cd /verif/engines/mirfacts && CARGO_NET_OFFLINE=true cargo +nightly build --release --offline")

NOTE = ("Trusted base: rustc nightly MIR construction / trait resolution / expansion data, syn's parser, the reference tables under "
        "/verif/reference (each entry reviewed by reading), cargo features as the only configuration switches. The check decides the named "
        "structural clauses for every input that can reach the analysed construct; the remaining behavioural content of the property is not decided.")

CHECKS = {
    "C05": ("DESIGN.md section 3/C05",
            "lock-region, who-may-call and dominance analysis on MIR",
            "Decides, on every path of export_and_merge, the structure the schedule half of C05 rests on: one Mutex guard is live across registry "
            "lookup, file open/read/merge/write/sync and registry update (C05.R1); no other function writes files or looks at the registry and no "
            "other process-wide state exists (C05.R2); re-export of a recorded type is a no-op by dominance of the `contains` guard (C05.R3); "
            "imports are accumulated in BTreeMap/BTreeSet and no hash- or visit-ordered sequence reaches the buffer (C05.R4); no panic-capable call "
            "runs under the lock (C05.R5, known finding: merge()). Byte-for-byte confluence of the textual merge over all declaration texts and "
            "orders is a statement about run-time strings and is NOT decided."),
    "C06": ("DESIGN.md section 3/C06",
            "interprocedural value-origin analysis and dominance on MIR",
            "Decides that the registry key originates from path::absolute on every call chain into export_and_merge (C06.R1), that the first touch "
            "of a path truncates (C06.R2), that TS_RS_EXPORT_DIR / cwd are each read in one place and every entry point goes through them (C06.R3), "
            "that the recursion is guarded by the seen-set and cannot bypass the dependency walk (C06.R4/C11.R2), and that no hidden process-wide "
            "state exists besides the registry. Independence of the final directory from call order as a whole also needs C05's textual merge and is NOT decided."),
    "C10": ("DESIGN.md section 3/C10",
            "type-checked key tables recovered from MIR; merge/feature-gate rules on the syntax tree; path counting",
            "Decides: ts and serde arms of a shared key call the same value parser and set the same field (R1); documented serde keys are present "
            "(R2); ts wins in every merge and from_attrs passes the ts value as receiver (R3); serde parsing is feature-gated (R4, thorough: dead "
            "under --no-default-features); the unknown-key fallback always skips and never errors, and keys are read with parse_any (R5); no arm "
            "consumes `=` twice (R6); value forms serde accepts are accepted or recovered (R7, known findings: the `key(serialize=..)` forms); the "
            "skip loop tests the token it skips (R8); no unjustified panic on the serde path (R9). Equality of bindings for all types under the two "
            "spellings is NOT decided beyond these table/merge facts."),
    "C11": ("DESIGN.md section 3/C11",
            "who-may-call, call-graph edge and must-pass-through analysis on MIR",
            "Decides that only export_and_merge/export_to touch the file system and only at the path parameter (C11.R1), that the recursive walk "
            "exports the visited type, walks its dependencies through export_recursive, skips non-exportable types, stops at and returns the first "
            "error (C11.R2), and that the written path derives from <T as TS>::output_path() of the same T behind its Some-check (C11.R3). The "
            "directory-form/file-form string rule inside generated output_path() is NOT decided."),
    "C13": ("DESIGN.md section 3/C13",
            "iterator-provenance (static receiver types) and forward-flow analysis on MIR of both crates",
            "Decides the information-flow statement of C13: every consumption of a HashMap/HashSet iterator in either crate is order-insensitive or "
            "one of three justified sites (R1); the visit-ordered dependency Vec is only collected into BTree collections and no loop iterates it "
            "directly (R2); fields/variants are accumulated in Vecs in Punctuated order (R3). Determinism of rustc, file system and environment is out of scope."),
    "C16": ("DESIGN.md section 3/C16",
            "panic-site inventory, typestate (must-pass-through) and control-dependence rules on MIR plus syntax-tree decision tables",
            "Decides: every panic-capable call site of the proc-macro crate is discharged by a recognised guard or an exact justified entry (R1); "
            "every parsed attribute value is validated on every non-error path (R2); the 41 reference rejections are still present (R3); an unknown "
            "ts key always errors (R4); errors become compile_error! (R5). That every accepted expansion compiles is NOT decided."),
    "C17": ("DESIGN.md section 3/C17",
            "error-discipline, dominance and panic-site analysis on MIR of the export path",
            "Decides: every fallible call on the export path is propagated (R1); registry insertions are dominated by successful write and sync "
            "(R2); panic-capable sites reachable from the four export entry points are justified (R3, known findings: merge()); exportability is "
            "checked before export_to/decl() (R4); no panic under the registry lock (R5, known finding); the recursive error is returned (R6). "
            "That the directory after a retry equals the fault-free one is NOT decided."),
}

NOT_APPLICABLE = {
    "C08": "input/output relation of absolute∘diff_paths∘import_path over all pairs of run-time path strings: no pairing/ordering/ownership/table "
           "structure implies it; deciding it needs enumeration or symbolic reasoning over path values (a different technique family). See DESIGN.md section 4.",
}

PENDING = {k: "check under construction in this round (see DESIGN.md section 3); not yet claimed" for k in ["C01","C02","C03","C04","C07","C09","C12","C14","C15"]}


def main():
    checks = []
    for pid in sorted(CHECKS):
        ref, tech, text = CHECKS[pid]
        checks.append({
            "property_id": pid,
            "quick_cmd": "./check %s quick" % pid,
            "thorough_cmd": "./check %s thorough" % pid,
            "evidence_file": "/verif/evidence/%s.json" % pid,
            "replay_cmd_template": "./check %s quick --replay {path}" % pid,
            "engine": "synlint+mirfacts",
            "level_claimed": {"category": "other", "text": text, "design_ref": ref},
            "level_note": NOTE,
            "technique": "static analysis: " + tech,
        })
    na = [{"property_id": k, "reason": v} for k, v in sorted({**NOT_APPLICABLE, **PENDING}.items())]
    m = {
        "version": 1,
        "setup_cmd": SETUP,
        "hooks": {
            "guard": "ts_rs_verif",
            "enable": "none needed: static analysis reads the sources; no instrumentation exists in /repo",
            "baseline_off_cmd": "cd /repo && cargo nextest run --workspace --no-fail-fast --offline --test-threads 8",
            "source_commits": [],
            "add_only": True,
        },
        "engines": [
            {"name": "synlint", "path": "/verif/engines/synlint", "serves_properties": sorted(CHECKS),
             "kind_free_text": "syn-based syntax-tree fact extractor (templates, tables, decision contexts)"},
            {"name": "mirfacts", "path": "/verif/engines/mirfacts", "serves_properties": sorted(CHECKS),
             "kind_free_text": "rustc_private driver dumping type-checked MIR facts; Python rule evaluators in /verif/rules"},
        ],
        "checks": checks,
        "not_applicable": na,
        "notes": "Static analysis only. Known findings (genuine defects recorded, not repaired) are in /verif/known_findings.json; "
                 "repaired defects are `fix:` commits in /repo and listed there as fixed entries.",
    }
    with open(os.path.join(VERIF, "MANIFEST.json"), "w") as fh:
        json.dump(m, fh, indent=1)
    print("wrote MANIFEST.json with", len(checks), "checks;", len(na), "not applicable")


if __name__ == "__main__":
    main()
