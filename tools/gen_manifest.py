#!/usr/bin/env python3
"""Regenerates /verif/MANIFEST.json from the table below (hand-maintained)."""
import json
import os

VERIF = os.path.dirname(os.path.dirname(os.path.abspath(__file__)))

SETUP = ("cd /verif/engines/synlint && CARGO_NET_OFFLINE=true cargo build --release --offline && "
         "cd /verif/engines/mirfacts && CARGO_NET_OFFLINE=true cargo +nightly build --release --offline")

NOTE = ("Trusted base: rustc nightly MIR construction / trait resolution / expansion data, syn's parser, the reference tables under "
        "/verif/reference (each entry reviewed by reading), cargo features as the only configuration switches. The check decides the named "
        "structural clauses for every input that can reach the analysed construct; the remaining behavioural content of the property is not decided. "
        "A rule that cannot find the construct it reasons about (the code is written in a form the rule does not read) prints `UNDECIDED: property=<id> ..`, "
        "records it under coverage.undecided in the evidence and does not fail the check: a violation needs positive evidence (DESIGN.md 9.9, 9.10).")

CHECKS = {
    "C05": ("DESIGN.md section 3/C05",
            "lock-region, who-may-call and dominance analysis on MIR",
            "Decides, on every path of export_and_merge, the structure the schedule half of C05 rests on: one Mutex guard is live across registry "
            "lookup, file open/read/merge/write/sync and registry update (C05.R1); no other function writes files or looks at the registry and no "
            "other process-wide state exists (C05.R2); re-export of a recorded type is a no-op by dominance of the `contains` guard (C05.R3); "
            "imports are accumulated in BTreeMap/BTreeSet and no hash- or visit-ordered sequence reaches the buffer (C05.R4); no panic-capable call "
            "runs under the lock (C05.R5; merge() repaired by d83e876); writer/reader agreement of the import line, markers and DECLARATION_START (R6); declaration blocks never stored in keyed collections nor matched start-anchored (R7); both sort keys derived alike (R8); the blank-line rewrite of doc text is complete (R9); the path->names import table only accumulates and is a set (R10); merge() rewrites no text (R11); the registry key function path::absolute is pure and always cleaned (R12); generate_decl() appends declarations free of empty lines and docs unmodified (R13; repaired by 9550283); only the writer queries the file system (R14); nothing on the write path rewrites text (R15). Byte-for-byte confluence of the textual merge over all declaration texts and "
            "orders is a statement about run-time strings and is NOT decided."),
    "C06": ("DESIGN.md section 3/C06",
            "interprocedural value-origin analysis and dominance on MIR",
            "Decides that the registry key originates from path::absolute on every call chain into export_and_merge (C06.R1), that the first touch "
            "of a path truncates (C06.R2), that TS_RS_EXPORT_DIR / cwd are each read in one place and every entry point goes through them (C06.R3), "
            "that the recursion is guarded by the seen-set and cannot bypass the dependency walk (C06.R4/C11.R2), and that no hidden process-wide "
            "state exists besides the registry. Independence of the final directory from call order as a whole also needs C05's textual merge and is NOT decided."),
    "C10": ("DESIGN.md section 3/C10",
            "type-checked key tables recovered from MIR; merge/feature-gate rules on the syntax tree; path counting",
            "Decides: ts and serde arms of a shared key call the same value parser and set the same field (R1); documented serde keys are present "
            "(R2); ts wins in every merge and from_attrs passes the ts value as receiver (R3); serde parsing is feature-gated (R4: dead "
            "in the derive compiled with --no-default-features, constant conditions folded); the unknown-key fallback always skips and never errors, and keys are read with parse_any (R5); no arm "
            "consumes `=` twice (R6); value forms serde accepts are accepted or recovered per key (R7; repaired by e6989d5); every "
            "token-skipping loop tests the token it skips, before advancing (R8); no unjustified panic on the serde path (R9); neither parsed value is altered before merge (R3); the separator is never followed by an untested key read, so a trailing comma is accepted (R11; repaired by d7bba3a); container from_attrs merges serde on every Ok path (R3); all serde lists are folded (R12); delimited groups are read to the end (R13); written values are recorded as written (R14) and not rewritten after the merge (R15). Equality of bindings for all types under the two "
            "spellings is NOT decided beyond these table/merge facts."),
    "C11": ("DESIGN.md section 3/C11",
            "who-may-call, call-graph edge and must-pass-through analysis on MIR",
            "Decides that only export_and_merge/export_to touch the file system and only at the path parameter (C11.R1), that the recursive walk "
            "exports the visited type, walks its dependencies through export_recursive, skips non-exportable types, stops at and returns the first "
            "error (C11.R2), and that the written path derives from <T as TS>::output_path() of the same T behind its Some-check (C11.R3); the generated output_path() template (R4), the generated export test calling export_all() on the erased type (R5), that every recorded dependency is emitted into visit_dependencies() (R6), that the derived visit_generics() visits and walks into every free parameter (R7), type-argument discipline (R8), the assembly of the emitted impl (R9), that every export request reaches the next stage or fails (R10), that the visitors decide from the error flag and output_path alone (R12), and that directories are created for the normalised path (R13). The "
            "directory-form/file-form string rule inside generated output_path() is NOT decided."),
    "C13": ("DESIGN.md section 3/C13",
            "iterator-provenance (static receiver types) and forward-flow analysis on MIR of both crates",
            "Decides the information-flow statement of C13: every consumption of a HashMap/HashSet iterator in either crate is order-insensitive or "
            "one of three justified sites (R1); the visit-ordered dependency Vec is only collected into BTree collections and no loop iterates it "
            "directly (R2); fields/variants are accumulated in Vecs in Punctuated order (R3). Determinism of rustc, file system and environment is out of scope."),
    "C16": ("DESIGN.md section 3/C16",
            "panic-site inventory, typestate (must-pass-through) and control-dependence rules on MIR plus syntax-tree decision tables",
            "Decides: every panic-capable call site of the proc-macro crate is discharged by a recognised guard or an exact justified entry (R1); "
            "every parsed attribute value is validated on every non-error path (R2); the 41 reference rejections are still present (R3); an unknown "
            "ts key always errors (R4); errors become compile_error! (R5); impl headers strip defaults of every parameter kind (R7); the where-clause walker reaches type parameters behind every type constructor incl. macro groups and qualified paths (R8; repaired by 5225b7b); untyped `[#(#xs),*]` repetitions are emitted only where xs is non-empty (R9; repaired by 31ba1b7, 442a643); the where-clause bounds every mentioned parameter (R11; e516a13); generated code names prelude items by path (R13; fe7df33). That every accepted expansion compiles is NOT decided beyond these clauses and the witnesses."),
    "C17": ("DESIGN.md section 3/C17",
            "error-discipline, dominance and panic-site analysis on MIR of the export path",
            "Decides: every fallible call on the export path is propagated (R1); registry insertions are dominated by successful write and sync "
            "(R2); panic-capable sites reachable from the four export entry points are justified (R3; merge() repaired by d83e876); exportability is "
            "checked before export_to/decl() (R4); no panic under the registry lock (R5); the recursive error is returned (R6). "
            "That the directory after a retry equals the fault-free one is NOT decided."),
}


CHECKS.update({
    "C01": ("DESIGN.md section 3/C01",
            "representation-class table and finite decision tables evaluated over the generator's syntax tree",
            "Decides necessary structural conditions of C01 for every input: each built-in leaf/container impl has the JSON shape class serde's data "
            "model assigns to it (R1); wire-name precedence rename > rename_all > identifier at every naming site and serde's routing of "
            "rename_all_fields (R2); the complete enum representation matrix (variant-untagged x 4 taggings x 5 field shapes x skipped): exactly "
            "one template is selected per cell and it carries exactly tag/name/content/payload in serde's shape and order (R3); the struct-level "
            "tag property is emitted first (R4); tag handed to variants only where serde does (R5); shape dispatch and empty/skipped shapes (R6; one known finding: a skipped newtype *struct* field is declared `null`, serde ignores the skip). Flatten/tag composition, nesting and value-level membership are NOT decided."),
    "C02": ("DESIGN.md section 3/C02",
            "template guard recognition, impl inventory and dominance on MIR, enum representation matrix",
            "Decides: `?` can only be emitted under the IsOption bound or the IS_OPTION test, IsOption/IS_OPTION exist only for Option<T> and are not "
            "forwarded by wrapper macros (R1); every parsed field/variant attribute has its skip flag branched on and nothing is emitted on the "
            "skip side (R2); tag literals / union arms per representation cell are exactly serde's (R3, shared with C01); the (struct optional_fields, field optional) table and the OptionInnerType selection by cells (R6); naming precedence and raw identifiers (R7, R8, shared); operands of ` & ` are atomic (R9; repaired by 148e3d3). Required-ness beyond `?`, "
            "tuple lengths and leaf value ranges are NOT decided."),
    "C03": ("DESIGN.md section 3/C03",
            "template/dependency pairing on the syntax tree (path-insensitive and per decision cell), must-pass-through and origin analysis on MIR",
            "Decides: every by-name type reference in a generator template is paired with push and every inlined one with append_from, per function "
            "(R1) and per (type-override, flatten, inline) cell (R1b); Dependencies::push/append_from record on every path (R5); every generic "
            "library impl visits exactly the parameters it names (R2); imports are computed on the erased type, self-filtered, and the same-file "
            "test uses the normalised specifier (R3); importer and exporter walk the same relation (R4); every recorded dependency is emitted (R6); names rendered by inline() are visited by visit_dependencies() (R2). Specifier correctness (C08) is NOT decided."),
    "C04": ("DESIGN.md section 3/C04",
            "dominance ordering on MIR, binding-origin rules and taint-to-quoted-sink enumeration on templates",
            "Decides: file layout order notice/imports/declaration/newline and docs/export/decl (R1); every property-name slot is bound directly to "
            "the quoting routine (R2); identifiers are un-raw'ed before becoming text (R3); every quoted interpolation without escaping is "
            "escaped by a recognised routine (R4; repaired by df5d127); writer/reader agreement with merge() (R5); the object-merge simplification is anchored on the comma (R6; repaired by f4662c5); enclosing parentheses are stripped only after inspecting the interior (R7; repaired by f79dc8d); the empty name is quoted (R8; repaired by 05e5756); the text handed to the writer is the generated module on every path, `format` feature included (R9); escape_string covers quote, backslash and line breaks (R10; repaired by 9a44cad). Parsing all outputs under a TypeScript grammar is NOT decided."),
    "C07": ("DESIGN.md section 3/C07",
            "sibling agreement of generic-parameter emitters and template scope analysis on the syntax tree",
            "Decides: the seven emitters of the item's type parameters use the same source and treat `concrete` consistently (droppers vs replacers), "
            "concrete maps are unioned (R1); decl() re-instantiates at placeholders, never through Self, and renders the header inside the "
            "placeholder scope; decl_concrete() is `type N = Self::inline()` (R2); imports use the erased type (R3). Text equality across "
            "instantiations is NOT decided beyond the template shape."),
    "C09": ("DESIGN.md section 3/C09",
            "resolved-callee comparison on MIR; decision tables on the syntax tree",
            "Decides: field sites and variant sites must not share one context-free conversion and each site uses the conversion of its role (R1, R2; "
            "repaired by 43fb687); naming precedence at the three sites over the un-raw'ed identifier (R2); rename_all_fields routing and precedence in from_variant (R3). Equality of each "
            "conversion with serde's on every identifier is a string-function equality and is NOT decided."),
    "C12": ("DESIGN.md section 3/C12",
            "table extraction from macro invocations and impl templates; call-set comparison on MIR",
            "Decides: each of the ~80 built-in impl rows has the class serde's data model assigns (number/bigint/string/boolean/null/transparent/"
            "nullable/array/tuple/keyed-object/range/result), name() and inline() agree, arrays repeat exactly 0..N with the Vec fallback above the "
            "limit, tuples cover arity 10 (R1); Named == Visited and Inlined <= Forwarded for every generic impl (R2); every impl whose name() only forwards to another type has its own inline()/inline_flattened() forwarding to the same type, a shadow also every method its target overrides (R7). Third-party crate types are "
            "reported unclassified; value-level agreement is NOT decided."),
    "C14": ("DESIGN.md section 3/C14",
            "routing rules on quote! templates recovered from MIR, read with the attribute tests that dominate them",
            "Decides: a field's raw type is read only through type_as (R1); every representation arm of format_variant uses the payload resolved "
            "from the variant attributes (R2); per (type, flatten, inline) cell the three field formatters emit literal/inline_flattened/inline/"
            "name and record none/append_from/append_from/push on the same variable (R3: on MIR, following an enum that carries the choice); decl_concrete shape and placeholder scope (R4); "
            "reference/dependency pairing (R5); enum inline_flattened is always parenthesised (R6); named() composition table (R7); `_` in `as` types substituted at every depth (R8); object-merge anchoring and paren stripping (R9, R10 = C04.R6/R7); wrapper/shadow delegation of inline_flattened (R11 = C12.R1); operands of ` & ` are atomic (R12 = C02.R9; repaired by 148e3d3); enum_def override order (R15). Denotational equality of bindings is NOT decided."),
    "C15": ("DESIGN.md section 3/C15",
            "field-level information-flow (role classification of every read of a docs field), sanitizer-on-path rule on MIR, dominance ordering",
            "Decides: doc text flows only into documentation sinks (R1); both member templates carry docs in the first slot and docs precede "
            "`export` (R2); every doc literal passes replace(\"*/\", ..) before it is wrapped (R3); the blank-line contract between doc rendering "
            "and merge() is enforced by the same routine, to a fixpoint (R4; repaired by ec0e636); docs are read on every non-error path of from_attrs under every feature set (R5); merge() rewrites no text (R6); DerivedTS.docs is the container's own docs (R7). That the comment contains the text verbatim is NOT decided."),
})

NOT_APPLICABLE = {
    "C08": "input/output relation of absolute∘diff_paths∘import_path over all pairs of run-time path strings: no pairing/ordering/ownership/table "
           "structure implies it; deciding it needs enumeration or symbolic reasoning over path values (a different technique family). See DESIGN.md section 4.",
}

PENDING = {}


def main():
    checks = []
    for pid in sorted(CHECKS):
        ref, tech, text = CHECKS[pid]
        checks.append({
            "property_id": pid,
            "quick_cmd": "./check %s quick" % pid,
            "thorough_cmd": "./check %s thorough" % pid,
            "evidence_file": "/verif/evidence/%s.json" % pid,
            "replay_cmd_template": "./check %s quick --replay {path}" % pid,
            "engine": "synlint+mirfacts",
            "level_claimed": {"category": "other", "text": text, "design_ref": ref},
            "level_note": NOTE,
            "technique": "static analysis: " + tech,
        })
    na = [{"property_id": k, "reason": v} for k, v in sorted({**NOT_APPLICABLE, **PENDING}.items())]
    m = {
        "version": 1,
        "setup_cmd": SETUP,
        "hooks": {
            "guard": "ts_rs_verif",
            "enable": "none needed: static analysis reads the sources; no instrumentation exists in /repo",
            "baseline_off_cmd": "cd /repo && cargo nextest run --workspace --no-fail-fast --offline --test-threads 8",
            "source_commits": [],
            "add_only": True,
        },
        "engines": [
            {"name": "synlint", "path": "/verif/engines/synlint", "serves_properties": sorted(CHECKS),
             "kind_free_text": "syn-based syntax-tree fact extractor (templates, tables, decision contexts)"},
            {"name": "mirfacts", "path": "/verif/engines/mirfacts", "serves_properties": sorted(CHECKS),
             "kind_free_text": "rustc_private driver dumping type-checked MIR facts; Python rule evaluators in /verif/rules"},
        ],
        "checks": checks,
        "not_applicable": na,
        "notes": "Static analysis only. Known findings (genuine defects recorded, not repaired) are in /verif/known_findings.json; "
                 "repaired defects are `fix:` commits in /repo and listed there as fixed entries.",
    }
    with open(os.path.join(VERIF, "MANIFEST.json"), "w") as fh:
        json.dump(m, fh, indent=1)
    print("wrote MANIFEST.json with", len(checks), "checks;", len(na), "not applicable")


if __name__ == "__main__":
    main()
