#!/usr/bin/env python3
"""Re-verify the behaviour-preserving refactorings stored in /verif/benign: for each one, in a scratch worktree of
/repo's HEAD (own target dir per lane, under /tmp/bnv, removed afterwards):
  1. its differential test passes on the unchanged tree,
  2. the patch applies and the workspace builds,
  3. the differential test passes with the patch,
  4. the repository's own suite passes with the patch (nextest, plus the differential test).
Writes benign/VERIFIED.txt.   usage: verify_benign.py [lanes] [ids...]"""
import glob, os, queue, re, shutil, subprocess, sys, threading
VERIF = os.path.dirname(os.path.dirname(os.path.abspath(__file__)))
ROOT = os.path.join(VERIF, os.environ.get("BENIGN_ROOT", "benign"))
lanes = int(sys.argv[1]) if len(sys.argv) > 1 else 4
only = sys.argv[2:]
BASE = "/tmp/bnv"
def sh(*a, **k): return subprocess.run(a, stdout=subprocess.PIPE, stderr=subprocess.STDOUT, text=True, **k)
assert sh("git", "-C", "/repo", "diff", "--quiet").returncode == 0, "/repo dirty"
shutil.rmtree(BASE, ignore_errors=True)
sh("git", "-C", "/repo", "worktree", "prune")
ids = [s for s in sorted(os.listdir(ROOT)) if os.path.isfile(os.path.join(ROOT, s, "patch.diff")) and (not only or s in only)]
q = queue.Queue()
[q.put(s) for s in ids]
res, lock = {}, threading.Lock()

def lane(i):
    wt = "%s/wt%d" % (BASE, i)
    assert sh("git", "-C", "/repo", "worktree", "add", "-q", "--detach", wt, "HEAD").returncode == 0
    env = dict(os.environ, CARGO_TARGET_DIR="%s/t%d" % (BASE, i), CARGO_NET_OFFLINE="true")
    env.pop("TS_RS_EXPORT_DIR", None)
    while True:
        try:
            sid = q.get_nowait()
        except queue.Empty:
            break
        d = os.path.join(ROOT, sid)
        tests = sorted(glob.glob(os.path.join(d, "demo", "ref[BCDE]_*.rs")))
        names = [os.path.basename(t)[:-3] for t in tests]
        for t in tests:
            shutil.copy(t, os.path.join(wt, "ts-rs", "tests"))
        targs = [a for n in names for a in ("--test", n)]
        out = []
        try:
            r = sh("cargo", "test", "-p", "ts-rs", "--offline", *targs, cwd=os.path.join(wt, "ts-rs"), env=env)
            out.append("clean:" + ("pass" if r.returncode == 0 else "FAIL " + r.stdout[-400:]))
            r = sh("git", "-C", wt, "apply", os.path.join(d, "patch.diff"))
            if r.returncode != 0:
                out.append("PATCH-DOES-NOT-APPLY " + r.stdout[-200:])
            else:
                r = sh("cargo", "test", "-p", "ts-rs", "--offline", *targs, cwd=os.path.join(wt, "ts-rs"), env=env)
                out.append("patched:" + ("pass" if r.returncode == 0 else "FAIL " + r.stdout[-400:]))
                r = sh("cargo", "nextest", "run", "--workspace", "--no-fail-fast", "--offline", cwd=wt, env=env)
                m = re.search(r"(\d+) tests? run: (\d+) passed(?: \((\d+) flaky\))?(?:, (\d+) failed)?", r.stdout)
                failed = re.findall(r"^\s+FAIL .*?\] +(?:\(\d+/\d+\) +)?(\S+ +\S+)", r.stdout, re.M)
                out.append("suite:" + (m.group(0) if m else "NO-SUMMARY " + r.stdout[-300:]) + ("" if r.returncode == 0 else " FAILED=" + ",".join(sorted(set(failed)))))
        finally:
            sh("git", "-C", wt, "checkout", "--", ".")
            sh("git", "-C", wt, "clean", "-fdq")
        with lock:
            res[sid] = " | ".join(out)
            print(sid, res[sid], flush=True)
    sh("git", "-C", "/repo", "worktree", "remove", "--force", wt)

ts = [threading.Thread(target=lane, args=(i,)) for i in range(min(lanes, len(ids)))]
[t.start() for t in ts]
[t.join() for t in ts]
shutil.rmtree(BASE, ignore_errors=True)
sh("git", "-C", "/repo", "worktree", "prune")
head = sh("git", "-C", "/repo", "rev-parse", "--short", "HEAD").stdout.strip()
prev = {}
vp = os.path.join(ROOT, "VERIFIED.txt")
if only and os.path.exists(vp):
    for l in open(vp).read().splitlines()[1:]:
        k, _, v = l.partition(" ")
        prev[k] = v
prev.update(res)
open(vp, "w").write("verified against /repo HEAD %s\n" % head + "".join("%s %s\n" % kv for kv in sorted(prev.items())))
