#!/usr/bin/env python3
"""compare /tmp/cr/seeded_result.json with seeded/MATRIX.json for the given properties: seeds a property used to detect and no longer does.
usage: matrix_diff.py C03,C05"""
import json, sys
props = sys.argv[1].split(",")
m = json.load(open("/verif/seeded/MATRIX.json")); r = json.load(open("/tmp/cr/seeded_result.json"))
for s, v in sorted(m.items()):
    old = v.get("detected_by") or {}
    new = (r.get(s) or {}).get("detected_by") or {}
    for p in props:
        if p in old and p not in new:
            ks = [k for k in old[p] if not k.startswith(("anchor-missing", "floor "))]
            print("LOST" if ks else "lost(undecided-only)", s, p, [k[:70] for k in old[p]][:3])
