#!/usr/bin/env python3
"""Write seeded/MATRIX.json from the result of `tools/corpus_run.py seeded` (/tmp/cr/seeded_result.json): per seed and
property the keys of the violations reported (UNDECIDED lines are not violations and are not recorded)."""
import json, os, re
VERIF = os.path.dirname(os.path.dirname(os.path.abspath(__file__)))
r = json.load(open("/tmp/cr/seeded_result.json"))
old = json.load(open(os.path.join(VERIF, "seeded", "MATRIX.json")))
out = {}
for sid, v in sorted(r.items()):
    det = {}
    for p, lines in (v.get("detected_by") or {}).items():
        keys = []
        for l in lines:
            m = re.match(r"^(?:\S+: )?(.*?): \[C\d\d\.R", l)
            if m and m.group(1) not in keys:
                keys.append(m.group(1))
        if keys:
            det[p] = keys
    out[sid] = {"detected_by": det}
    for k, val in (old.get(sid) or {}).items():
        if k != "detected_by":
            out[sid][k] = val
json.dump(out, open(os.path.join(VERIF, "seeded", "MATRIX.json"), "w"), indent=1, sort_keys=True)
print("seeds:", len(out), "detected:", sum(1 for v in out.values() if v["detected_by"]), "missed:", " ".join(s for s, v in out.items() if not v["detected_by"]))
