#!/usr/bin/env python3
"""One-off generator for reference/incompat.json (run by hand on a reviewed tree; never by a check)."""
import json, os, sys
sys.path.insert(0, os.path.dirname(os.path.dirname(os.path.abspath(__file__))))
from vlib import common, synlib
from rules import C16
syn = synlib.Syn(common.get_syn())
m = C16.extract_matrix(syn)
out = {"_comment": "Rejected attribute combinations, frozen from the reviewed tree (ts-rs 10.1.0 + fix commits). Each row: the attribute fields / item-shape markers that guard one error site in assert_validity. Additional rejections are fine; a missing row is a violation.",
       "matrix": {k: [{"atoms": r["atoms"]} for r in v] for k, v in m.items()}}
json.dump(out, open(os.path.join(common.VERIF, "reference/incompat.json"), "w"), indent=1)
for k, v in m.items():
    print(k, len(v))
    for r in v: print("   ", r["atoms"], r["line"])
