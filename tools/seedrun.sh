#!/bin/bash
# seedrun.sh <patch.diff> <prop>... : apply a seeded change to /repo, run the given checks, undo it.
P=$1; shift
cd /repo && git diff --quiet || { echo "/repo dirty"; exit 9; }
git -C /repo apply "$P" || { echo "patch does not apply"; exit 8; }
for prop in "$@"; do
  /verif/check $prop quick 2>/dev/null | grep -v "^KNOWN-FINDING" | cut -c1-330
done
git -C /repo checkout -- . 
