#!/bin/bash
# audit_seeds_at_head.sh [lanes] : for every stored seed, does the author's demo still fail with the patch applied to /repo's HEAD?
# writes seeded/HEAD_AUDIT.txt (one line per seed: DEMO-FAILS = still a live regression, DEMO-PASSES = neutralised by a later repair)
L=${1:-4}
ls /verif/seeded | grep -E '^C[0-9]+_[a-z]$' | xargs -P $L -I{} sh -c 'SD_TARGET=/tmp/sd_target_$(( $$ % '$L' )) bash /verif/tools/seed_demo_at_head.sh {} 2>&1 | tail -1' > /tmp/head_audit.txt
sort /tmp/head_audit.txt > /verif/seeded/HEAD_AUDIT.txt
rm -rf /tmp/sd_target_* /tmp/sd
