//! mirfacts — rustc_private driver that dumps type-checked MIR facts as JSON.
//!
//! Used as RUSTC_WORKSPACE_WRAPPER: argv = [mirfacts, <rustc path>, rustc args...].
//! For every workspace crate compiled through it, one JSON file is written (single write)
//! into $MIRFACTS_OUT: <crate>-<pid>.json. Nothing is executed; the file describes every
//! MIR body of the crate: locals, blocks, statements, terminators with resolved callees,
//! constants, field names, spans and macro-expansion provenance.
#![feature(rustc_private)]

extern crate rustc_abi;
extern crate rustc_driver;
extern crate rustc_hir;
extern crate rustc_interface;
extern crate rustc_middle;
extern crate rustc_session;
extern crate rustc_span;

use std::fmt::Write as _;

use rustc_driver::Compilation;
use rustc_hir::def::DefKind;
use rustc_hir::def_id::{DefId, LOCAL_CRATE};
use rustc_middle::mir::{
    self, AggregateKind, BasicBlock, Body, Const, ConstValue, Operand, Place, ProjectionElem, Rvalue,
    StatementKind, TerminatorKind, VarDebugInfoContents,
};
use rustc_middle::ty::print::PrintTraitRefExt;
use rustc_middle::ty::{self, Instance, Ty, TyCtxt, TypingEnv};
use rustc_span::{ExpnKind, Span};

// ---------------------------------------------------------------- tiny JSON

enum J {
    Null,
    Bool(bool),
    Num(i128),
    Str(String),
    Arr(Vec<J>),
    Obj(Vec<(&'static str, J)>),
}

fn esc(s: &str, out: &mut String) {
    out.push('"');
    for c in s.chars() {
        match c {
            '"' => out.push_str("\\\""),
            '\\' => out.push_str("\\\\"),
            '\n' => out.push_str("\\n"),
            '\r' => out.push_str("\\r"),
            '\t' => out.push_str("\\t"),
            c if (c as u32) < 0x20 => {
                let _ = write!(out, "\\u{:04x}", c as u32);
            }
            c => out.push(c),
        }
    }
    out.push('"');
}

impl J {
    fn write(&self, out: &mut String) {
        match self {
            J::Null => out.push_str("null"),
            J::Bool(b) => out.push_str(if *b { "true" } else { "false" }),
            J::Num(n) => {
                let _ = write!(out, "{n}");
            }
            J::Str(s) => esc(s, out),
            J::Arr(v) => {
                out.push('[');
                for (i, x) in v.iter().enumerate() {
                    if i > 0 {
                        out.push(',');
                    }
                    x.write(out);
                }
                out.push(']');
            }
            J::Obj(v) => {
                out.push('{');
                for (i, (k, x)) in v.iter().enumerate() {
                    if i > 0 {
                        out.push(',');
                    }
                    esc(k, out);
                    out.push(':');
                    x.write(out);
                }
                out.push('}');
            }
        }
    }
}

fn s(x: impl Into<String>) -> J {
    J::Str(x.into())
}

fn v_push_str(v: &mut Vec<(&'static str, J)>, bytes: &[u8]) {
    v.push(("str", s(String::from_utf8_lossy(bytes).to_string())));
}

// ---------------------------------------------------------------- extraction

struct Cx<'tcx> {
    tcx: TyCtxt<'tcx>,
}

impl<'tcx> Cx<'tcx> {
    fn span(&self, sp: Span) -> J {
        let sm = self.tcx.sess.source_map();
        let mut v = Vec::new();
        let lo = sm.lookup_char_pos(sp.lo());
        v.push(("file", s(format!("{}", lo.file.name.prefer_local_unconditionally()))));
        v.push(("line", J::Num(lo.line as i128)));
        v.push(("col", J::Num(lo.col.0 as i128)));
        v.push(("exp", J::Bool(sp.from_expansion())));
        if sp.from_expansion() {
            // chain of macro names, innermost first, plus the outermost call site
            let mut names = Vec::new();
            let mut cur = sp;
            let mut guard = 0;
            while cur.from_expansion() && guard < 32 {
                let data = cur.ctxt().outer_expn_data();
                match data.kind {
                    ExpnKind::Macro(_, name) => names.push(s(name.to_string())),
                    ExpnKind::Desugaring(d) => names.push(s(format!("desugar:{d:?}"))),
                    ExpnKind::AstPass(p) => names.push(s(format!("astpass:{p:?}"))),
                    ExpnKind::Root => names.push(s("root")),
                }
                cur = data.call_site;
                guard += 1;
            }
            v.push(("macros", J::Arr(names)));
            let cs = sm.lookup_char_pos(cur.lo());
            v.push(("cs_file", s(format!("{}", cs.file.name.prefer_local_unconditionally()))));
            v.push(("cs_line", J::Num(cs.line as i128)));
        }
        J::Obj(v)
    }

    fn ty(&self, t: Ty<'tcx>) -> J {
        s(format!("{t}"))
    }

    fn place(&self, body: &Body<'tcx>, p: Place<'tcx>) -> J {
        let mut proj = Vec::new();
        let mut pty = mir::PlaceTy::from_ty(body.local_decls[p.local].ty);
        for elem in p.projection.iter() {
            match elem {
                ProjectionElem::Deref => proj.push(s("*")),
                ProjectionElem::Field(f, _) => {
                    let name = match pty.ty.kind() {
                        ty::Adt(adt, _) => {
                            let vi = pty.variant_index.unwrap_or(rustc_abi::FIRST_VARIANT);
                            if adt.is_enum() || adt.is_struct() || adt.is_union() {
                                let var = adt.variant(vi);
                                let fname = var.fields.get(f).map(|fd| fd.name.to_string());
                                match fname {
                                    Some(n) if adt.is_enum() => format!(".{}::{}", var.name, n),
                                    Some(n) => format!(".{n}"),
                                    None => format!(".{}", f.index()),
                                }
                            } else {
                                format!(".{}", f.index())
                            }
                        }
                        _ => format!(".{}", f.index()),
                    };
                    proj.push(s(name));
                }
                ProjectionElem::Index(l) => proj.push(s(format!("[_{}]", l.index()))),
                ProjectionElem::ConstantIndex { offset, from_end, .. } => {
                    proj.push(s(format!("[c{}{}]", if from_end { "-" } else { "" }, offset)))
                }
                ProjectionElem::Subslice { from, to, from_end } => {
                    proj.push(s(format!("[{from}..{to}{}]", if from_end { "e" } else { "" })))
                }
                ProjectionElem::Downcast(name, vi) => {
                    let n = name.map(|n| n.to_string()).unwrap_or_else(|| format!("{}", vi.index()));
                    proj.push(s(format!("as {n}")))
                }
                ProjectionElem::OpaqueCast(_) => proj.push(s("opaque")),
                ProjectionElem::UnwrapUnsafeBinder(_) => proj.push(s("unwrap_binder")),
            }
            pty = pty.projection_ty(self.tcx, elem);
        }
        J::Obj(vec![("l", J::Num(p.local.index() as i128)), ("p", J::Arr(proj))])
    }

    fn fn_ref(&self, owner: DefId, def_id: DefId, args: ty::GenericArgsRef<'tcx>) -> Vec<(&'static str, J)> {
        let tcx = self.tcx;
        let mut v = Vec::new();
        v.push(("path", s(tcx.def_path_str(def_id))));
        v.push(("full", s(tcx.def_path_str_with_args(def_id, args))));
        v.push(("krate", s(tcx.crate_name(def_id.krate).to_string())));
        v.push(("args", J::Arr(args.iter().map(|a| s(format!("{a}"))).collect())));
        // container (trait or impl) of an associated fn
        if let Some(assoc) = tcx.opt_associated_item(def_id) {
            let cont = assoc.container_id(tcx);
            match tcx.def_kind(cont) {
                DefKind::Trait => v.push(("trait", s(tcx.def_path_str(cont)))),
                DefKind::Impl { .. } => {
                    v.push(("impl_self", s(format!("{}", tcx.type_of(cont).instantiate_identity().skip_norm_wip()))));
                    if let Some(tr) = tcx.impl_opt_trait_ref(cont) {
                        v.push(("impl_trait", s(format!("{}", tr.instantiate_identity().skip_norm_wip().print_only_trait_path()))));
                    }
                }
                _ => {}
            }
        }
        // resolution (only meaningful for Fn / AssocFn)
        if matches!(tcx.def_kind(def_id), DefKind::Fn | DefKind::AssocFn) {
            let env = TypingEnv::post_analysis(tcx, owner);
            let res = std::panic::catch_unwind(std::panic::AssertUnwindSafe(|| {
                Instance::try_resolve(tcx, env, def_id, args)
            }));
            if let Ok(Ok(Some(inst))) = res {
                let rid = inst.def_id();
                v.push(("res", s(tcx.def_path_str(rid))));
                v.push(("res_full", s(tcx.def_path_str_with_args(rid, inst.args))));
                v.push(("res_krate", s(tcx.crate_name(rid.krate).to_string())));
                v.push(("res_kind", s(format!("{:?}", std::mem::discriminant(&inst.def)).replace("Discriminant", ""))));
                let kind = match inst.def {
                    ty::InstanceKind::Item(_) => "item",
                    ty::InstanceKind::Virtual(..) => "virtual",
                    ty::InstanceKind::Intrinsic(_) => "intrinsic",
                    ty::InstanceKind::ClosureOnceShim { .. } => "closure_once_shim",
                    ty::InstanceKind::FnPtrShim(..) => "fn_ptr_shim",
                    ty::InstanceKind::DropGlue(..) => "drop_glue",
                    ty::InstanceKind::CloneShim(..) => "clone_shim",
                    _ => "other",
                };
                v.push(("res_k", s(kind)));
                if let Some(assoc) = tcx.opt_associated_item(rid) {
                    let cont = assoc.container_id(tcx);
                    if let DefKind::Impl { .. } = tcx.def_kind(cont) {
                        v.push(("res_impl_self", s(format!("{}", tcx.type_of(cont).instantiate_identity().skip_norm_wip()))));
                    }
                }
            }
        }
        v
    }

    fn constant(&self, owner: DefId, c: &mir::ConstOperand<'tcx>) -> J {
        let tcx = self.tcx;
        let cty = c.const_.ty();
        let mut v = vec![("ty", self.ty(cty))];
        match cty.kind() {
            ty::FnDef(def_id, args) => {
                v.push(("fn", J::Obj(self.fn_ref(owner, *def_id, args))));
            }
            ty::Closure(def_id, _) => {
                v.push(("closure", s(tcx.def_path_str(*def_id))));
            }
            _ => {}
        }
        // string / scalar values
        match c.const_ {
            Const::Val(val, ty) => {
                match val {
                    ConstValue::Slice { .. } => {
                        if let Some(bytes) = val.try_get_slice_bytes_for_diagnostics(tcx) {
                            v.push(("str", s(String::from_utf8_lossy(bytes).to_string())));
                        }
                    }
                    ConstValue::Scalar(sc) => {
                        if let mir::interpret::Scalar::Int(i) = sc {
                            if ty.is_bool() || ty.is_integral() || ty.is_char() {
                                let bits = i.to_bits_unchecked();
                                v.push(("int", J::Num(bits as i128)));
                            }
                        } else if let mir::interpret::Scalar::Ptr(ptr, _) = sc {
                            let alloc_id = ptr.provenance.alloc_id();
                            match tcx.try_get_global_alloc(alloc_id) {
                                Some(mir::interpret::GlobalAlloc::Static(did)) => {
                                    v.push(("static", s(tcx.def_path_str(did))));
                                }
                                Some(mir::interpret::GlobalAlloc::Memory(alloc)) => {
                                    // &&str / &[&str] style constants: try to show bytes if small
                                    let a = alloc.inner();
                                    let len = a.len();
                                    if len <= 256 && a.provenance().ptrs().is_empty() {
                                        let bytes = a.inspect_with_uninit_and_ptr_outside_interpreter(0..len);
                                        v.push(("mem", s(String::from_utf8_lossy(bytes).to_string())));
                                    }
                                }
                                _ => {}
                            }
                        }
                    }
                    _ => {}
                }
            }
            Const::Unevaluated(uv, _) => {
                v.push(("uneval", s(tcx.def_path_str_with_args(uv.def, uv.args))));
                if uv.promoted.is_some() {
                    v.push(("promoted", J::Num(uv.promoted.unwrap().index() as i128)));
                    // what the promoted temporary is made of: the named constants and string literals it mentions
                    if uv.def.is_local() {
                        let proms = tcx.promoted_mir(uv.def);
                        if let Some(pb) = proms.get(uv.promoted.unwrap()) {
                            let mut inner: Vec<J> = Vec::new();
                            for bb in pb.basic_blocks.iter() {
                                for st in bb.statements.iter() {
                                    if let StatementKind::Assign(bx) = &st.kind {
                                        let mut ops: Vec<&Operand<'tcx>> = Vec::new();
                                        match &bx.1 {
                                            Rvalue::Use(o, ..) | Rvalue::Cast(_, o, _) => ops.push(o),
                                            Rvalue::Aggregate(_, os) => ops.extend(os.iter()),
                                            _ => {}
                                        }
                                        for o in ops {
                                            if let Operand::Constant(ic) = o {
                                                match ic.const_ {
                                                    Const::Unevaluated(iu, _) if iu.promoted.is_none() => {
                                                        inner.push(s(tcx.def_path_str_with_args(iu.def, iu.args)));
                                                    }
                                                    _ => {}
                                                }
                                            }
                                        }
                                    }
                                }
                            }
                            v.push(("promoted_names", J::Arr(inner)));
                        }
                    }
                }
            }
            Const::Ty(_, ct) => {
                if let Some(val) = ct.try_to_value() {
                    if let Some(bytes) = val.try_to_raw_bytes(tcx) {
                        v_push_str(&mut v, bytes);
                    } else if let Some(i) = val.try_to_leaf() {
                        if val.ty.is_bool() || val.ty.is_integral() || val.ty.is_char() {
                            v.push(("int", J::Num(i.to_bits_unchecked() as i128)));
                        }
                    }
                }
            }
        }
        v.push(("dbg", s(format!("{}", c.const_))));
        J::Obj(v)
    }

    fn operand(&self, owner: DefId, body: &Body<'tcx>, op: &Operand<'tcx>) -> J {
        match op {
            Operand::Copy(p) => J::Obj(vec![("k", s("copy")), ("pl", self.place(body, *p))]),
            Operand::Move(p) => J::Obj(vec![("k", s("move")), ("pl", self.place(body, *p))]),
            Operand::Constant(c) => J::Obj(vec![("k", s("const")), ("c", self.constant(owner, c))]),
            #[allow(unreachable_patterns)]
            _ => J::Obj(vec![("k", s("other")), ("dbg", s(format!("{op:?}")))]),
        }
    }

    fn rvalue(&self, owner: DefId, body: &Body<'tcx>, rv: &Rvalue<'tcx>) -> J {
        let tcx = self.tcx;
        match rv {
            Rvalue::Use(op, ..) => J::Obj(vec![("k", s("use")), ("op", self.operand(owner, body, op))]),
            Rvalue::Ref(_, bk, p) => J::Obj(vec![
                ("k", s("ref")),
                ("mut", J::Bool(matches!(bk, mir::BorrowKind::Mut { .. }))),
                ("pl", self.place(body, *p)),
            ]),
            Rvalue::RawPtr(_, p) => J::Obj(vec![("k", s("rawptr")), ("pl", self.place(body, *p))]),
            Rvalue::Cast(kind, op, t) => J::Obj(vec![
                ("k", s("cast")),
                ("cast", s(format!("{kind:?}"))),
                ("op", self.operand(owner, body, op)),
                ("ty", self.ty(*t)),
            ]),
            Rvalue::BinaryOp(bop, ops) => J::Obj(vec![
                ("k", s("binop")),
                ("op", s(format!("{bop:?}"))),
                ("a", self.operand(owner, body, &ops.0)),
                ("b", self.operand(owner, body, &ops.1)),
            ]),
            Rvalue::UnaryOp(uop, op) => J::Obj(vec![
                ("k", s("unop")),
                ("op", s(format!("{uop:?}"))),
                ("a", self.operand(owner, body, op)),
            ]),
            Rvalue::Discriminant(p) => J::Obj(vec![("k", s("discr")), ("pl", self.place(body, *p))]),
            Rvalue::Aggregate(kind, ops) => {
                let mut v = vec![("k", s("agg"))];
                match &**kind {
                    AggregateKind::Adt(did, vi, args, _, _) => {
                        let adt = tcx.adt_def(*did);
                        v.push(("adt", s(tcx.def_path_str(*did))));
                        v.push(("variant", s(adt.variant(*vi).name.to_string())));
                        v.push(("adt_args", J::Arr(args.iter().map(|a| s(format!("{a}"))).collect())));
                        v.push((
                            "fields",
                            J::Arr(adt.variant(*vi).fields.iter().map(|f| s(f.name.to_string())).collect()),
                        ));
                    }
                    AggregateKind::Closure(did, _) => v.push(("closure", s(tcx.def_path_str(*did)))),
                    AggregateKind::Tuple => v.push(("tuple", J::Bool(true))),
                    AggregateKind::Array(t) => v.push(("array", self.ty(*t))),
                    other => v.push(("other", s(format!("{other:?}")))),
                }
                v.push(("ops", J::Arr(ops.iter().map(|o| self.operand(owner, body, o)).collect())));
                J::Obj(v)
            }
            Rvalue::Repeat(op, _) => J::Obj(vec![("k", s("repeat")), ("op", self.operand(owner, body, op))]),
            Rvalue::CopyForDeref(p) => J::Obj(vec![
                ("k", s("use")),
                ("op", J::Obj(vec![("k", s("copy")), ("pl", self.place(body, *p))])),
            ]),
            other => J::Obj(vec![("k", s("other")), ("dbg", s(format!("{other:?}")))]),
        }
    }

    fn bb(&self, b: BasicBlock) -> J {
        J::Num(b.index() as i128)
    }

    fn unwind(&self, u: &mir::UnwindAction) -> J {
        match u {
            mir::UnwindAction::Cleanup(b) => self.bb(*b),
            _ => J::Null,
        }
    }

    fn body(&self, def_id: DefId, body: &Body<'tcx>) -> J {
        let tcx = self.tcx;
        let mut v = Vec::new();
        v.push(("path", s(tcx.def_path_str(def_id))));
        v.push(("kind", s(format!("{:?}", tcx.def_kind(def_id)))));
        v.push(("span", self.span(body.span)));
        v.push(("arg_count", J::Num(body.arg_count as i128)));
        // parent impl / trait
        if let Some(assoc) = tcx.opt_associated_item(def_id) {
            v.push(("assoc_name", s(assoc.name().to_string())));
            let cont = assoc.container_id(tcx);
            match tcx.def_kind(cont) {
                DefKind::Trait => v.push(("in_trait", s(tcx.def_path_str(cont)))),
                DefKind::Impl { .. } => {
                    v.push(("impl_self", s(format!("{}", tcx.type_of(cont).instantiate_identity().skip_norm_wip()))));
                    if let Some(tr) = tcx.impl_opt_trait_ref(cont) {
                        v.push(("impl_trait", s(format!("{}", tr.instantiate_identity().skip_norm_wip().print_only_trait_path()))));
                    }
                    v.push(("impl_span", self.span(tcx.def_span(cont))));
                }
                _ => {}
            }
        }
        if let DefKind::Closure = tcx.def_kind(def_id) {
            v.push(("closure_parent", s(tcx.def_path_str(tcx.typeck_root_def_id(def_id)))));
        }
        // the item's own generic parameters (parents' first), in the order in which call sites list their arguments
        let ident_args = ty::GenericArgs::identity_for_item(tcx, tcx.typeck_root_def_id(def_id));
        v.push(("generic_params", J::Arr(ident_args.iter().map(|a| s(format!("{a}"))).collect())));
        // return type
        v.push(("ret_ty", self.ty(body.local_decls[mir::RETURN_PLACE].ty)));
        // locals
        let mut names: Vec<Option<String>> = vec![None; body.local_decls.len()];
        let mut captures = Vec::new();
        for vdi in &body.var_debug_info {
            if let VarDebugInfoContents::Place(p) = vdi.value {
                if p.projection.is_empty() {
                    names[p.local.index()] = Some(vdi.name.to_string());
                } else {
                    captures.push(J::Obj(vec![("name", s(vdi.name.to_string())), ("pl", self.place(body, p))]));
                }
            }
        }
        let locals: Vec<J> = body
            .local_decls
            .iter_enumerated()
            .map(|(l, d)| {
                J::Obj(vec![
                    ("ty", self.ty(d.ty)),
                    ("name", names[l.index()].clone().map(J::Str).unwrap_or(J::Null)),
                ])
            })
            .collect();
        v.push(("locals", J::Arr(locals)));
        v.push(("captures", J::Arr(captures)));
        // blocks
        let mut blocks = Vec::new();
        for (_bb, data) in body.basic_blocks.iter_enumerated() {
            let mut stmts = Vec::new();
            for st in &data.statements {
                match &st.kind {
                    StatementKind::Assign(b) => {
                        let (pl, rv) = &**b;
                        stmts.push(J::Obj(vec![
                            ("k", s("assign")),
                            ("dst", self.place(body, *pl)),
                            ("rv", self.rvalue(def_id, body, rv)),
                            ("span", self.span(st.source_info.span)),
                        ]));
                    }
                    StatementKind::SetDiscriminant { place, variant_index } => {
                        stmts.push(J::Obj(vec![
                            ("k", s("setdiscr")),
                            ("dst", self.place(body, **place)),
                            ("variant", J::Num(variant_index.index() as i128)),
                        ]));
                    }
                    StatementKind::StorageLive(_)
                    | StatementKind::StorageDead(_)
                    | StatementKind::Nop
                    | StatementKind::FakeRead(..)
                    | StatementKind::PlaceMention(..)
                    | StatementKind::AscribeUserType(..)
                    | StatementKind::Coverage(..)
                    | StatementKind::ConstEvalCounter
                    | StatementKind::BackwardIncompatibleDropHint { .. } => {}
                    other => stmts.push(J::Obj(vec![("k", s("other")), ("dbg", s(format!("{other:?}")))])),
                }
            }
            let term = data.terminator();
            let tspan = self.span(term.source_info.span);
            let t = match &term.kind {
                TerminatorKind::Goto { target } => J::Obj(vec![("k", s("goto")), ("target", self.bb(*target))]),
                TerminatorKind::SwitchInt { discr, targets } => {
                    let mut vals = Vec::new();
                    for (val, tgt) in targets.iter() {
                        vals.push(J::Arr(vec![J::Num(val as i128), self.bb(tgt)]));
                    }
                    J::Obj(vec![
                        ("k", s("switch")),
                        ("discr", self.operand(def_id, body, discr)),
                        ("discr_ty", self.ty(discr.ty(&body.local_decls, tcx))),
                        ("targets", J::Arr(vals)),
                        ("otherwise", self.bb(targets.otherwise())),
                        ("span", tspan),
                    ])
                }
                TerminatorKind::Return => J::Obj(vec![("k", s("return")), ("span", tspan)]),
                TerminatorKind::Unreachable => J::Obj(vec![("k", s("unreachable"))]),
                TerminatorKind::UnwindResume => J::Obj(vec![("k", s("resume"))]),
                TerminatorKind::UnwindTerminate(_) => J::Obj(vec![("k", s("terminate"))]),
                TerminatorKind::Drop { place, target, unwind, .. } => J::Obj(vec![
                    ("k", s("drop")),
                    ("pl", self.place(body, *place)),
                    ("target", self.bb(*target)),
                    ("unwind", self.unwind(unwind)),
                    ("span", tspan),
                ]),
                TerminatorKind::Call { func, args, destination, target, unwind, .. } => {
                    let mut o = vec![("k", s("call"))];
                    match func {
                        Operand::Constant(c) => {
                            if let ty::FnDef(did, ga) = c.const_.ty().kind() {
                                o.push(("fn", J::Obj(self.fn_ref(def_id, *did, ga))));
                            } else {
                                o.push(("fn_dbg", s(format!("{}", c.const_))));
                            }
                        }
                        other => {
                            o.push(("fn_op", self.operand(def_id, body, other)));
                            o.push(("fn_ty", self.ty(other.ty(&body.local_decls, tcx))));
                        }
                    }
                    o.push((
                        "args",
                        J::Arr(args.iter().map(|a| self.operand(def_id, body, &a.node)).collect()),
                    ));
                    o.push((
                        "arg_tys",
                        J::Arr(args.iter().map(|a| self.ty(a.node.ty(&body.local_decls, tcx))).collect()),
                    ));
                    o.push(("dst", self.place(body, *destination)));
                    o.push(("dst_ty", self.ty(destination.ty(&body.local_decls, tcx).ty)));
                    o.push(("target", target.map(|t| self.bb(t)).unwrap_or(J::Null)));
                    o.push(("unwind", self.unwind(unwind)));
                    o.push(("span", tspan));
                    J::Obj(o)
                }
                TerminatorKind::Assert { cond, expected, msg, target, unwind } => J::Obj(vec![
                    ("k", s("assert")),
                    ("cond", self.operand(def_id, body, cond)),
                    ("expected", J::Bool(*expected)),
                    ("msg", s(format!("{:?}", std::mem::discriminant(&**msg)))),
                    ("msg_dbg", s(format!("{msg:?}"))),
                    ("target", self.bb(*target)),
                    ("unwind", self.unwind(unwind)),
                    ("span", tspan),
                ]),
                TerminatorKind::FalseEdge { real_target, .. } => {
                    J::Obj(vec![("k", s("goto")), ("target", self.bb(*real_target))])
                }
                TerminatorKind::FalseUnwind { real_target, .. } => {
                    J::Obj(vec![("k", s("goto")), ("target", self.bb(*real_target))])
                }
                other => J::Obj(vec![("k", s("other")), ("dbg", s(format!("{other:?}")))]),
            };
            blocks.push(J::Obj(vec![
                ("cleanup", J::Bool(data.is_cleanup)),
                ("stmts", J::Arr(stmts)),
                ("term", t),
            ]));
        }
        v.push(("blocks", J::Arr(blocks)));
        J::Obj(v)
    }

    fn impls(&self) -> J {
        // every trait impl in the local crate: trait path, self type, span, assoc consts/types with values
        let tcx = self.tcx;
        let mut out = Vec::new();
        for id in tcx.hir_free_items() {
            let did = id.owner_id.to_def_id();
            if let DefKind::Impl { of_trait } = tcx.def_kind(did) {
                let mut v = Vec::new();
                v.push(("self_ty", s(format!("{}", tcx.type_of(did).instantiate_identity().skip_norm_wip()))));
                if of_trait {
                    if let Some(tr) = tcx.impl_opt_trait_ref(did) {
                        v.push(("trait", s(format!("{}", tr.instantiate_identity().skip_norm_wip().print_only_trait_path()))));
                    }
                }
                v.push(("span", self.span(tcx.def_span(did))));
                let mut items = Vec::new();
                for assoc in tcx.associated_items(did).in_definition_order() {
                    let mut iv = vec![("name", s(assoc.name().to_string())), ("kind", s(format!("{:?}", assoc.tag())))];
                    if matches!(tcx.def_kind(assoc.def_id), DefKind::AssocTy) {
                        iv.push(("ty", s(format!("{}", tcx.type_of(assoc.def_id).instantiate_identity().skip_norm_wip()))));
                    }
                    items.push(J::Obj(iv));
                }
                v.push(("items", J::Arr(items)));
                let generics = tcx.generics_of(did);
                v.push((
                    "params",
                    J::Arr(generics.own_params.iter().map(|p| {
                        J::Obj(vec![("name", s(p.name.to_string())), ("kind", s(match p.kind {
                            ty::GenericParamDefKind::Lifetime => "lifetime",
                            ty::GenericParamDefKind::Type { .. } => "type",
                            ty::GenericParamDefKind::Const { .. } => "const",
                        }))])
                    }).collect()),
                ));
                out.push(J::Obj(v));
            }
        }
        J::Arr(out)
    }
}

struct Callbacks {
    out_dir: String,
}

impl rustc_driver::Callbacks for Callbacks {
    fn after_analysis<'tcx>(&mut self, _c: &rustc_interface::interface::Compiler, tcx: TyCtxt<'tcx>) -> Compilation {
        let cx = Cx { tcx };
        let crate_name = tcx.crate_name(LOCAL_CRATE).to_string();
        let mut bodies = Vec::new();
        let mut n_fn = 0usize;
        for ldid in tcx.hir_body_owners() {
            let def_id = ldid.to_def_id();
            match tcx.def_kind(def_id) {
                DefKind::Fn | DefKind::AssocFn | DefKind::Closure => {
                    n_fn += 1;
                    let body = tcx.optimized_mir(def_id);
                    bodies.push(cx.body(def_id, body));
                }
                DefKind::Const { .. } | DefKind::AssocConst { .. } | DefKind::Static { .. } | DefKind::AnonConst | DefKind::InlineConst => {
                    // constants: record MIR for CTFE (gives us e.g. the value of IS_OPTION / DOCS)
                    let res = std::panic::catch_unwind(std::panic::AssertUnwindSafe(|| tcx.mir_for_ctfe(def_id)));
                    if let Ok(body) = res {
                        bodies.push(cx.body(def_id, body));
                    }
                }
                _ => {}
            }
        }
        let root = J::Obj(vec![
            ("crate", s(crate_name.clone())),
            ("n_fn_bodies", J::Num(n_fn as i128)),
            ("impls", cx.impls()),
            ("bodies", J::Arr(bodies)),
        ]);
        let mut out = String::new();
        root.write(&mut out);
        let path = format!("{}/{}-{}.json", self.out_dir, crate_name, std::process::id());
        std::fs::write(&path, out).expect("mirfacts: cannot write fact file");
        Compilation::Continue
    }
}

struct NoCallbacks;
impl rustc_driver::Callbacks for NoCallbacks {}

fn main() {
    let mut args: Vec<String> = std::env::args().collect();
    // RUSTC_WORKSPACE_WRAPPER convention: argv[1] is the path of the real rustc.
    if args.len() > 1 && (args[1].ends_with("rustc") || args[1].contains("/rustc")) {
        args.remove(1);
    }
    let out_dir = std::env::var("MIRFACTS_OUT").ok();
    let is_probe = args.iter().any(|a| a == "___" || a.starts_with("--print"))
        || args.iter().any(|a| a == "build_script_build" || a == "build_script_main");
    let only: Option<Vec<String>> =
        std::env::var("MIRFACTS_CRATES").ok().map(|v| v.split(',').map(|x| x.to_string()).collect());
    let crate_name = args
        .iter()
        .position(|a| a == "--crate-name")
        .and_then(|i| args.get(i + 1))
        .cloned()
        .unwrap_or_default();
    let wanted = only.map(|o| o.iter().any(|c| *c == crate_name)).unwrap_or(true);
    match out_dir {
        Some(dir) if !is_probe && wanted => {
            let mut cb = Callbacks { out_dir: dir };
            rustc_driver::run_compiler(&args, &mut cb);
        }
        _ => {
            rustc_driver::run_compiler(&args, &mut NoCallbacks);
        }
    }
}
