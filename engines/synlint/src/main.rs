//! synlint — syntax-tree fact extractor (Engine A).
//!
//! Parses every `.rs` file under the given roots with `syn` and writes one JSON document with,
//! per function body, a source-ordered list of *events* (macro invocations with their token trees,
//! calls, method calls, lets, matches, struct literals, returns, `?`, index expressions …), each
//! carrying the chain of enclosing conditions (`if`/`match` arm/closure/loop/argument position).
//! Item-level macro invocations (`impl_parse!`, `impl_primitives!`, `impl_wrapper!`, …) are
//! recorded with their `#[cfg]` attributes; `impl_parse!` tables are parsed into arms whose
//! expressions are walked like function bodies.  No rule lives here: rules are in /verif/rules.
//!
//! usage: synlint <repo-root> <out.json> <rel-dir>...

use std::fmt::Write as _;
use std::path::{Path, PathBuf};

use proc_macro2::{Delimiter, TokenStream, TokenTree};
use quote::ToTokens;
use syn::parse::{Parse, ParseStream};
use syn::spanned::Spanned;
use syn::visit::{self, Visit};

// ---------------------------------------------------------------- tiny JSON

#[derive(Clone)]
enum J {
    Null,
    Bool(bool),
    Num(i64),
    Str(String),
    Arr(Vec<J>),
    Obj(Vec<(String, J)>),
}

fn esc(s: &str, out: &mut String) {
    out.push('"');
    for c in s.chars() {
        match c {
            '"' => out.push_str("\\\""),
            '\\' => out.push_str("\\\\"),
            '\n' => out.push_str("\\n"),
            '\r' => out.push_str("\\r"),
            '\t' => out.push_str("\\t"),
            c if (c as u32) < 0x20 => {
                let _ = write!(out, "\\u{:04x}", c as u32);
            }
            c => out.push(c),
        }
    }
    out.push('"');
}

impl J {
    fn write(&self, out: &mut String) {
        match self {
            J::Null => out.push_str("null"),
            J::Bool(b) => out.push_str(if *b { "true" } else { "false" }),
            J::Num(n) => {
                let _ = write!(out, "{n}");
            }
            J::Str(s) => esc(s, out),
            J::Arr(v) => {
                out.push('[');
                for (i, x) in v.iter().enumerate() {
                    if i > 0 {
                        out.push(',');
                    }
                    x.write(out);
                }
                out.push(']');
            }
            J::Obj(v) => {
                out.push('{');
                for (i, (k, x)) in v.iter().enumerate() {
                    if i > 0 {
                        out.push(',');
                    }
                    esc(k, out);
                    out.push(':');
                    x.write(out);
                }
                out.push('}');
            }
        }
    }
}

fn s(x: impl Into<String>) -> J {
    J::Str(x.into())
}
fn obj(v: Vec<(&str, J)>) -> J {
    J::Obj(v.into_iter().map(|(k, x)| (k.to_string(), x)).collect())
}
fn ts(x: &impl ToTokens) -> String {
    x.to_token_stream().to_string()
}
fn jts(x: &impl ToTokens) -> J {
    s(ts(x))
}

/// split a run of joint punctuation into Rust operators (greedy), e.g. ">::" -> [">", "::"], ">:" -> [">", ":"]
fn split_punct(p: &str, out: &mut Vec<J>) {
    const OPS: &[&str] = &["..=", "...", "<<=", ">>=", "::", "=>", "->", "==", "!=", "<=", ">=", "&&", "||", "..", "+=", "-=", "*=", "/=", "|=", "&=", "^=", "%="];
    let mut rest = p;
    while !rest.is_empty() {
        // `<`/`>` are always split off so that generic brackets stay single tokens
        let mut taken = None;
        if !(rest.starts_with('<') || rest.starts_with('>')) {
            for op in OPS {
                if rest.starts_with(op) {
                    taken = Some(op.len());
                    break;
                }
            }
        }
        let n = taken.unwrap_or_else(|| rest.chars().next().unwrap().len_utf8());
        out.push(s(&rest[..n]));
        rest = &rest[n..];
    }
}

/// token tree → nested JSON: idents/puncts/literals as strings, groups as {"d": "(", "ts": [...]}
fn tokens_json(t: TokenStream) -> J {
    let mut out = Vec::new();
    let mut pending_punct = String::new();
    for tt in t {
        match tt {
            TokenTree::Punct(p) => {
                pending_punct.push(p.as_char());
                if p.spacing() == proc_macro2::Spacing::Alone {
                    split_punct(&std::mem::take(&mut pending_punct), &mut out);
                }
            }
            other => {
                if !pending_punct.is_empty() {
                    split_punct(&std::mem::take(&mut pending_punct), &mut out);
                }
                match other {
                    TokenTree::Group(g) => {
                        let d = match g.delimiter() {
                            Delimiter::Parenthesis => "(",
                            Delimiter::Brace => "{",
                            Delimiter::Bracket => "[",
                            Delimiter::None => "",
                        };
                        out.push(obj(vec![("d", s(d)), ("ts", tokens_json(g.stream()))]));
                    }
                    TokenTree::Ident(i) => out.push(s(i.to_string())),
                    TokenTree::Literal(l) => out.push(s(l.to_string())),
                    TokenTree::Punct(_) => unreachable!(),
                }
            }
        }
    }
    if !pending_punct.is_empty() {
        split_punct(&pending_punct, &mut out);
    }
    J::Arr(out)
}

// ---------------------------------------------------------------- visitor

struct FnRec {
    name: String,
    qual: String,
    line: usize,
    end_line: usize,
    impl_self: Option<String>,
    impl_trait: Option<String>,
    impl_generics: Option<String>,
    sig: String,
    params: Vec<J>,
    events: Vec<J>,
    kind: &'static str,
}

struct V {
    file: String,
    module: Vec<String>,
    fns: Vec<FnRec>,
    stack: Vec<usize>, // indices into fns: current function nesting
    ctx: Vec<J>,
    impl_ctx: Vec<(String, Option<String>, String)>,
    item_macros: Vec<J>,
    items: Vec<J>,
    next_id: i64,
    pending_cfg: Vec<String>,
}

fn line_of(sp: proc_macro2::Span) -> (usize, usize) {
    let st = sp.start();
    (st.line, st.column)
}

impl V {
    fn emit(&mut self, kind: &str, sp: proc_macro2::Span, mut fields: Vec<(&str, J)>) {
        let Some(&cur) = self.stack.last() else { return };
        let (line, col) = line_of(sp);
        let seq = self.fns[cur].events.len() as i64;
        let mut v = vec![
            ("kind", s(kind)),
            ("seq", J::Num(seq)),
            ("line", J::Num(line as i64)),
            ("col", J::Num(col as i64)),
            ("ctx", J::Arr(self.ctx.clone())),
        ];
        v.append(&mut fields);
        self.fns[cur].events.push(obj(v));
    }

    fn fresh(&mut self) -> i64 {
        self.next_id += 1;
        self.next_id
    }

    fn begin_fn(
        &mut self,
        name: String,
        sp: proc_macro2::Span,
        sig: String,
        params: Vec<J>,
        kind: &'static str,
    ) {
        let (line, _) = line_of(sp);
        let end_line = sp.end().line;
        let mut qual = self.module.join("::");
        if let Some(&cur) = self.stack.last() {
            qual = self.fns[cur].qual.clone();
        } else if let Some((self_ty, tr, _)) = self.impl_ctx.last() {
            if !qual.is_empty() {
                qual.push_str("::");
            }
            match tr {
                Some(t) => {
                    let _ = write!(qual, "<{self_ty} as {t}>");
                }
                None => qual.push_str(self_ty),
            }
        }
        if !qual.is_empty() {
            qual.push_str("::");
        }
        qual.push_str(&name);
        let (impl_self, impl_trait, impl_generics) = match (self.stack.is_empty(), self.impl_ctx.last()) {
            (true, Some((a, b, c))) => (Some(a.clone()), b.clone(), Some(c.clone())),
            _ => (None, None, None),
        };
        self.fns.push(FnRec {
            name,
            qual,
            line,
            end_line,
            impl_self,
            impl_trait,
            impl_generics,
            sig,
            params,
            events: Vec::new(),
            kind,
        });
        self.stack.push(self.fns.len() - 1);
    }

    fn end_fn(&mut self) {
        self.stack.pop();
    }

    fn with_ctx<F: FnOnce(&mut Self)>(&mut self, c: J, f: F) {
        self.ctx.push(c);
        f(self);
        self.ctx.pop();
    }

    fn cfgs(attrs: &[syn::Attribute]) -> Vec<String> {
        attrs
            .iter()
            .filter(|a| a.path().is_ident("cfg"))
            .map(|a| ts(&a.meta))
            .collect()
    }

    fn handle_macro(&mut self, mac: &syn::Macro, attrs: &[syn::Attribute]) {
        let name = ts(&mac.path).replace(' ', "");
        let id = self.fresh();
        let fields = vec![
            ("name", s(name.clone())),
            ("id", J::Num(id)),
            ("tokens", tokens_json(mac.tokens.clone())),
            ("text", s(mac.tokens.to_string())),
            ("cfg", J::Arr(Self::cfgs(attrs).into_iter().map(s).collect())),
        ];
        self.emit("macro", mac.span(), fields);
        // For macros whose arguments are ordinary expressions, walk the arguments too so that
        // nested calls / nested macros (e.g. `vec![quote!(..)]`, `format!("..", f(x))`) are seen.
        let last = name.rsplit("::").next().unwrap_or("").to_string();
        const EXPR_LIST: &[&str] = &[
            "format", "vec", "write", "writeln", "println", "eprintln", "print", "eprint", "panic", "assert",
            "assert_eq", "assert_ne", "debug_assert", "unreachable", "todo", "unimplemented", "syn_err",
            "syn_err_spanned", "format_ident", "matches", "dbg", "format_args", "format_args_nl", "const_format_args",
        ];
        if EXPR_LIST.contains(&last.as_str()) {
            struct Args(Vec<syn::Expr>);
            impl Parse for Args {
                fn parse(input: ParseStream) -> syn::Result<Self> {
                    let mut v = Vec::new();
                    while !input.is_empty() {
                        // syn_err!(span; "lit", args) uses `;`
                        if let Ok(e) = input.parse::<syn::Expr>() {
                            v.push(e);
                        } else {
                            let _ = input.parse::<TokenTree>();
                        }
                        if input.peek(syn::Token![,]) {
                            let _ = input.parse::<syn::Token![,]>();
                        } else if input.peek(syn::Token![;]) {
                            let _ = input.parse::<syn::Token![;]>();
                        } else if input.peek(syn::Token![=>]) {
                            let _ = input.parse::<syn::Token![=>]>();
                        }
                    }
                    Ok(Args(v))
                }
            }
            if let Ok(args) = syn::parse2::<Args>(mac.tokens.clone()) {
                for (i, e) in args.0.iter().enumerate() {
                    let c = obj(vec![("k", s("macro_arg")), ("of", s(name.clone())), ("idx", J::Num(i as i64)), ("id", J::Num(id))]);
                    self.with_ctx(c, |v| v.visit_expr(e));
                }
            }
        }
    }
}

struct ParseTable {
    name: String,
    input: String,
    out: String,
    arms: Vec<(syn::Pat, syn::Expr)>,
}

impl Parse for ParseTable {
    fn parse(input: ParseStream) -> syn::Result<Self> {
        let ty: syn::Type = input.parse()?;
        // `StructAttr(input, out)` parses as a Type::Path with parenthesized args? no — parse manually
        let _ = ty;
        Err(input.error("unused"))
    }
}

fn parse_impl_parse(tokens: TokenStream) -> Option<ParseTable> {
    struct P(ParseTable);
    impl Parse for P {
        fn parse(input: ParseStream) -> syn::Result<Self> {
            let id: syn::Ident = input.parse()?;
            let mut name = id.to_string();
            if input.peek(syn::Token![<]) {
                input.parse::<syn::Token![<]>()?;
                let inner: syn::Ident = input.parse()?;
                input.parse::<syn::Token![>]>()?;
                name = format!("{name}<{inner}>");
            }
            let args;
            syn::parenthesized!(args in input);
            let a: syn::Ident = args.parse()?;
            args.parse::<syn::Token![,]>()?;
            let b: syn::Ident = args.parse()?;
            let body;
            syn::braced!(body in input);
            let mut arms = Vec::new();
            while !body.is_empty() {
                let pat = syn::Pat::parse_multi_with_leading_vert(&body)?;
                body.parse::<syn::Token![=>]>()?;
                let e: syn::Expr = body.parse()?;
                arms.push((pat, e));
                if body.peek(syn::Token![,]) {
                    body.parse::<syn::Token![,]>()?;
                }
            }
            Ok(P(ParseTable { name, input: a.to_string(), out: b.to_string(), arms }))
        }
    }
    syn::parse2::<P>(tokens).ok().map(|p| p.0)
}

impl<'ast> Visit<'ast> for V {
    fn visit_item_mod(&mut self, i: &'ast syn::ItemMod) {
        self.module.push(i.ident.to_string());
        visit::visit_item_mod(self, i);
        self.module.pop();
    }

    fn visit_item_impl(&mut self, i: &'ast syn::ItemImpl) {
        let self_ty = ts(&*i.self_ty);
        let tr = i.trait_.as_ref().map(|(_, p, _)| ts(p));
        let generics = ts(&i.generics);
        let (line, _) = line_of(i.span());
        self.items.push(obj(vec![
            ("kind", s("impl")),
            ("self_ty", s(self_ty.clone())),
            ("trait", tr.clone().map(s).unwrap_or(J::Null)),
            ("generics", s(generics.clone())),
            ("where", i.generics.where_clause.as_ref().map(jts).unwrap_or(J::Null)),
            ("line", J::Num(line as i64)),
            ("module", s(self.module.join("::"))),
            ("cfg", J::Arr(Self::cfgs(&i.attrs).into_iter().map(s).collect())),
            (
                "assoc",
                J::Arr(
                    i.items
                        .iter()
                        .filter_map(|it| match it {
                            syn::ImplItem::Type(t) => Some(obj(vec![("k", s("type")), ("name", s(t.ident.to_string())), ("value", jts(&t.ty))])),
                            syn::ImplItem::Const(c) => Some(obj(vec![("k", s("const")), ("name", s(c.ident.to_string())), ("value", jts(&c.expr))])),
                            syn::ImplItem::Fn(f) => Some(obj(vec![("k", s("fn")), ("name", s(f.sig.ident.to_string()))])),
                            _ => None,
                        })
                        .collect(),
                ),
            ),
        ]));
        self.impl_ctx.push((self_ty, tr, generics));
        visit::visit_item_impl(self, i);
        self.impl_ctx.pop();
    }

    fn visit_item_trait(&mut self, i: &'ast syn::ItemTrait) {
        self.impl_ctx.push((format!("trait {}", i.ident), None, ts(&i.generics)));
        visit::visit_item_trait(self, i);
        self.impl_ctx.pop();
    }

    fn visit_trait_item_fn(&mut self, i: &'ast syn::TraitItemFn) {
        if i.default.is_none() {
            return;
        }
        let params = sig_params(&i.sig);
        self.begin_fn(i.sig.ident.to_string(), i.span(), ts(&i.sig), params, "trait_default");
        let saved = std::mem::take(&mut self.ctx);
        visit::visit_trait_item_fn(self, i);
        self.ctx = saved;
        self.end_fn();
    }

    fn visit_item_fn(&mut self, i: &'ast syn::ItemFn) {
        let params = sig_params(&i.sig);
        // nested fn items get their own record; impl context does not apply to them
        let saved_impl = if self.stack.is_empty() { None } else { Some(std::mem::take(&mut self.impl_ctx)) };
        self.begin_fn(i.sig.ident.to_string(), i.span(), ts(&i.sig), params, "fn");
        let saved = std::mem::take(&mut self.ctx);
        visit::visit_item_fn(self, i);
        self.ctx = saved;
        self.end_fn();
        if let Some(si) = saved_impl {
            self.impl_ctx = si;
        }
    }

    fn visit_impl_item_fn(&mut self, i: &'ast syn::ImplItemFn) {
        let params = sig_params(&i.sig);
        let outer = if self.stack.is_empty() { None } else { Some(std::mem::take(&mut self.stack)) };
        self.begin_fn(i.sig.ident.to_string(), i.span(), ts(&i.sig), params, "method");
        let saved = std::mem::take(&mut self.ctx);
        visit::visit_impl_item_fn(self, i);
        self.ctx = saved;
        self.end_fn();
        if let Some(o) = outer {
            self.stack = o;
        }
    }

    fn visit_item_const(&mut self, i: &'ast syn::ItemConst) {
        let (line, _) = line_of(i.span());
        self.items.push(obj(vec![
            ("kind", s("const")),
            ("name", s(i.ident.to_string())),
            ("ty", jts(&*i.ty)),
            ("value", jts(&*i.expr)),
            ("line", J::Num(line as i64)),
            ("module", s(self.module.join("::"))),
        ]));
        visit::visit_item_const(self, i);
    }

    fn visit_item_static(&mut self, i: &'ast syn::ItemStatic) {
        let (line, _) = line_of(i.span());
        self.items.push(obj(vec![
            ("kind", s("static")),
            ("name", s(i.ident.to_string())),
            ("ty", jts(&*i.ty)),
            ("value", jts(&*i.expr)),
            ("line", J::Num(line as i64)),
            ("module", s(self.module.join("::"))),
        ]));
        visit::visit_item_static(self, i);
    }

    fn visit_item_struct(&mut self, i: &'ast syn::ItemStruct) {
        let (line, _) = line_of(i.span());
        let fields: Vec<J> = i
            .fields
            .iter()
            .enumerate()
            .map(|(n, f)| {
                obj(vec![
                    ("name", s(f.ident.as_ref().map(|x| x.to_string()).unwrap_or_else(|| n.to_string()))),
                    ("ty", jts(&f.ty)),
                    ("vis", jts(&f.vis)),
                ])
            })
            .collect();
        self.items.push(obj(vec![
            ("kind", s("struct")),
            ("name", s(i.ident.to_string())),
            ("fields", J::Arr(fields)),
            ("line", J::Num(line as i64)),
            ("module", s(self.module.join("::"))),
        ]));
        visit::visit_item_struct(self, i);
    }

    fn visit_item_macro(&mut self, i: &'ast syn::ItemMacro) {
        let name = ts(&i.mac.path).replace(' ', "");
        let (line, _) = line_of(i.span());
        let cfg = Self::cfgs(&i.attrs);
        let mut rec = vec![
            ("name", s(name.clone())),
            ("ident", i.ident.as_ref().map(|x| s(x.to_string())).unwrap_or(J::Null)),
            ("line", J::Num(line as i64)),
            ("module", s(self.module.join("::"))),
            ("cfg", J::Arr(cfg.iter().cloned().map(s).collect())),
            ("tokens", tokens_json(i.mac.tokens.clone())),
            ("text", s(i.mac.tokens.to_string())),
        ];
        if !self.stack.is_empty() {
            // macro in statement position inside a fn is handled by visit_stmt_macro; item macro
            // inside fn bodies (rare) – still record
        }
        if name == "impl_parse" {
            if let Some(tbl) = parse_impl_parse(i.mac.tokens.clone()) {
                let mut arms = Vec::new();
                for (idx, (pat, expr)) in tbl.arms.iter().enumerate() {
                    // walk the arm expression as a pseudo function
                    let keys = pat_keys(pat);
                    let fname = format!("impl_parse!{{{}}}[{}]", tbl.name, keys.join("|"));
                    let saved_stack = std::mem::take(&mut self.stack);
                    let saved_ctx = std::mem::take(&mut self.ctx);
                    let saved_impl = std::mem::take(&mut self.impl_ctx);
                    self.begin_fn(fname.clone(), expr.span(), String::new(), vec![], "parse_arm");
                    self.visit_expr(expr);
                    let idx_fn = *self.stack.last().unwrap();
                    self.end_fn();
                    self.stack = saved_stack;
                    self.ctx = saved_ctx;
                    self.impl_ctx = saved_impl;
                    arms.push(obj(vec![
                        ("idx", J::Num(idx as i64)),
                        ("keys", J::Arr(keys.into_iter().map(s).collect())),
                        ("pat", jts(pat)),
                        ("expr", jts(expr)),
                        ("line", J::Num(line_of(expr.span()).0 as i64)),
                        ("fn", s(self.fns[idx_fn].qual.clone())),
                    ]));
                }
                rec.push((
                    "table",
                    obj(vec![
                        ("name", s(tbl.name)),
                        ("input", s(tbl.input)),
                        ("out", s(tbl.out)),
                        ("arms", J::Arr(arms)),
                    ]),
                ));
            } else {
                rec.push(("table", J::Null));
            }
        }
        self.item_macros.push(obj(rec));
    }

    fn visit_stmt_macro(&mut self, i: &'ast syn::StmtMacro) {
        self.handle_macro(&i.mac, &i.attrs);
    }

    fn visit_expr_macro(&mut self, i: &'ast syn::ExprMacro) {
        self.handle_macro(&i.mac, &i.attrs);
    }

    fn visit_expr_method_call(&mut self, i: &'ast syn::ExprMethodCall) {
        let recv = ts(&*i.receiver);
        let id = self.fresh();
        self.emit(
            "mcall",
            i.method.span(),
            vec![
                ("recv", s(recv.clone())),
                ("method", s(i.method.to_string())),
                ("turbofish", i.turbofish.as_ref().map(jts).unwrap_or(J::Null)),
                ("args", J::Arr(i.args.iter().map(jts).collect())),
                ("id", J::Num(id)),
            ],
        );
        let of = format!("{}.{}", recv, i.method);
        let c = obj(vec![("k", s("recv")), ("of", s(of.clone())), ("id", J::Num(id))]);
        self.with_ctx(c, |v| v.visit_expr(&i.receiver));
        for (idx, a) in i.args.iter().enumerate() {
            let c = obj(vec![("k", s("arg")), ("of", s(of.clone())), ("idx", J::Num(idx as i64)), ("id", J::Num(id))]);
            self.with_ctx(c, |v| v.visit_expr(a));
        }
    }

    fn visit_expr_call(&mut self, i: &'ast syn::ExprCall) {
        let func = ts(&*i.func);
        let id = self.fresh();
        self.emit(
            "call",
            i.span(),
            vec![("func", s(func.clone())), ("args", J::Arr(i.args.iter().map(jts).collect())), ("id", J::Num(id))],
        );
        self.visit_expr(&i.func);
        for (idx, a) in i.args.iter().enumerate() {
            let c = obj(vec![("k", s("arg")), ("of", s(func.clone())), ("idx", J::Num(idx as i64)), ("id", J::Num(id))]);
            self.with_ctx(c, |v| v.visit_expr(a));
        }
    }

    fn visit_expr_if(&mut self, i: &'ast syn::ExprIf) {
        let cond = ts(&*i.cond);
        let id = self.fresh();
        self.emit("if", i.span(), vec![("cond", s(cond.clone())), ("id", J::Num(id)), ("has_else", J::Bool(i.else_branch.is_some()))]);
        let c = obj(vec![("k", s("cond")), ("id", J::Num(id))]);
        self.with_ctx(c, |v| v.visit_expr(&i.cond));
        let c = obj(vec![("k", s("if")), ("cond", s(cond.clone())), ("branch", s("then")), ("id", J::Num(id))]);
        self.with_ctx(c, |v| v.visit_block(&i.then_branch));
        if let Some((_, e)) = &i.else_branch {
            let c = obj(vec![("k", s("if")), ("cond", s(cond)), ("branch", s("else")), ("id", J::Num(id))]);
            self.with_ctx(c, |v| v.visit_expr(e));
        }
    }

    fn visit_expr_match(&mut self, i: &'ast syn::ExprMatch) {
        let scrut = ts(&*i.expr);
        let id = self.fresh();
        let arms: Vec<J> = i
            .arms
            .iter()
            .enumerate()
            .map(|(n, a)| {
                obj(vec![
                    ("idx", J::Num(n as i64)),
                    ("pat", jts(&a.pat)),
                    ("guard", a.guard.as_ref().map(|(_, g)| jts(&**g)).unwrap_or(J::Null)),
                    ("body", jts(&*a.body)),
                    ("line", J::Num(line_of(a.span()).0 as i64)),
                ])
            })
            .collect();
        self.emit("match", i.span(), vec![("scrut", s(scrut.clone())), ("id", J::Num(id)), ("arms", J::Arr(arms))]);
        let c = obj(vec![("k", s("scrut")), ("id", J::Num(id))]);
        self.with_ctx(c, |v| v.visit_expr(&i.expr));
        for (n, a) in i.arms.iter().enumerate() {
            let c = obj(vec![
                ("k", s("match")),
                ("scrut", s(scrut.clone())),
                ("pat", jts(&a.pat)),
                ("guard", a.guard.as_ref().map(|(_, g)| jts(&**g)).unwrap_or(J::Null)),
                ("arm", J::Num(n as i64)),
                ("id", J::Num(id)),
            ]);
            self.with_ctx(c, |v| {
                if let Some((_, g)) = &a.guard {
                    v.visit_expr(g);
                }
                v.visit_expr(&a.body)
            });
        }
    }

    fn visit_local(&mut self, i: &'ast syn::Local) {
        let pat = ts(&i.pat);
        let id = self.fresh();
        let (init, has_else) = match &i.init {
            Some(li) => (ts(&*li.expr), li.diverge.is_some()),
            None => (String::new(), false),
        };
        self.emit("let", i.span(), vec![("pat", s(pat.clone())), ("init", s(init)), ("has_else", J::Bool(has_else)), ("id", J::Num(id))]);
        if let Some(li) = &i.init {
            let c = obj(vec![("k", s("let")), ("pat", s(pat.clone())), ("id", J::Num(id))]);
            self.with_ctx(c, |v| v.visit_expr(&li.expr));
            if let Some((_, d)) = &li.diverge {
                let c = obj(vec![("k", s("let_else")), ("pat", s(pat)), ("id", J::Num(id))]);
                self.with_ctx(c, |v| v.visit_expr(d));
            }
        }
    }

    fn visit_expr_struct(&mut self, i: &'ast syn::ExprStruct) {
        let fields: Vec<J> = i
            .fields
            .iter()
            .map(|f| obj(vec![("name", jts(&f.member)), ("value", jts(&f.expr)), ("line", J::Num(line_of(f.span()).0 as i64))]))
            .collect();
        let id = self.fresh();
        self.emit(
            "struct",
            i.span(),
            vec![
                ("path", jts(&i.path)),
                ("fields", J::Arr(fields)),
                ("rest", i.rest.as_ref().map(|r| jts(&**r)).unwrap_or(J::Null)),
                ("id", J::Num(id)),
            ],
        );
        for f in &i.fields {
            let c = obj(vec![("k", s("field_init")), ("of", jts(&i.path)), ("field", jts(&f.member)), ("id", J::Num(id))]);
            self.with_ctx(c, |v| v.visit_expr(&f.expr));
        }
        if let Some(r) = &i.rest {
            self.visit_expr(r);
        }
    }

    fn visit_expr_return(&mut self, i: &'ast syn::ExprReturn) {
        self.emit("return", i.span(), vec![("expr", i.expr.as_ref().map(|e| jts(&**e)).unwrap_or(J::Null))]);
        visit::visit_expr_return(self, i);
    }

    fn visit_expr_try(&mut self, i: &'ast syn::ExprTry) {
        self.emit("try", i.question_token.span(), vec![("expr", jts(&*i.expr))]);
        visit::visit_expr_try(self, i);
    }

    fn visit_expr_closure(&mut self, i: &'ast syn::ExprClosure) {
        let id = self.fresh();
        self.emit("closure", i.span(), vec![("inputs", J::Arr(i.inputs.iter().map(jts).collect())), ("id", J::Num(id))]);
        let c = obj(vec![("k", s("closure")), ("id", J::Num(id))]);
        self.with_ctx(c, |v| v.visit_expr(&i.body));
    }

    fn visit_expr_for_loop(&mut self, i: &'ast syn::ExprForLoop) {
        let id = self.fresh();
        self.emit("for", i.span(), vec![("pat", jts(&*i.pat)), ("expr", jts(&*i.expr)), ("id", J::Num(id))]);
        self.visit_expr(&i.expr);
        let c = obj(vec![("k", s("for")), ("pat", jts(&*i.pat)), ("expr", jts(&*i.expr)), ("id", J::Num(id))]);
        self.with_ctx(c, |v| v.visit_block(&i.body));
    }

    fn visit_expr_while(&mut self, i: &'ast syn::ExprWhile) {
        let id = self.fresh();
        self.emit("while", i.span(), vec![("cond", jts(&*i.cond)), ("id", J::Num(id))]);
        self.visit_expr(&i.cond);
        let c = obj(vec![("k", s("while")), ("cond", jts(&*i.cond)), ("id", J::Num(id))]);
        self.with_ctx(c, |v| v.visit_block(&i.body));
    }

    fn visit_expr_loop(&mut self, i: &'ast syn::ExprLoop) {
        let id = self.fresh();
        self.emit("loop", i.span(), vec![("id", J::Num(id))]);
        let c = obj(vec![("k", s("loop")), ("id", J::Num(id))]);
        self.with_ctx(c, |v| v.visit_block(&i.body));
    }

    fn visit_expr_index(&mut self, i: &'ast syn::ExprIndex) {
        self.emit("index", i.span(), vec![("expr", jts(&*i.expr)), ("index", jts(&*i.index))]);
        visit::visit_expr_index(self, i);
    }

    fn visit_expr_assign(&mut self, i: &'ast syn::ExprAssign) {
        self.emit("assign", i.span(), vec![("lhs", jts(&*i.left)), ("rhs", jts(&*i.right))]);
        let c = obj(vec![("k", s("assign_rhs")), ("lhs", jts(&*i.left))]);
        self.visit_expr(&i.left);
        self.with_ctx(c, |v| v.visit_expr(&i.right));
    }

    fn visit_expr_field(&mut self, i: &'ast syn::ExprField) {
        self.emit("field", i.span(), vec![("base", jts(&*i.base)), ("member", jts(&i.member))]);
        visit::visit_expr_field(self, i);
    }

    fn visit_expr_path(&mut self, i: &'ast syn::ExprPath) {
        // record bare path uses (variables, constants, fn items passed as values)
        self.emit("path", i.span(), vec![("path", jts(&i.path))]);
        visit::visit_expr_path(self, i);
    }

    fn visit_expr_lit(&mut self, i: &'ast syn::ExprLit) {
        if let syn::Lit::Str(l) = &i.lit {
            self.emit("strlit", i.span(), vec![("value", s(l.value()))]);
        }
    }

    fn visit_expr_binary(&mut self, i: &'ast syn::ExprBinary) {
        self.emit("binary", i.span(), vec![("op", jts(&i.op)), ("lhs", jts(&*i.left)), ("rhs", jts(&*i.right))]);
        visit::visit_expr_binary(self, i);
    }

    fn visit_expr_unary(&mut self, i: &'ast syn::ExprUnary) {
        self.emit("unary", i.span(), vec![("op", jts(&i.op)), ("expr", jts(&*i.expr))]);
        visit::visit_expr_unary(self, i);
    }
}

fn pat_keys(p: &syn::Pat) -> Vec<String> {
    match p {
        syn::Pat::Lit(l) => match &l.lit {
            syn::Lit::Str(sl) => vec![sl.value()],
            other => vec![ts(other)],
        },
        syn::Pat::Or(o) => o.cases.iter().flat_map(pat_keys).collect(),
        other => vec![ts(other)],
    }
}

fn sig_params(sig: &syn::Signature) -> Vec<J> {
    sig.inputs
        .iter()
        .map(|a| match a {
            syn::FnArg::Receiver(r) => obj(vec![("name", s("self")), ("ty", jts(r))]),
            syn::FnArg::Typed(t) => obj(vec![("name", jts(&*t.pat)), ("ty", jts(&*t.ty))]),
        })
        .collect()
}

fn walk(dir: &Path, out: &mut Vec<PathBuf>) {
    let Ok(rd) = std::fs::read_dir(dir) else { return };
    let mut entries: Vec<_> = rd.filter_map(|e| e.ok()).map(|e| e.path()).collect();
    entries.sort();
    for p in entries {
        if p.is_dir() {
            walk(&p, out);
        } else if p.extension().map(|e| e == "rs").unwrap_or(false) {
            out.push(p);
        }
    }
}

fn module_path(rel: &str) -> Vec<String> {
    // macros/src/attr/field.rs -> ["attr","field"]; src/lib.rs -> []
    let idx = rel.find("src/").map(|i| i + 4).unwrap_or(0);
    let tail = &rel[idx..];
    let tail = tail.trim_end_matches(".rs");
    let mut parts: Vec<String> = tail.split('/').map(|x| x.to_string()).collect();
    if let Some(last) = parts.last() {
        if last == "lib" || last == "mod" || last == "main" {
            parts.pop();
        }
    }
    parts
}

fn main() {
    let args: Vec<String> = std::env::args().collect();
    if args.len() < 4 {
        eprintln!("usage: synlint <repo-root> <out.json> <rel-dir>...");
        std::process::exit(2);
    }
    let root = PathBuf::from(&args[1]);
    let out_path = &args[2];
    let mut files = Vec::new();
    for rel in &args[3..] {
        let p = root.join(rel);
        if p.is_file() {
            files.push(p);
        } else {
            walk(&p, &mut files);
        }
    }
    let mut jfiles = Vec::new();
    let mut errors = Vec::new();
    for f in files {
        let rel = f.strip_prefix(&root).unwrap_or(&f).to_string_lossy().to_string();
        let src = match std::fs::read_to_string(&f) {
            Ok(x) => x,
            Err(e) => {
                errors.push(s(format!("{rel}: {e}")));
                continue;
            }
        };
        let ast = match syn::parse_file(&src) {
            Ok(a) => a,
            Err(e) => {
                errors.push(s(format!("{rel}: parse error: {e}")));
                continue;
            }
        };
        let mut v = V {
            file: rel.clone(),
            module: module_path(&rel),
            fns: Vec::new(),
            stack: Vec::new(),
            ctx: Vec::new(),
            impl_ctx: Vec::new(),
            item_macros: Vec::new(),
            items: Vec::new(),
            next_id: 0,
            pending_cfg: Vec::new(),
        };
        v.visit_file(&ast);
        let _ = (&v.file, &v.pending_cfg);
        let fns: Vec<J> = v
            .fns
            .into_iter()
            .map(|f| {
                obj(vec![
                    ("name", s(f.name)),
                    ("qual", s(f.qual)),
                    ("kind", s(f.kind)),
                    ("line", J::Num(f.line as i64)),
                    ("end_line", J::Num(f.end_line as i64)),
                    ("impl_self", f.impl_self.map(s).unwrap_or(J::Null)),
                    ("impl_trait", f.impl_trait.map(s).unwrap_or(J::Null)),
                    ("impl_generics", f.impl_generics.map(s).unwrap_or(J::Null)),
                    ("sig", s(f.sig)),
                    ("params", J::Arr(f.params)),
                    ("events", J::Arr(f.events)),
                ])
            })
            .collect();
        jfiles.push(obj(vec![
            ("path", s(rel)),
            ("lines", J::Num(src.lines().count() as i64)),
            ("fns", J::Arr(fns)),
            ("item_macros", J::Arr(v.item_macros)),
            ("items", J::Arr(v.items)),
        ]));
    }
    let root_j = obj(vec![("files", J::Arr(jfiles)), ("errors", J::Arr(errors))]);
    let mut out = String::new();
    root_j.write(&mut out);
    std::fs::write(out_path, out).expect("cannot write output");
}
