"""Shared infrastructure: repo digest, fact extraction (engines A and B), caching, findings,
known-findings matching, evidence and replay files.  Python stdlib only."""
import fcntl
import hashlib
import json
import os
import shutil
import subprocess
import sys
import tempfile
import time

VERIF = os.path.dirname(os.path.dirname(os.path.abspath(__file__)))
REPO = os.environ.get("VERIF_REPO", "/repo")
CACHE = os.environ.get("VERIF_CACHE", os.path.join(VERIF, ".cache"))
SYNLINT = os.path.join(VERIF, "engines/synlint/target/release/synlint")
MIRFACTS = os.path.join(VERIF, "engines/mirfacts/target/release/mirfacts")

FEATURESETS = {
    # name -> cargo arguments
    "default": ["-p", "ts-rs", "-p", "ts-rs-macros"],
    "nodefault": ["-p", "ts-rs", "-p", "ts-rs-macros", "--no-default-features"],
    "nodefault_macros": ["-p", "ts-rs-macros", "--no-default-features"],       # the derive alone, serde-compat off (used by quick checks)
    "nowarn": ["-p", "ts-rs", "-p", "ts-rs-macros", "--features", "ts-rs/no-serde-warnings,ts-rs/import-esm"],
    "format": ["-p", "ts-rs", "-p", "ts-rs-macros", "--features", "ts-rs/format"],
    "allimpl": ["-p", "ts-rs", "-p", "ts-rs-macros", "--features",
                "ts-rs/chrono-impl,ts-rs/bigdecimal-impl,ts-rs/uuid-impl,ts-rs/bson-uuid-impl,ts-rs/bytes-impl,"
                "ts-rs/url-impl,ts-rs/indexmap-impl,ts-rs/ordered-float-impl,ts-rs/heapless-impl,ts-rs/semver-impl,"
                "ts-rs/smol_str-impl,ts-rs/serde-json-impl,ts-rs/tokio-impl,ts-rs/format"],
}


class InfraError(Exception):
    pass


def log(*a):
    print(*a, file=sys.stderr, flush=True)


def sh(cmd, **kw):
    return subprocess.run(cmd, stdout=subprocess.PIPE, stderr=subprocess.PIPE, text=True, **kw)


def nightly_sysroot():
    r = sh(["rustc", "+nightly", "--print", "sysroot"])
    if r.returncode != 0:
        raise InfraError("nightly toolchain not available: " + r.stderr)
    return r.stdout.strip()


# ------------------------------------------------------------------ digest / cache

def _repo_files(repo):
    r = sh(["git", "-C", repo, "ls-files", "-co", "--exclude-standard"])
    if r.returncode == 0 and r.stdout.strip():
        files = sorted(set(r.stdout.split("\n")) - {""})
    else:
        files = []
        for root, dirs, fs in os.walk(repo):
            dirs[:] = [d for d in dirs if d not in (".git", "target", "bindings")]
            for f in fs:
                files.append(os.path.relpath(os.path.join(root, f), repo))
        files.sort()
    return [f for f in files if f.endswith((".rs", ".toml", ".lock")) and not f.startswith("target/")]


_digest_cache = {}


def repo_digest(repo=None):
    repo = repo or REPO
    if repo in _digest_cache:
        return _digest_cache[repo]
    h = hashlib.sha256()
    for f in _repo_files(repo):
        p = os.path.join(repo, f)
        try:
            with open(p, "rb") as fh:
                data = fh.read()
        except OSError:
            continue
        h.update(f.encode() + b"\0" + hashlib.sha256(data).digest())
    for eng in (SYNLINT, MIRFACTS):
        try:
            with open(eng, "rb") as fh:
                h.update(hashlib.sha256(fh.read()).digest())
        except OSError:
            h.update(b"missing")
    d = h.hexdigest()[:24]
    _digest_cache[repo] = d
    return d


def ensure_engines():
    if not os.path.exists(SYNLINT):
        log("[setup] building synlint")
        r = sh(["cargo", "build", "--release", "--offline"], cwd=os.path.join(VERIF, "engines/synlint"),
               env=dict(os.environ, CARGO_NET_OFFLINE="true"))
        if r.returncode != 0:
            raise InfraError("synlint build failed:\n" + r.stderr[-3000:])
    if not os.path.exists(MIRFACTS):
        log("[setup] building mirfacts")
        r = sh(["cargo", "+nightly", "build", "--release", "--offline"], cwd=os.path.join(VERIF, "engines/mirfacts"),
               env=dict(os.environ, CARGO_NET_OFFLINE="true"))
        if r.returncode != 0:
            raise InfraError("mirfacts build failed:\n" + r.stderr[-3000:])


class _Lock:
    def __init__(self, path):
        self.path = path

    def __enter__(self):
        os.makedirs(os.path.dirname(self.path), exist_ok=True)
        self.fh = open(self.path, "w")
        fcntl.flock(self.fh, fcntl.LOCK_EX)
        return self

    def __exit__(self, *a):
        fcntl.flock(self.fh, fcntl.LOCK_UN)
        self.fh.close()


def _cache_dir(repo):
    return os.path.join(CACHE, repo_digest(repo))


def _prune_cache(keep):
    try:
        ents = [os.path.join(CACHE, e) for e in os.listdir(CACHE)]
    except OSError:
        return
    ents = [e for e in ents if os.path.isdir(e) and e != keep]
    ents.sort(key=lambda p: os.path.getmtime(p))
    keep_n = int(os.environ.get("VERIF_CACHE_KEEP", "6") or 6)
    for e in ents[:-keep_n]:
        shutil.rmtree(e, ignore_errors=True)
        try:
            os.remove(e + ".lock")
        except OSError:
            pass


def get_syn(repo=None):
    """Engine A facts for the current working tree (cached by content digest)."""
    repo = repo or REPO
    ensure_engines()
    cd = _cache_dir(repo)
    out = os.path.join(cd, "syn.json")
    with _Lock(cd + ".lock"):
        if not os.path.exists(out):
            os.makedirs(cd, exist_ok=True)
            tmp = out + ".tmp"
            r = sh([SYNLINT, repo, tmp, "macros/src", "ts-rs/src"])
            if r.returncode != 0:
                raise InfraError("synlint failed: " + r.stderr[-2000:])
            os.replace(tmp, out)
            _prune_cache(cd)
    with open(out) as fh:
        d = json.load(fh)
    if d.get("errors"):
        raise InfraError("synlint could not parse: %s" % d["errors"])
    return d


def get_mir(featureset="default", repo=None):
    """Engine B facts: {crate_name: facts} for the given feature set (cached by content digest)."""
    repo = repo or REPO
    ensure_engines()
    cd = _cache_dir(repo)
    outdir = os.path.join(cd, "mir-" + featureset)
    done = os.path.join(outdir, "DONE")
    with _Lock(cd + ".lock"):
        if not os.path.exists(done):
            shutil.rmtree(outdir, ignore_errors=True)
            os.makedirs(outdir, exist_ok=True)
            tdir = tempfile.mkdtemp(prefix="verif-mir-")
            try:
                env = dict(os.environ)
                env.update({
                    "LD_LIBRARY_PATH": nightly_sysroot() + "/lib",
                    "RUSTFLAGS": "-Zmir-opt-level=0 -Awarnings",
                    "RUSTC_WORKSPACE_WRAPPER": MIRFACTS,
                    "MIRFACTS_OUT": outdir,
                    "MIRFACTS_CRATES": "ts_rs,ts_rs_macros",
                    "CARGO_TARGET_DIR": tdir,
                    "CARGO_NET_OFFLINE": "true",
                })
                t0 = time.time()
                r = sh(["cargo", "+nightly", "check", "--offline"] + FEATURESETS[featureset], cwd=repo, env=env)
                if r.returncode != 0:
                    raise InfraError("cargo check (%s) of %s failed:\n%s" % (featureset, repo, r.stderr[-4000:]))
                log("[mirfacts] %s extracted in %.1fs" % (featureset, time.time() - t0))
            finally:
                shutil.rmtree(tdir, ignore_errors=True)
            # keep one file per crate
            seen = {}
            for f in sorted(os.listdir(outdir)):
                if f.endswith(".json"):
                    crate = f.rsplit("-", 1)[0]
                    if crate in seen:
                        os.remove(os.path.join(outdir, f))
                    else:
                        seen[crate] = f
                        os.rename(os.path.join(outdir, f), os.path.join(outdir, crate + ".json"))
            for need in (("ts_rs_macros",) if featureset.endswith("_macros") else ("ts_rs", "ts_rs_macros")):
                if need not in seen:
                    raise InfraError("mirfacts produced no facts for crate %s" % need)
            open(done, "w").write("ok")
            _prune_cache(cd)
    res = {}
    for f in os.listdir(outdir):
        if f.endswith(".json"):
            with open(os.path.join(outdir, f)) as fh:
                res[f[:-5]] = json.load(fh)
    return res


# ------------------------------------------------------------------ findings

class Finding:
    def __init__(self, prop, rule, key, msg, file=None, line=None, extra=None):
        self.prop, self.rule, self.key, self.msg = prop, rule, key, msg
        self.file, self.line, self.extra = file, line, extra or {}

    def loc(self):
        if self.file:
            return "%s:%s" % (self.file, self.line or "?")
        return "-"

    def to_json(self):
        return {"property": self.prop, "rule": self.rule, "key": self.key, "message": self.msg,
                "file": self.file, "line": self.line, "extra": self.extra}


class Result:
    """What one rule reports: instances examined, findings, free-form stats."""

    def __init__(self, rule, desc):
        self.rule, self.desc = rule, desc
        self.instances = []   # list of dicts (samples for evidence)
        self.findings = []
        self.stats = {}
        self.floor = None

    def inst(self, **kw):
        self.instances.append(kw)

    def fail(self, prop, key, msg, file=None, line=None, **extra):
        self.findings.append(Finding(prop, self.rule, key, msg, file, line, extra))


def load_known():
    p = os.path.join(VERIF, "known_findings.json")
    if not os.path.exists(p):
        return {"findings": [], "fixed": []}
    with open(p) as fh:
        return json.load(fh)


def write_evidence(prop, tier, seed, results, wall, violations, known_hits, extra_cov=None, assumptions=None):
    evdir = os.environ.get("VERIF_EVIDENCE_DIR") or os.path.join(VERIF, "evidence")
    os.makedirs(evdir, exist_ok=True)
    n_inst = sum(len(r.instances) for r in results)
    n_find = sum(len(r.findings) for r in results)
    distinct = len({json.dumps(i, sort_keys=True) for r in results for i in r.instances})
    samples = []
    for r in results:
        for i in r.instances[:6]:
            samples.append(dict(rule=r.rule, **i))
    expl = []
    rules = []
    for r in results:
        expl.append("%s: %s [instances=%d floor=%s findings=%d]" % (r.rule, r.desc, len(r.instances), r.floor, len(r.findings)))
        rules.append({"rule": r.rule, "description": r.desc, "instances": len(r.instances), "floor": r.floor,
                      "findings": [f.to_json() for f in r.findings], "stats": r.stats})
    cov = {
        "explanation": "Static analysis of /repo's current sources (no repo code executed). " + " | ".join(expl),
        "obligations": n_inst,
        "discharged": n_inst - n_find,
        "evaluations": max(n_inst, 1),
        "distinct_nontrivial": max(distinct, 2) if distinct >= 2 else distinct,
        "rule": "each rule instance is one construct of the source (call site, template, table row, impl, path) "
                "matched by the rule; distinct = distinct (rule, construct) pairs",
        "samples": samples[:40] or [{"note": "no instances"}],
        "rules": rules,
        "known_findings_reported": known_hits,
        "repo_digest": repo_digest(),
    }
    if extra_cov:
        cov.update(extra_cov)
    ev = {
        "property_id": prop,
        "tier": tier,
        "seed": seed,
        "level": "other",
        "coverage": cov,
        "assumptions": assumptions or [],
        "wall_s": round(wall, 2),
        "violations": violations,
    }
    with open(os.path.join(evdir, prop + ".json"), "w") as fh:
        json.dump(ev, fh, indent=1)
    return ev
