"""quote!/quote_spanned! templates recovered from MIR.

A quote! invocation expands into a straight sequence of calls on a `TokenStream` local: `push_ident(&mut s, "name")`,
`push_colon2(&mut s)`, `parse(&mut s, "\"lit\"")`, `push_group(&mut s, Delimiter, inner)`, and, for `#x`,
`ToTokens::to_tokens(&x, &mut s)`.  Reading the templates from there (instead of from the source text of the macro call)
makes them independent of how the surrounding function is written: helpers a function was split into are spliced in by
mirlib.inline_raw, interpolated values are locals whose origin is a dataflow question, not a variable name.

templates(body) -> list of Template(tokens, interps, line, first_block) in control-flow order; `tokens` uses the nesting
of engines/synlint (str | {"d": "(", "ts": [..]}) with `#`, name for an interpolation, so vlib.synlib's helpers apply."""
import re

from vlib import mirlib as M
from vlib.mirlib import fn_matches, op_const, op_local, op_place

PUNCT = {"add": "+", "add_eq": "+=", "and": "&", "and_and": "&&", "and_eq": "&=", "at": "@", "bang": "!", "caret": "^",
         "caret_eq": "^=", "colon": ":", "colon2": "::", "comma": ",", "div": "/", "div_eq": "/=", "dot": ".", "dot2": "..",
         "dot3": "...", "dot_dot_eq": "..=", "eq": "=", "eq_eq": "==", "ge": ">=", "gt": ">", "le": "<=", "lt": "<",
         "mul_eq": "*=", "ne": "!=", "or": "|", "or_eq": "|=", "or_or": "||", "pound": "#", "question": "?", "rarrow": "->",
         "larrow": "<-", "rem": "%", "rem_eq": "%=", "fat_arrow": "=>", "semi": ";", "shl": "<<", "shl_eq": "<<=", "shr": ">>",
         "shr_eq": ">>=", "star": "*", "sub": "-", "sub_eq": "-=", "underscore": "_", "dollar": "$", "tilde": "~"}
DELIM = {"Parenthesis": "(", "Brace": "{", "Bracket": "[", "None": ""}


class Template:
    def __init__(self, stream, tokens, line, block, file=None):
        self.stream = stream
        self.tokens = tokens
        self.line = line
        self.block = block
        self.file = file
        self.interps = []       # (name, local, type) in order, nested groups included
        self.projs = []         # projection of each interpolated place (parallel to interps)

    def flat(self):
        from vlib import synlib as S
        return S.flat(self.tokens)

    def text(self):
        return " ".join(self.flat())


def _stream_local(body, op):
    """the TokenStream local behind a `&mut TokenStream` operand"""
    pl = op_place(op)
    if pl is None:
        return None
    cur = pl["l"]
    for _ in range(12):
        ds = [d for d in M.def_sites(body, cur) if not body.is_cleanup(d[0])]
        if len(ds) != 1 or ds[0][1] == "term":
            return cur
        rv = ds[0][2]["rv"]
        nxt = rv.get("pl") if rv["k"] in ("ref", "rawptr") else op_place(rv["op"]) if rv["k"] in ("use", "cast") else None
        if nxt is None:
            return cur
        if "TokenStream" in body.local_ty(nxt["l"]) and not body.local_ty(nxt["l"]).startswith("&"):
            return nxt["l"]
        cur = nxt["l"]
    return cur


def _value_local(body, op):
    """the local an interpolated `&x` refers to (through the reference temporaries)"""
    pl = op_place(op)
    if pl is None:
        return None, None
    cur, proj = pl["l"], list(pl["p"])
    for _ in range(12):
        ds = [d for d in M.def_sites(body, cur) if not body.is_cleanup(d[0])]
        if len(ds) != 1 or ds[0][1] == "term":
            break
        rv = ds[0][2]["rv"]
        nxt = rv.get("pl") if rv["k"] in ("ref",) else op_place(rv["op"]) if rv["k"] in ("use",) else None
        if nxt is None:
            break
        cur, proj = nxt["l"], [x for x in nxt["p"] if x != "*"]
        if proj:
            break
    return cur, proj


def _name(body, local, proj):
    n = body.local_name(local)
    base = n if n else "_%d" % local
    fields = "".join(p for p in (proj or []) if p.startswith("."))
    return (base + fields).replace(".", "__")


def templates(body):
    order = M.rpo(body)
    streams = {}       # stream local -> list of tokens
    first = {}         # stream local -> (block, line, file)
    inner_of = {}      # inner stream local -> True
    loops = None
    for b in order:
        if body.is_cleanup(b):
            continue
        t = body.term(b)
        if t["k"] != "call" or not t.get("fn"):
            continue
        p = t["fn"].get("path") or ""
        tok = None
        s = None
        if p.startswith("quote::__private::push_"):
            nm = p.split("push_", 1)[1]
            spanned = nm.endswith("_spanned")
            nm = nm[:-8] if spanned else nm
            s = _stream_local(body, t["args"][0])
            rest = t["args"][2:] if spanned else t["args"][1:]
            if nm == "ident" or nm == "lifetime":
                c = op_const(rest[0]) if rest else None
                if c is None and rest and op_local(rest[0]) is not None:
                    cs = [o for o in M.origins(body, op_local(rest[0])) if o["kind"] == "const"]
                    c = cs[0]["c"] if cs else None
                tok = (c or {}).get("str") or "<ident>"
            elif nm == "group":
                d = ""
                dl = op_local(rest[0]) if rest else None
                dc = op_const(rest[0]) if rest else None
                if dc is None and dl is not None:
                    for bb, i, dd in M.def_sites(body, dl):
                        if i != "term" and dd["rv"]["k"] == "agg":
                            d = DELIM.get(dd["rv"].get("variant"), "(")
                        elif i != "term" and dd["rv"]["k"] == "use" and op_const(dd["rv"]["op"]):
                            dc = op_const(dd["rv"]["op"])
                if dc is not None:
                    m = re.search(r"(Parenthesis|Brace|Bracket|None)", str(dc.get("dbg") or dc))
                    d = DELIM.get(m.group(1), "(") if m else "("
                inner = op_local(rest[1]) if len(rest) > 1 else None
                tok = {"d": d, "ts": None, "inner": inner}
                if inner is not None:
                    inner_of[inner] = True
            elif nm in PUNCT:
                tok = PUNCT[nm]
            else:
                tok = "<%s>" % nm
        elif p in ("quote::__private::parse", "quote::__private::parse_spanned"):
            s = _stream_local(body, t["args"][0])
            a = t["args"][-1]
            c = op_const(a)
            if c is None and op_local(a) is not None:
                cs = [o for o in M.origins(body, op_local(a)) if o["kind"] == "const"]
                c = cs[0]["c"] if cs else None
            tok = (c or {}).get("str") or "<literal>"
        elif p.endswith("ToTokens::to_tokens") and len(t["args"]) == 2 and "TokenStream" in (t.get("arg_tys") or ["", ""])[1]:
            s = _stream_local(body, t["args"][1])
            vl, proj = _value_local(body, t["args"][0])
            tok = ("#", vl, proj, (t.get("arg_tys") or [""])[0])
        elif fn_matches(t, r"TokenStreamExt::append_all$", r"TokenStreamExt::append_separated$", r"TokenStreamExt::append_terminated$", r"iter::Extend::extend$") \
                and t["args"] and "TokenStream" in (t.get("arg_tys") or [""])[0] and len(t["args"]) > 1:
            s = _stream_local(body, t["args"][0])
            vl, proj = _value_local(body, t["args"][1])
            tok = ("#*", vl, proj, (t.get("arg_tys") or ["", ""])[1])
        if tok is None or s is None:
            continue
        streams.setdefault(s, []).append(tok)
        if s not in first:
            f, l = M.user_span(t["span"])
            first[s] = (b, l, f)

    def chase(l):
        """the stream local whose value was moved into l"""
        for _ in range(12):
            if l in streams or l is None:
                return l
            ds = [d for d in M.def_sites(body, l) if not body.is_cleanup(d[0])]
            if len(ds) != 1 or ds[0][1] == "term":
                return l
            rv = ds[0][2]["rv"]
            nxt = op_place(rv["op"]) if rv["k"] in ("use", "cast") else None
            if nxt is None or nxt["p"]:
                return l
            l = nxt["l"]
        return l

    for s in list(streams):
        for tok in streams[s]:
            if isinstance(tok, dict) and tok.get("inner") is not None:
                real = chase(tok["inner"])
                inner_of.pop(tok["inner"], None)
                tok["inner"] = real
                inner_of[real] = True

    def build(s, tpl, seen):
        out = []
        for tok in streams.get(s, []):
            if isinstance(tok, dict):
                inner = tok.get("inner")
                ts = build(inner, tpl, seen | {s}) if inner is not None and inner not in seen else []
                out.append({"d": tok["d"], "ts": ts})
            elif isinstance(tok, tuple):
                kind, vl, proj, ty = tok
                nm = _name(body, vl, proj) if vl is not None else "_"
                tpl.interps.append((nm, vl, ty))
                tpl.projs.append(list(proj or []))
                if kind == "#*":
                    out += ["#", {"d": "(", "ts": ["#", nm]}, "*"]
                else:
                    out += ["#", nm]
            else:
                out.append(tok)
        return out

    res = []
    for s in streams:
        if s in inner_of:
            continue
        b0, line, file = first[s]
        tpl = Template(s, None, line, b0, file)
        tpl.tokens = build(s, tpl, set())
        res.append(tpl)
    res.sort(key=lambda x: order.index(x.block) if x.block in order else 0)
    return res


def stream_template(body, local, tpls, steps=12):
    """the template whose token stream ends up in `local` (followed back through moves), if it is the only definition"""
    cur = local
    for _ in range(steps):
        for t in tpls:
            if t.stream == cur:
                return t
        ds = M.value_defs(body, cur)
        if len(ds) != 1 or ds[0][1] == "term":
            return None
        rv = ds[0][2]["rv"]
        nxt = op_place(rv["op"]) if rv["k"] in ("use", "cast") else rv.get("pl") if rv["k"] == "ref" else None
        if nxt is None or [x for x in nxt["p"] if x != "*"]:
            return None
        cur = nxt["l"]
    return None


def expanded(body, tpl, tpls, depth=3, rename=None):
    """tokens of `tpl` with every interpolated token stream that is itself a (single) template of the same function
    spliced in: `let operand = quote!(f(#x)); quote!(a & #operand)` reads `a & f(#x)`"""
    k = [0]

    def walk(tokens, d):
        out = []
        i = 0
        while i < len(tokens):
            t = tokens[i]
            if t == "#" and i + 1 < len(tokens) and isinstance(tokens[i + 1], str) and k[0] < len(tpl.interps) and d == depth:
                nm, loc, ty = tpl.interps[k[0]]
                if tokens[i + 1] == nm:
                    k[0] += 1
                    given = rename(nm, loc, ty) if rename else None      # a value the caller knows by name stays one token
                    sub = stream_template(body, loc, tpls) if loc is not None and "TokenStream" in (ty or "") and not given else None
                    if sub is not None and sub is not tpl and d > 0:
                        out += expanded(body, sub, tpls, d - 1, rename)
                    else:
                        out += ["#", given or nm]
                    i += 2
                    continue
            if isinstance(t, dict):
                out.append({"d": t["d"], "ts": walk(t["ts"], d)})
            else:
                out.append(t)
            i += 1
        return out

    return walk(tpl.tokens, depth)


def function_templates(crate, prefix):
    """(body, templates) for every function under `prefix`, helpers spliced in; a template that belongs to a helper is
    reported once, with the outermost function that contains it"""
    seen = set()
    out = []
    roots = [b for b in crate.bodies if b.path.startswith(prefix) and b.kind in ("Fn", "AssocFn")]
    owned = {}
    for b in roots:
        for p in crate.owned_by(b.path):
            if p != b.path:
                owned[p] = b.path
    for b in roots:
        if b.path in owned:
            continue
        group = crate.owned_by(b.path)
        # the function itself, then the closures it (or a helper) defines: a closure's body is not part of its
        # parent's MIR, the helpers it calls are spliced into it
        for bb in [b] + [x for x in crate.bodies if x.kind == "Closure" and x.path in group]:
            ib = crate.inlined(bb) if bb is b else Body_inlined_closure(crate, bb, group)
            tpls = templates(ib)
            keep = []
            for t in tpls:
                key = (t.file, t.line, t.text())
                if key in seen:
                    continue
                seen.add(key)
                keep.append(t)
            if bb is b or keep:
                out.append((ib, tpls, keep))
    return out


def Body_inlined_closure(crate, cb, group):
    key = ("closure", cb.path)
    if key not in crate._inl:
        nb = M.Body(M.inline_raw(crate, cb, 3, ("TS",), only=group), crate.name)
        nb.plain = cb
        crate._inl[key] = nb
    return crate._inl[key]
