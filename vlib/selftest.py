"""Thorough-tier self-test of the checker: every seeded regression / hand-made mutant that a property's
check is recorded to catch is applied to a scratch copy of /repo's *current* tree (outside /repo and
/verif, removed immediately), the property's quick check is run against the copy, and it must report
the recorded violation again.  This shows each rule is live in both directions; it is not itself a
property check and never decides a property."""
import json
import os
import re
import shutil
import subprocess
import tempfile
from concurrent.futures import ThreadPoolExecutor

from vlib import common


def corpus(prop):
    items = []
    mpath = os.path.join(common.VERIF, "seeded", "MATRIX.json")
    if os.path.exists(mpath):
        m = json.load(open(mpath))
        for sid, v in sorted(m.items()):
            keys = (v.get("detected_by") or {}).get(prop)
            if keys:
                items.append({"name": "seeded/" + sid, "patch": os.path.join(common.VERIF, "seeded", sid, "patch.diff"),
                              "expect": [re.escape(k) for k in keys if not k.startswith("floor ")] or [re.escape(k) for k in keys]})
    mdir = os.path.join(common.VERIF, "selftest", "mutants")
    for f in sorted(os.listdir(mdir)) if os.path.isdir(mdir) else []:
        if f.endswith(".json"):
            j = json.load(open(os.path.join(mdir, f)))
            if j["property"] == prop:
                items.append({"name": "mutants/" + j["name"], "patch": os.path.join(mdir, j["name"] + ".patch"), "expect": [j["expect_key"]], "what": j.get("what")})
    return items


def _copy_repo(dst):
    files = common._repo_files(common.REPO)
    r = common.sh(["git", "-C", common.REPO, "ls-files", "-co", "--exclude-standard"])
    allf = [f for f in r.stdout.split("\n") if f] if r.returncode == 0 else files
    for f in allf:
        src = os.path.join(common.REPO, f)
        if not os.path.isfile(src):
            continue
        d = os.path.join(dst, f)
        os.makedirs(os.path.dirname(d), exist_ok=True)
        shutil.copy2(src, d)


def _one(prop, item):
    tmp = tempfile.mkdtemp(prefix="verif-selftest-")
    try:
        repo = os.path.join(tmp, "repo")
        os.makedirs(repo)
        _copy_repo(repo)
        import glob
        cands = [item["patch"]] + sorted(glob.glob(os.path.join(os.path.dirname(item["patch"]), "patch_rebased_*.diff")), reverse=True) \
            if item["name"].startswith("seeded/") else [item["patch"]]
        applied = False
        for pth in cands:
            for extra in ([], ["-C1"]):
                r = common.sh(["git", "apply"] + extra + [pth], cwd=repo)
                if r.returncode == 0:
                    applied = True
                    break
            if applied:
                break
        if not applied:
            return dict(item, outcome="not-applicable", detail="patch does not apply to the current tree")
        env = dict(os.environ, VERIF_REPO=repo, VERIF_CACHE=os.path.join(tmp, "cache"), VERIF_EVIDENCE_DIR=os.path.join(tmp, "evidence"),
                   VERIF_SELFTEST_CHILD="1", VERIF_TIER="quick")
        rr = common.sh([os.path.join(common.VERIF, "check"), prop, "quick"], env=env, cwd=common.VERIF)
        keys = [l for l in rr.stdout.splitlines() if ": [" in l and not l.startswith("KNOWN-FINDING")]
        fired = rr.returncode == 1 and any(re.search(rx, l) for l in keys for rx in item["expect"])
        if rr.returncode not in (0, 1):
            return dict(item, outcome="child-error", detail=rr.stdout[-300:] + rr.stderr[-300:])
        return dict(item, outcome="fired" if fired else "MISSED", detail=(keys[0][:200] if keys else "no violation reported"))
    finally:
        shutil.rmtree(tmp, ignore_errors=True)


def run(prop, workers=8):
    items = corpus(prop)
    if not items:
        return {"mutants_total": 0, "mutants_fired": 0, "results": []}
    with ThreadPoolExecutor(max_workers=workers) as ex:
        res = list(ex.map(lambda it: _one(prop, it), items))
    out = [{"mutant": r["name"], "outcome": r["outcome"], "detail": r["detail"], "expected_key": r["expect"][0][:120]} for r in res]
    applicable = [r for r in res if r["outcome"] != "not-applicable"]
    return {"mutants_total": len(applicable), "mutants_fired": sum(1 for r in res if r["outcome"] == "fired"),
            "not_applicable": sum(1 for r in res if r["outcome"] == "not-applicable"), "results": out}
