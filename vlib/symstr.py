"""Symbolic value of a String: the ordered pieces a function concatenates, recovered from MIR facts.

Atoms:  ("lit", text) | ("named", constant path) | ("call", callee path, [values of its text arguments], buffer-arg index or None)
        | ("derived", [callee paths the value is computed from]) | ("param", n) | ("unknown", why)

Understands: String::new/with_capacity/from, push_str, push, write!/format! templates, [..].concat(), [..].join(sep),
`for part in [..] { buf.push_str(part) }`, helpers that write into a `&mut String` parameter or return a String
(`expand`).  The order of the writes to one buffer is the reverse post-order of the CFG (conditional writes are kept:
an `if let Some(docs)` write is an optional piece)."""
import re
from vlib import mirlib as M
from vlib.mirlib import fn_matches, op_const, op_local, op_place

IDENT = [r"ops::Deref::deref$", r"ops::DerefMut::deref_mut$", r"AsRef<.*>>::as_ref$", r"convert::AsRef::as_ref$", r"String::as_str$", r"String::as_mut_str$",
         r"borrow::Borrow::borrow$", r"clone::Clone::clone$", r"borrow::ToOwned::to_owned$", r"str::<impl str>::to_owned$", r"string::ToString::to_string$",
         r"convert::From::from$", r"convert::Into::into$", r"hint::must_use$", r"String as .*From<&str>>::from$", r"str::<impl str>::to_string$",
         r"String::into_boxed_str$", r"Cow::<'_, B>::into_owned$", r"borrow::Cow::<'_, B>::into_owned$"]
EMPTY = [r"string::String::new$", r"string::String::with_capacity$", r"<std::string::String as std::default::Default>::default$", r"default::Default::default$"]
DEFAULTING = [r"option::Option::<T>::unwrap_or_default$", r"option::Option::<T>::unwrap_or$", r"option::Option::<T>::unwrap_or_else$", r"option::Option::<T>::unwrap$", r"option::Option::<T>::expect$"]


def merge_lits(atoms):
    out = []
    for a in atoms:
        if a[0] == "lit" and out and out[-1][0] == "lit":
            out[-1] = ("lit", out[-1][1] + a[1])
        elif a[0] == "lit" and a[1] == "":
            continue
        else:
            out.append(a)
    return out


class Sym:
    def __init__(self, crate, body):
        self.crate, self.b = crate, body
        self.order = M.rpo(body)
        self.pos = {blk: i for i, blk in enumerate(self.order)}
        self._active = set()

    # ---------------------------------------------------------------- values
    def const_atom(self, c):
        if c is None:
            return [("unknown", "constant")]
        if c.get("str") is not None:
            return [("lit", c["str"])]
        if c.get("uneval"):
            inner = c.get("promoted_names")
            if c.get("promoted") is not None and inner and len(inner) == 1:
                return [("named", inner[0])]        # `&CONST` promoted to a temporary of the function
            return [("named", c["uneval"])]
        if c.get("char"):
            return [("lit", c["char"])]
        return [("unknown", "constant %s" % (c.get("dbg") or "")[:30])]

    def opp(self, o, proj, depth=0):
        c = op_const(o)
        if c is not None:
            if proj and proj[0].startswith("as ") and not re.search(r"\b%s\b" % re.escape(proj[0][3:]), str(c.get("dbg") or "")):
                return None        # a constant of another variant (`None` where the payload of `Some` is asked for)
            return self.const_atom(c)
        pl = op_place(o)
        if pl is None:
            return [("unknown", "operand")]
        return self._val(pl["l"], list(pl["p"]) + list(proj), depth)

    def op(self, o, depth=0):
        c = op_const(o)
        if c is not None:
            return self.const_atom(c)
        pl = op_place(o)
        if pl is None:
            return [("unknown", "operand")]
        return self.val(pl["l"], pl["p"], depth)

    def val(self, local, proj=(), depth=0):
        v = self._val(local, proj, depth)
        return v if v is not None else [("unknown", "no definition reaches this use")]

    def _val(self, local, proj=(), depth=0):
        key = (local, tuple(proj or ()))
        if key in self._active:
            return [("unknown", "defined in terms of itself (a loop)")]
        self._active.add(key)
        try:
            return self._val1(local, proj, depth)
        finally:
            self._active.discard(key)

    def _val1(self, local, proj=(), depth=0):
        b = self.b
        proj = [x for x in (proj or []) if x != "*"]
        if depth > 25:
            return [("unknown", "too deep")]
        if 1 <= local <= b.raw["arg_count"] and not M.real_defs(b, local):
            if re.fullmatch(r"(std::|alloc::)?string::String", b.local_ty(local) or "") and not proj:
                return [("param", local)] + self.mutations(local, depth)
            return [("param", local)]
        defs = [d for d in M.value_defs(b, local) if not b.is_cleanup(d[0])]
        if not defs:
            return [("unknown", "no definition of _%d" % local)]
        vals = [v for v in (self.one(d, proj, depth) for d in defs) if v is not None]
        if not vals:
            return None
        if len(vals) > 1 and not all(v == vals[0] for v in vals):
            flat = []
            for v in vals:
                v = merge_lits(v)
                if len(v) == 1 and v[0][0] == "lit":
                    flat.append(v[0][1])
                elif len(v) == 1 and v[0][0] == "alts":
                    flat += v[0][1]
                elif not v:
                    flat.append("")
                else:
                    flat = None
                    break
            if flat is not None:
                return [("alts", sorted(set(flat)))]
            calls, params, _ = M.deep_slice(b, local)
            names = sorted({M.callee(t) for _, t in calls if M.callee(t)})
            named = sorted({a[1] for v in vals for a in v if a[0] == "named"})
            return [("derived", names + named)]
        base = vals[0]
        if re.fullmatch(r"(std::|alloc::)?string::String", b.local_ty(local) or "") and not proj:
            base = base + self.mutations(local, depth)
        return base

    def one(self, d, proj, depth):
        """value of one definition, seen through the projection `proj` (tuple components, enum payloads)"""
        b = self.b
        blk, i, dd = d
        proj = list(proj or [])
        if i != "term":
            rv = dd["rv"]
            k = rv["k"]
            if k in ("use", "cast"):
                pl = op_place(rv["op"])
                if pl is not None:
                    return self._val(pl["l"], list(pl["p"]) + proj, depth + 1)
                return self.op(rv["op"], depth + 1)
            if k == "ref":
                return self._val(rv["pl"]["l"], list(rv["pl"]["p"]) + proj, depth + 1)
            if k == "agg" and rv.get("tuple") and proj and re.match(r"^\.\d+$", proj[0]) and int(proj[0][1:]) < len(rv["ops"]):
                return self.opp(rv["ops"][int(proj[0][1:])], proj[1:], depth + 1)
            if k == "agg" and rv.get("variant") and proj and proj[0] == "as " + rv["variant"] and len(proj) > 1:
                m = re.search(r"(\d+)$", proj[1])
                if m and int(m.group(1)) < len(rv["ops"]):
                    return self.opp(rv["ops"][int(m.group(1))], proj[2:], depth + 1)
            if k == "agg" and rv.get("variant") and proj and proj[0].startswith("as ") and proj[0] != "as " + rv["variant"]:
                return None        # another variant: this definition does not reach the use
            if k == "agg" and rv.get("variant") in ("Some", "Ok") and len(rv["ops"]) == 1 and not proj:
                return self.op(rv["ops"][0], depth + 1)
            return [("unknown", "rvalue %s" % k)]
        t = dd
        if t.get("inlined"):
            return [("unknown", "inlined marker")]
        if fn_matches(t, *EMPTY) and "String" in (t.get("dst_ty") or ""):
            return []
        if fn_matches(t, r"fmt::format$", r"fmt::Arguments::<'_>::to_string$") and t["args"]:
            return self.fmt(t["args"][0], depth + 1)
        if fn_matches(t, r"slice::<impl \[T\]>::concat$", r"slice::Concat<.*>>::concat$") and t["args"]:
            els = self.array(t["args"][0])
            if els is None:
                return [("unknown", "concat of something that is not an array literal")]
            return [a for e in els for a in self.op(e, depth + 1)]
        if fn_matches(t, r"slice::<impl \[T\]>::join$", r"slice::Join<.*>>::join$") and len(t["args"]) > 1:
            els = self.array(t["args"][0])
            if els is None:
                return [("unknown", "join of something that is not an array literal")]
            sep = self.op(t["args"][1], depth + 1)
            out = []
            for k, e in enumerate(els):
                out += (sep if k else []) + self.op(e, depth + 1)
            return out
        if fn_matches(t, r"iter::Iterator::next$", r"Iterator>::next$") and t["args"]:
            els = self.iterated_array(t["args"][0])
            if els is not None:
                return [a for e in els for a in self.op(e, depth + 1)]
            return [("unknown", "element of an iterator")]
        if fn_matches(t, *DEFAULTING) and t["args"]:
            return self.op(t["args"][0], depth + 1)
        if fn_matches(t, *IDENT) and t["args"]:
            return self.op(t["args"][0], depth + 1)
        args = []
        for a in t["args"]:
            ty = (t.get("arg_tys") or [])[len(args)] if len(t.get("arg_tys") or []) > len(args) else ""
            args.append(self.op(a, depth + 1) if re.search(r"str\b|String", ty or "") else None)
        return [("call", M.callee(t) or "?", args, None, (t.get("fn") or {}).get("args"))]

    # ---------------------------------------------------------------- helpers
    def array(self, o):
        """operands of the array literal an operand (a reference to / unsizing of it) stands for"""
        b = self.b
        l = op_local(o)
        for _ in range(8):
            if l is None:
                return None
            ds = [d for d in M.real_defs(b, l) if not b.is_cleanup(d[0])]
            if len(ds) != 1:
                return None
            blk, i, d = ds[0]
            if i == "term":
                if fn_matches(d, *IDENT, r"iter::IntoIterator::into_iter$", r"IntoIterator>::into_iter$", r"slice::<impl \[T\]>::iter$") and d["args"]:
                    l = op_local(d["args"][0]) if op_place(d["args"][0]) is not None else None
                    if l is None and op_place(d["args"][0]) is not None:
                        l = op_place(d["args"][0])["l"]
                    continue
                return None
            rv = d["rv"]
            if rv["k"] == "agg" and rv.get("array") is not None:
                return rv["ops"]
            if rv["k"] in ("use", "cast") and op_place(rv["op"]) is not None:
                l = op_place(rv["op"])["l"]
            elif rv["k"] == "ref":
                l = rv["pl"]["l"]
            else:
                return None
        return None

    def iterated_array(self, o):
        return self.array(o)

    def fmt(self, o, depth):
        """pieces of a fmt::Arguments value"""
        b = self.b
        l = op_local(o)
        ds = [d for d in (M.real_defs(b, l) if l is not None else []) if not b.is_cleanup(d[0])]
        while len(ds) == 1 and ds[0][1] != "term" and ds[0][2]["rv"]["k"] in ("use", "cast") and op_local(ds[0][2]["rv"]["op"]) is not None:
            l = op_local(ds[0][2]["rv"]["op"])
            ds = [d for d in M.real_defs(b, l) if not b.is_cleanup(d[0])]
        if len(ds) != 1 or ds[0][1] != "term":
            return [("unknown", "format arguments")]
        t = ds[0][2]
        if fn_matches(t, r"fmt::Arguments::<'_>::from_str(_nonconst)?$", r"fmt::Arguments::<'a>::from_str(_nonconst)?$", r"fmt::Arguments.*::new_const"):
            return self.const_atom(op_const(t["args"][0])) if t["args"] and op_const(t["args"][0]) else self.op(t["args"][0], depth + 1)
        if not fn_matches(t, r"fmt::Arguments::<'_>::new$", r"fmt::Arguments::<'a>::new$", r"fmt::Arguments.*::new::"):
            return [("unknown", "format arguments built by %s" % M.callee(t))]
        tpl, args = None, None
        for a in t["args"]:
            la = op_local(a)
            if la is None:
                continue
            for o2 in M.origins(b, la, identity=[]):
                if o2["kind"] == "const" and o2.get("c") and str(o2["c"].get("ty", "")).startswith("&[u8"):
                    tt = M.fmt_template(M._bytes_lit(o2["c"].get("dbg")))
                    if tt is not None and tpl is None:
                        tpl = tt
            els = self.array(a)
            if els is not None and args is None and "Argument" in str(b.local_ty(la)):
                args = els
        if tpl is None:
            return [("unknown", "format template")]
        parts = tpl.split(M.ARG)
        if args is None:
            args = []
        if len(parts) - 1 != len(args):
            return [("unknown", "format template with %d holes and %d arguments" % (len(parts) - 1, len(args)))]
        out = [("lit", parts[0])]
        for k, a in enumerate(args):
            out += self.fmt_arg(a, depth + 1) + [("lit", parts[k + 1])]
        return out

    def fmt_arg(self, o, depth):
        b = self.b
        l = op_local(o)
        ds = [d for d in (M.real_defs(b, l) if l is not None else []) if not b.is_cleanup(d[0])]
        if len(ds) == 1 and ds[0][1] == "term" and fn_matches(ds[0][2], r"fmt::rt::Argument.*::new_display") and ds[0][2]["args"]:
            return self.op(ds[0][2]["args"][0], depth + 1)
        return [("unknown", "formatted with something else than Display")]

    # ---------------------------------------------------------------- writes into a buffer
    def holders(self, local, param=False):
        """locals that hold a mutable reference to the buffer `local` (or, for a `&mut String` parameter, reborrows of it)"""
        b = self.b
        hs = {local} if param else set()
        changed = True
        while changed:
            changed = False
            for blk in range(b.n):
                if b.is_cleanup(blk):
                    continue
                for st in b.stmts(blk):
                    if st["k"] != "assign" or st["dst"]["p"] or st["dst"]["l"] in hs:
                        continue
                    rv = st["rv"]
                    if rv["k"] == "ref" and rv.get("mut") and ((rv["pl"]["l"] == local and not [x for x in rv["pl"]["p"] if x != "*"] and not param) or
                                                                 (rv["pl"]["l"] in hs and all(x == "*" for x in rv["pl"]["p"]))):
                        hs.add(st["dst"]["l"])
                        changed = True
                    elif rv["k"] in ("use", "cast") and op_place(rv["op"]) is not None and op_place(rv["op"])["l"] in hs and not op_place(rv["op"])["p"] and "&mut" in (b.local_ty(st["dst"]["l"]) or ""):
                        hs.add(st["dst"]["l"])
                        changed = True
                t = b.term(blk)
                if t["k"] == "call" and fn_matches(t, r"ops::DerefMut::deref_mut$") and t["args"] and op_local(t["args"][0]) in hs and t["dst"]["l"] not in hs:
                    hs.add(t["dst"]["l"])
                    changed = True
        return hs - ({local} if not param else set())

    def mutations(self, local, depth=0, param=False):
        b = self.b
        hs = self.holders(local, param) | ({local} if param else set())
        out = []
        for blk in self.order:
            if b.is_cleanup(blk):
                continue
            t = b.term(blk)
            if t["k"] != "call" or t.get("inlined"):
                continue
            ks = [k for k, a in enumerate(t["args"]) if op_local(a) in hs]
            if not ks or fn_matches(t, r"ops::DerefMut::deref_mut$"):
                continue
            if fn_matches(t, r"string::String::push_str$") and len(t["args"]) > 1:
                out += self.op(t["args"][1], depth + 1)
            elif fn_matches(t, r"string::String::push$") and len(t["args"]) > 1:
                c = op_const(t["args"][1]) or {}
                out += [("lit", chr(c["int"]))] if isinstance(c.get("int"), int) else [("lit", c["char"])] if c.get("char") else [("unknown", "pushed character")]
            elif fn_matches(t, r"::write_fmt$") and len(t["args"]) > 1:
                out += self.fmt(t["args"][1], depth + 1)
            elif fn_matches(t, r"::write_str$") and len(t["args"]) > 1:
                out += self.op(t["args"][1], depth + 1)
            elif fn_matches(t, r"string::String::(reserve|reserve_exact|shrink_to_fit|capacity|len|is_empty|as_str)$", r"ops::Deref::deref$"):
                continue
            else:
                args = []
                for k, a in enumerate(t["args"]):
                    ty = (t.get("arg_tys") or [])[k] if len(t.get("arg_tys") or []) > k else ""
                    args.append(self.op(a, depth + 1) if k not in ks and re.search(r"str\b|String", ty or "") else None)
                out.append(("call", M.callee(t) or "?", args, ks[0], (t.get("fn") or {}).get("args")))
        return out

    def returned(self):
        """value of the String the function returns (`Ok(..)` payloads included)"""
        b = self.b
        defs = [d for d in M.value_defs(b, 0) if not b.is_cleanup(d[0])]
        oks = [d for d in defs if not (d[1] == "term" and fn_matches(d[2], r"FromResidual")) and
               not (d[1] != "term" and d[2]["rv"]["k"] == "agg" and d[2]["rv"].get("variant") == "Err")]
        if len(oks) == 1:
            return self.one(oks[0], None, 0)
        return self.val(0)

    def written_to_param(self, n):
        return self.mutations(n, param=True)


def has_unknown(atom):
    if atom[0] in ("unknown",):
        return True
    if atom[0] == "call":
        return any(has_unknown(x) for v in atom[2] if v for x in v)
    return False


def expand(crate, atoms, stop=(), prefix="export::", depth=0):
    """replace calls of the crate's own helpers by what they write / return"""
    out = []
    for a in atoms:
        if a[0] != "call" or depth > 6 or not a[1].startswith(prefix) or any(re.search(s, a[1]) for s in stop):
            out.append(a)
            continue
        hb = crate.body(a[1])
        if hb is None:
            out.append(a)
            continue
        s = Sym(crate, hb)
        if a[3] is not None:
            inner = s.written_to_param(a[3] + 1)
        else:
            inner = s.returned()
        # parameters of the helper are replaced by the caller's values
        res = []
        for x in inner:
            if x[0] == "param" and x[1] - 1 < len(a[2]) and a[2][x[1] - 1] is not None:
                res += a[2][x[1] - 1]
            else:
                res.append(x)
        res = expand(crate, res, stop, prefix, depth + 1)
        if any(has_unknown(x) for x in res):
            out.append(a)              # a helper this reader cannot follow stays one opaque piece
        else:
            out += res
    return merge_lits(out)


def mentions(atom, rx):
    """does the atom (a call with nested argument values, or a derived value) involve a callee / constant matching rx"""
    if atom[0] in ("named",):
        return re.search(rx, atom[1]) is not None
    if atom[0] == "derived":
        return any(re.search(rx, n or "") for n in atom[1])
    if atom[0] == "call":
        if re.search(rx, atom[1]):
            return True
        return any(mentions(x, rx) for v in atom[2] if v for x in v)
    return False


def shape(atoms, named=None):
    """format-string-like rendering: literal text with `{}` for every other piece (`named`: values of named constants)"""
    out = ""
    for a in atoms:
        if a[0] == "lit":
            out += a[1].replace("{", "{{").replace("}", "}}")
        elif a[0] == "named" and named and named(a[1]) is not None:
            out += named(a[1]).replace("{", "{{").replace("}", "}}")
        else:
            out += "{}"
    return re.sub(r"(\{\})+", "{}", out)
