"""Engine A helper library over synlint JSON: functions, events, template (token tree) matching,
tuple-pattern decision tables.  Python stdlib only."""
import re


class Syn:
    def __init__(self, raw):
        self.raw = raw
        self.files = raw["files"]
        self.fns = []
        for f in self.files:
            for fn in f["fns"]:
                fn["file"] = f["path"]
                self.fns.append(fn)
        self.item_macros = []
        for f in self.files:
            for m in f["item_macros"]:
                m["file"] = f["path"]
                self.item_macros.append(m)
        self.items = []
        for f in self.files:
            for it in f["items"]:
                it["file"] = f["path"]
                self.items.append(it)

    def fn(self, qual, file_suffix=None):
        c = [f for f in self.fns if f["qual"] == qual and (file_suffix is None or f["file"].endswith(file_suffix))]
        if len(c) == 1:
            return c[0]
        if not c:
            c = [f for f in self.fns if (f["qual"].endswith("::" + qual) or f["name"] == qual)
                 and (file_suffix is None or f["file"].endswith(file_suffix))]
        return c[0] if len(c) == 1 else None

    def fns_in(self, prefix):
        return [f for f in self.fns if f["file"].startswith(prefix)]

    def tables(self):
        """impl_parse! tables: name -> table record (with file/line)"""
        out = {}
        for m in self.item_macros:
            if m["name"] == "impl_parse" and m.get("table"):
                t = m["table"]
                t["file"] = m["file"]
                t["line"] = m["line"]
                out[t["name"]] = t
        return out


def events(fn, kind=None, **match):
    for e in fn["events"]:
        if kind and e["kind"] != kind:
            continue
        ok = True
        for k, v in match.items():
            if e.get(k) != v:
                ok = False
                break
        if ok:
            yield e


def norm(s):
    """normalise a token string: collapse whitespace"""
    return re.sub(r"\s+", " ", s).strip()


def squash(s):
    """remove all whitespace (token strings differ in spacing between syn versions)"""
    return re.sub(r"\s+", "", s)


# ------------------------------------------------------------------ token trees

def flat(tokens):
    """flatten a nested token JSON into a list of strings with explicit delimiters"""
    out = []
    close = {"(": ")", "{": "}", "[": "]", "": ""}
    for t in tokens:
        if isinstance(t, dict):
            if t["d"]:
                out.append(t["d"])
            out.extend(flat(t["ts"]))
            if t["d"]:
                out.append(close[t["d"]])
        else:
            out.append(t)
    return out


def walk_groups(tokens):
    """yield every token list (top level and each nested group's content)"""
    yield tokens
    for t in tokens:
        if isinstance(t, dict):
            yield from walk_groups(t["ts"])


TS_METHODS = ("name", "inline", "inline_flattened", "visit_dependencies", "visit_generics", "decl", "decl_concrete",
              "ident", "output_path", "dependencies")


def ts_refs(tokens):
    """Find `< V as C :: TS > :: M (` shapes in a token tree.  V is rendered as a string:
    '#ty' for an interpolation, 'Self', or the literal token text of the type.
    Also finds `v . visit :: < V > (`.  Returns list of (V, M)."""
    out = []
    for toks in walk_groups(tokens):
        n = len(toks)
        i = 0
        while i < n:
            t = toks[i]
            if t == "<" or (isinstance(t, str) and t.endswith("<") and t not in ("<",) and False):
                # collect until matching `as`
                j = i + 1
                depth = 0
                ty = []
                found = None
                while j < n:
                    x = toks[j]
                    if isinstance(x, str):
                        if x == "as" and depth == 0:
                            found = j
                            break
                        if x == "<":
                            depth += 1
                        elif x == ">":
                            if depth == 0:
                                break
                            depth -= 1
                        elif x in (";", ","):
                            if depth == 0:
                                break
                    ty.append(x)
                    j += 1
                if found is not None:
                    # expect ... :: TS > :: M
                    k = found + 1
                    # skip trait path up to `>` at depth 0
                    depth = 0
                    trait = []
                    while k < n:
                        x = toks[k]
                        if isinstance(x, str):
                            if x == "<":
                                depth += 1
                            elif x == ">":
                                if depth == 0:
                                    break
                                depth -= 1
                        trait.append(x)
                        k += 1
                    if k < n and trait and (trait[-1] == "TS"):
                        # after `>` comes `::` then method
                        m = None
                        if toks[k] == ">" and k + 2 < n and toks[k + 1] == "::":
                            m = toks[k + 2]
                        if isinstance(m, str):
                            out.append((render_ty(ty), m))
            if t == "visit" and i + 2 < n and toks[i + 1] == "::" and toks[i + 2] == "<":
                # v . visit :: < V > ( )
                j = i + 3
                depth = 0
                ty = []
                while j < n:
                    x = toks[j]
                    if isinstance(x, str):
                        if x == "<":
                            depth += 1
                        elif x == ">":
                            if depth == 0:
                                break
                            depth -= 1
                    ty.append(x)
                    j += 1
                out.append((render_ty(ty), "visit"))
            i += 1
    return out


def render_ty(ty):
    s = "".join(x if isinstance(x, str) else (x["d"] + "".join(flat(x["ts"])) + {"(": ")", "{": "}", "[": "]", "": ""}[x["d"]]) for x in ty)
    return s


TRANSPARENT_WRAPPERS = ("intersection_operand",)


def strip_wrappers(tokens, names=TRANSPARENT_WRAPPERS):
    """`#crate_rename::wrapper(ARG)` -> ARG, for wrappers that only decorate the text of their argument
    (intersection_operand adds parentheses around a union): a representation table should see the argument."""
    out = []
    i = 0
    while i < len(tokens):
        t = tokens[i]
        if (t == "#" and i + 4 < len(tokens) and tokens[i + 1] == "crate_rename" and tokens[i + 2] == "::" and tokens[i + 3] in names
                and isinstance(tokens[i + 4], dict) and tokens[i + 4]["d"] == "("):
            out += strip_wrappers(tokens[i + 4]["ts"], names)
            i += 5
            continue
        if isinstance(t, dict):
            t = dict(t, ts=strip_wrappers(t["ts"], names))
        out.append(t)
        i += 1
    return out


def interpolations(tokens):
    """names of `#ident` interpolations in a quote! token tree (incl. inside #( ... )* repetitions)"""
    out = []
    fl = flat(tokens)
    for i, t in enumerate(fl):
        if t == "#" and i + 1 < len(fl) and re.match(r"^[A-Za-z_][A-Za-z0-9_]*$", fl[i + 1]):
            out.append(fl[i + 1])
    return out


def string_lits(tokens):
    """string literal tokens (raw text incl. quotes) in a token tree"""
    return [t for t in flat(tokens) if isinstance(t, str) and (t.startswith('"') or t.startswith('r"') or t.startswith('r#"'))]


def format_calls(tokens):
    """find `format ! ( "lit" , args... )` inside a token tree -> list of (literal, [arg token lists])"""
    out = []
    for toks in walk_groups(tokens):
        for i, t in enumerate(toks):
            if t == "format" and i + 2 < len(toks) and toks[i + 1] == "!" and isinstance(toks[i + 2], dict):
                inner = toks[i + 2]["ts"]
                if not inner:
                    continue
                lit = inner[0] if isinstance(inner[0], str) else None
                args = []
                cur = []
                for x in inner[1:]:
                    if x == ",":
                        if cur:
                            args.append(cur)
                        cur = []
                    else:
                        cur.append(x)
                if cur:
                    args.append(cur)
                out.append((lit, args))
    return out


def unquote(lit):
    """Rust string literal token -> value (handles normal and raw strings, common escapes)"""
    if lit is None:
        return None
    m = re.match(r'^r(#*)"(.*)"\1$', lit, re.S)
    if m:
        return m.group(2)
    if lit.startswith('"') and lit.endswith('"'):
        body = lit[1:-1]
        return body.replace('\\"', '"').replace("\\n", "\n").replace("\\\\", "\\")
    return None


# ------------------------------------------------------------------ tuple patterns

def split_top(s, sep=","):
    out, depth, cur = [], 0, ""
    for ch in s:
        if ch in "([{<":
            depth += 1
        elif ch in ")]}>":
            depth -= 1
        if ch == sep and depth == 0:
            out.append(cur.strip())
            cur = ""
        else:
            cur += ch
    if cur.strip():
        out.append(cur.strip())
    return out


def tuple_elems(s):
    s = norm(s)
    if s.startswith("(") and s.endswith(")"):
        return split_top(s[1:-1])
    return [s]


def pat_class(p):
    """classify a simple sub-pattern: 'some', 'none', 'true', 'false', 'any', or the text"""
    p = norm(p)
    if p == "_" or re.match(r"^(ref )?(mut )?[a-z_][a-z0-9_]*$", p) and p not in ("true", "false"):
        return "any"
    if p.startswith("Some"):
        return "some"
    if p == "None":
        return "none"
    if p in ("true", "false"):
        return p
    return p


def first_match(arms, cell):
    """arms: list of pattern strings (tuples); cell: tuple of classes ('some'/'none'/'true'/'false'/text).
    Returns index of the first arm whose pattern admits the cell (guards ignored -> caller handles)."""
    for idx, a in enumerate(arms):
        for alt in split_top(a, "|"):
            elems = tuple_elems(alt)
            if len(elems) != len(cell):
                continue
            ok = True
            for pe, ce in zip(elems, cell):
                pc = pat_class(pe)
                if pc == "any":
                    continue
                if pc != ce:
                    ok = False
                    break
            if ok:
                return idx
    return None
