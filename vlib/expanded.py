"""Engine D (thorough only, never the deciding step): cross-check of Engine A's template model against the
code rustc actually generates for every `#[derive(TS)]` in the repository's own integration tests.
The derive is run by rustc (`-Zunpretty=expanded`); nothing generated is executed."""
import os
import re
import shutil
import tempfile

from vlib import common
from vlib import synlib as S

TS_CALL = re.compile(r"^<(.*)as(?:::)?(?:ts_rs|crate|\w+)::TS>::(\w+)$")


def extract():
    tmp = tempfile.mkdtemp(prefix="verif-expanded-")
    try:
        env = dict(os.environ, CARGO_TARGET_DIR=os.path.join(tmp, "target"), CARGO_NET_OFFLINE="true")
        r = common.sh(["cargo", "+nightly", "rustc", "-p", "ts-rs", "--test", "integration", "--profile", "check", "--offline", "--",
                       "-Zunpretty=expanded"], cwd=common.REPO, env=env)
        if r.returncode != 0 or len(r.stdout) < 10000:
            raise common.InfraError("could not expand the integration tests:\n" + r.stderr[-2000:])
        src = os.path.join(tmp, "src")
        os.makedirs(src)
        open(os.path.join(src, "expanded.rs"), "w").write(r.stdout)
        out = os.path.join(tmp, "syn.json")
        rr = common.sh([common.SYNLINT, src, out, "expanded.rs"])
        if rr.returncode != 0:
            raise common.InfraError("synlint failed on expanded source: " + rr.stderr[-500:])
        import json
        d = json.load(open(out))
        if d["errors"]:
            raise common.InfraError("expanded source does not parse: %s" % d["errors"][:2])
        return S.Syn(d)
    finally:
        shutil.rmtree(tmp, ignore_errors=True)


def cross_check(prop, rule_id="C03.D"):
    from vlib.common import Result
    r = Result(rule_id, "generated-source cross-check: in every derived `impl TS` that rustc generates for the repository's integration tests, the types referred to by name() in inline()/inline_flattened() are visited (v.visit::<T>()) and the inlined ones forwarded (visit_dependencies); consistency evidence for the template rules, not a claim of its own")
    syn = extract()
    groups = {}
    for fn in syn.fns:
        if (fn.get("impl_trait") or "").replace(" ", "").endswith("TS") and fn.get("impl_self"):
            groups.setdefault((fn["impl_self"], fn.get("impl_generics"), fn["qual"].rsplit("::", 1)[0]), {})[fn["name"]] = fn
    n = 0
    for (self_ty, gen, _q), fns in sorted(groups.items(), key=lambda kv: (kv[0][0], kv[0][2])):
        if "visit_dependencies" not in fns or "inline" not in fns or "decl" not in fns or "output_path" not in fns:
            continue  # not a derived impl
        n += 1
        named, inlined, visited, forwarded, gvis = set(), set(), set(), set(), set()
        for nm in ("inline", "inline_flattened"):
            for e in S.events(fns.get(nm, {"events": []}), "call"):
                m = TS_CALL.match(S.squash(e["func"]))
                if not m or m.group(1) == "Self":
                    continue
                if m.group(2) == "name":
                    named.add(m.group(1))
                elif m.group(2) in ("inline", "inline_flattened"):
                    inlined.add(m.group(1))
        for e in fns["visit_dependencies"]["events"]:
            if e["kind"] == "mcall" and e["method"] == "visit" and e.get("turbofish"):
                visited.add(S.squash(e["turbofish"])[3:-1] if S.squash(e["turbofish"]).startswith("::<") else S.squash(e["turbofish"]))
            elif e["kind"] == "call":
                m = TS_CALL.match(S.squash(e["func"]))
                if m and m.group(2) == "visit_dependencies":
                    forwarded.add(m.group(1))
        for e in fns.get("visit_generics", {"events": []})["events"]:
            if e["kind"] == "mcall" and e["method"] == "visit" and e.get("turbofish"):
                gvis.add(S.squash(e["turbofish"])[3:-1])
        # the item's own type parameters are referenced by name but visited by visit_generics
        params = set(re.findall(r"(?:<|,)([A-Z]\w*)(?::|,|>)", S.squash(gen or "")))
        miss_n = {t for t in named if t not in visited and t not in gvis and t not in params}
        miss_i = {t for t in inlined if t not in forwarded}
        ok = not miss_n and not miss_i
        if n <= 12 or not ok:
            r.inst(impl=S.squash(self_ty), named=sorted(named)[:6], visited=len(visited), inlined=sorted(inlined)[:4], forwarded=len(forwarded), ok=ok)
        else:
            r.instances.append({"impl": S.squash(self_ty), "ok": True})
        if miss_n:
            r.fail(prop, "generated-unvisited-reference %s" % S.squash(self_ty), "generated impl for %s names %s in inline() without visiting it: the template responsible lacks a dependencies.push" % (S.squash(self_ty), sorted(miss_n)),
                   fns["inline"].get("file"), fns["inline"]["line"])
        if miss_i:
            r.fail(prop, "generated-unforwarded-inline %s" % S.squash(self_ty), "generated impl for %s inlines %s without forwarding its dependencies" % (S.squash(self_ty), sorted(miss_i)),
                   fns["inline"].get("file"), fns["inline"]["line"])
    r.stats = {"derived_impls": n}
    r.floor = 340
    return r
