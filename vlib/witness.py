"""Engine C: compile-fail witnesses with compiling twins, run with `cargo +nightly test --doc` in a
scratch directory (removed afterwards).  rustc is the decision procedure."""
import os
import re
import shutil
import tempfile

from vlib import common


def run():
    tmp = tempfile.mkdtemp(prefix="verif-witness-")
    try:
        crate = os.path.join(tmp, "crate")
        shutil.copytree(os.path.join(common.VERIF, "witness", "template"), crate)
        s = open(os.path.join(crate, "Cargo.toml.in")).read().replace("@REPO@", common.REPO)
        open(os.path.join(crate, "Cargo.toml"), "w").write(s)
        os.remove(os.path.join(crate, "Cargo.toml.in"))
        lock = os.path.join(common.REPO, "Cargo.lock")
        if os.path.exists(lock):
            shutil.copy(lock, os.path.join(crate, "Cargo.lock"))
        env = dict(os.environ, CARGO_TARGET_DIR=os.path.join(tmp, "target"), CARGO_NET_OFFLINE="true")
        r = common.sh(["cargo", "+nightly", "test", "--doc", "--offline"], cwd=crate, env=env)
        out = r.stdout + "\n" + r.stderr
        tests = re.findall(r"^test (src/lib\.rs - \S+ \(line \d+\)(?: - compile fail| - compile)?) \.\.\. (\w+)", out, re.M)
        if not tests:
            raise common.InfraError("witness crate did not run:\n" + out[-2500:])
        return [{"witness": t, "result": res} for t, res in tests], r.returncode
    finally:
        shutil.rmtree(tmp, ignore_errors=True)


_cache = {}


def rule(prop, names, rule_id):
    """Result for the witnesses whose doc item name is in `names` (thorough tier only)."""
    from vlib.common import Result
    r = Result(rule_id, "type-level / compile-fail witnesses compiled by rustc against the current tree (each compile_fail has a compiling twin); a witness that stops failing, or a twin that stops compiling, is a violation")
    if "res" not in _cache:
        _cache["res"] = run()
    res, rc = _cache["res"]
    per = {}
    for w in res:
        m = re.match(r"src/lib\.rs - (\S+) \(line (\d+)\)( - compile fail| - compile)?", w["witness"])
        if not m or m.group(1) not in names:
            continue
        kind = (m.group(3) or "").replace(" - ", "") or "run"
        per.setdefault((m.group(1), kind), []).append((int(m.group(2)), w["result"]))
    for (name, kind), lst in sorted(per.items()):
        for n, (line, result) in enumerate(sorted(lst)):
            r.inst(witness=name, kind=kind, ordinal=n, result=result)
            if result != "ok":
                r.fail(prop, "witness-failed %s %s #%d" % (name, kind, n),
                       "witness %s (%s, #%d in witness/template/src/lib.rs line %d) %s" % (name, kind, n, line,
                       "now compiles: the rejected program is accepted" if kind == "compile fail" else "no longer compiles"),
                       "witness/template/src/lib.rs", line)
    r.floor = 1
    return r
