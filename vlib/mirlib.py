"""Engine B analysis library over mirfacts JSON: CFG, dominators, reachability, call graph,
lock regions, `?`-success edges, value-origin slicing.  Python stdlib only."""
import re
from collections import defaultdict, deque


class Body:
    def __init__(self, raw, crate):
        self.raw = raw
        self.crate = crate
        self.path = raw["path"]
        self.kind = raw["kind"]
        self.blocks = raw["blocks"]
        self.locals = raw["locals"]
        self.span = raw["span"]
        self.n = len(self.blocks)
        self._succ = None
        self._pred = None
        self._idom = {}
        self._ipdom = None

    # ---- basic accessors
    def file(self):
        return self.span.get("file")

    def line(self):
        return self.span.get("line")

    def local_name(self, l):
        return self.locals[l]["name"]

    def local_ty(self, l):
        return self.locals[l]["ty"]

    def term(self, b):
        return self.blocks[b]["term"]

    def stmts(self, b):
        return self.blocks[b]["stmts"]

    def is_cleanup(self, b):
        return self.blocks[b]["cleanup"]

    # ---- CFG
    def edges(self, b, unwind=False):
        """list of (label, target)"""
        t = self.term(b)
        k = t["k"]
        out = []
        if k == "goto":
            out.append(("goto", t["target"]))
        elif k == "switch":
            for v, tg in t["targets"]:
                out.append((v, tg))
            out.append(("otherwise", t["otherwise"]))
        elif k in ("call", "drop", "assert"):
            if t.get("target") is not None:
                out.append(("ret", t["target"]))
            if unwind and t.get("unwind") is not None:
                out.append(("unwind", t["unwind"]))
        return out

    def succ(self, b, unwind=False):
        return [tg for _, tg in self.edges(b, unwind)]

    def succs(self):
        if self._succ is None:
            self._succ = [self.succ(b) for b in range(self.n)]
        return self._succ

    def preds(self):
        if self._pred is None:
            p = [[] for _ in range(self.n)]
            for b in range(self.n):
                for s in self.succs()[b]:
                    p[s].append(b)
            self._pred = p
        return self._pred

    def reachable_from(self, starts, stop=None, unwind=False):
        """blocks reachable from `starts` (inclusive); `stop(b)` true => do not expand b's successors."""
        seen = set()
        dq = deque(starts)
        while dq:
            b = dq.popleft()
            if b in seen:
                continue
            seen.add(b)
            if stop and stop(b):
                continue
            for s in self.succ(b, unwind):
                if s not in seen:
                    dq.append(s)
        return seen

    def dominators(self, entry=0):
        """immediate-dominator-free representation: dom[b] = set of blocks dominating b (normal edges)."""
        if entry in self._idom:
            return self._idom[entry]
        reach = self.reachable_from([entry])
        order = sorted(reach)
        dom = {b: set(reach) for b in reach}
        dom[entry] = {entry}
        preds = self.preds()
        changed = True
        while changed:
            changed = False
            for b in order:
                if b == entry:
                    continue
                ps = [p for p in preds[b] if p in reach]
                if not ps:
                    new = {b}
                else:
                    new = set.intersection(*[dom[p] for p in ps]) | {b}
                if new != dom[b]:
                    dom[b] = new
                    changed = True
        self._idom[entry] = dom
        return dom

    def dominates(self, a, b):
        d = self.dominators()
        return b in d and a in d[b]

    def returns(self):
        return [b for b in range(self.n) if self.term(b)["k"] == "return"]

    def calls(self):
        for b in range(self.n):
            t = self.term(b)
            if t["k"] == "call":
                yield b, t

    def all_paths_pass(self, start, through, goals):
        """True iff every path start -> any goal passes a block in `through` (normal edges).
        Equivalent: goal not reachable from start when `through` blocks are removed."""
        through = set(through)
        if start in through:
            return True
        r = self.reachable_from([start], stop=lambda b: b in through)
        r -= through
        return not (r & set(goals))


def callee(t):
    f = t.get("fn")
    if not f:
        return None
    return f.get("path")


def callee_res(t):
    f = t.get("fn")
    if not f:
        return None
    return f.get("res") or f.get("path")


def fn_matches(t, *patterns):
    """True if the call's path or resolved path matches any regex (search)."""
    f = t.get("fn")
    if not f:
        return False
    for name in (f.get("path"), f.get("res"), f.get("full"), f.get("res_full")):
        if name:
            for p in patterns:
                if re.search(p, name):
                    return True
    return False


def op_local(op):
    """local index of a bare-local operand (copy/move _n), else None"""
    if op["k"] in ("copy", "move") and not op["pl"]["p"]:
        return op["pl"]["l"]
    return None


def op_place(op):
    if op["k"] in ("copy", "move"):
        return op["pl"]
    return None


def op_const(op):
    if op["k"] == "const":
        return op["c"]
    return None


class Crate:
    def __init__(self, raw):
        self.raw = raw
        self.name = raw["crate"]
        self.bodies = [Body(b, self.name) for b in raw["bodies"]]
        self.by_path = defaultdict(list)
        for b in self.bodies:
            self.by_path[b.path].append(b)
        self.impls = raw["impls"]

    def body(self, path):
        """unique body whose def path equals `path` (or ends with ::path)"""
        c = self.by_path.get(path)
        if c:
            return c[0]
        cand = [b for b in self.bodies if b.path.endswith("::" + path) or b.path == path]
        if len(cand) == 1:
            return cand[0]
        return None

    def find(self, regex):
        return [b for b in self.bodies if re.search(regex, b.path)]

    # ---- call graph
    def call_targets(self, body, t, no_impls_of=()):
        """local bodies a call terminator may enter.  For traits named in `no_impls_of`, unresolved
        dispatch is followed only into the trait's default method, not into local impls."""
        f = t.get("fn")
        if not f:
            return []
        out = []
        res = f.get("res")
        if res and res in self.by_path and f.get("res_krate") == self.name:
            # resolved to a local item (possibly generic): exact
            if not (f.get("trait") and res == f.get("path")):
                return list(self.by_path[res])
        # unresolved trait method: all local impls of that trait method
        if f.get("trait"):
            tr = f["trait"]
            meth = f["path"].rsplit("::", 1)[-1]
            for b in (self.bodies if tr.split("::")[-1] not in no_impls_of else []):
                it = b.raw.get("impl_trait")
                if it and _trait_eq(it, tr) and b.raw.get("assoc_name") == meth:
                    out.append(b)
            # default method body in trait itself
            for b in self.by_path.get(f["path"], []):
                out.append(b)
            return out
        p = f.get("path")
        if p in self.by_path and f.get("krate") == self.name:
            return list(self.by_path[p])
        return out

    def address_taken(self, body):
        """fn items / closures mentioned as values in the body (passed to adaptors etc.)"""
        out = []

        def visit_op(op):
            c = op_const(op)
            if c:
                if "fn" in c:
                    out.append(("fn", c["fn"]))
                if "closure" in c:
                    out.append(("closure", c["closure"]))

        for b in range(body.n):
            for st in body.stmts(b):
                if st["k"] != "assign":
                    continue
                rv = st["rv"]
                if rv["k"] == "agg":
                    if "closure" in rv:
                        out.append(("closure", rv["closure"]))
                    for o in rv["ops"]:
                        visit_op(o)
                elif rv["k"] in ("use", "cast", "repeat"):
                    visit_op(rv["op"])
            t = body.term(b)
            if t["k"] == "call":
                for a in t["args"]:
                    visit_op(a)
        return out

    def callgraph(self, no_impls_of=()):
        g = defaultdict(set)
        for body in self.bodies:
            for _, t in body.calls():
                for tb in self.call_targets(body, t, no_impls_of):
                    g[body.path].add(tb.path)
            for kind, v in self.address_taken(body):
                if kind == "closure":
                    if v in self.by_path:
                        g[body.path].add(v)
                else:
                    fake = {"fn": v}
                    for tb in self.call_targets(body, fake, no_impls_of):
                        g[body.path].add(tb.path)
        return g

    def reachable_bodies(self, roots, no_impls_of=()):
        g = self.callgraph(no_impls_of)
        seen = set()
        dq = deque(roots)
        parent = {}
        while dq:
            p = dq.popleft()
            if p in seen:
                continue
            seen.add(p)
            for q in sorted(g.get(p, ())):
                if q not in seen:
                    parent.setdefault(q, p)
                    dq.append(q)
        return seen, parent


def _trait_eq(a, b):
    """compare trait paths ignoring generic args and leading crate qualifiers"""
    def norm(x):
        x = re.sub(r"<.*>", "", x)
        return x.split("::")[-1]
    return norm(a) == norm(b)


# ------------------------------------------------------------------ `?` success edges

def try_edges(body):
    """For each `Try::branch` call: (block_of_branch_call, operand_local, continue_block, break_block).
    The switch on the ControlFlow discriminant follows in the target block."""
    out = []
    for b, t in body.calls():
        if not fn_matches(t, r"ops::Try::branch$", r"as std::ops::Try>::branch$"):
            continue
        tgt = t.get("target")
        if tgt is None:
            continue
        sw = body.term(tgt)
        if sw["k"] != "switch":
            continue
        cont = brk = None
        for v, tg in sw["targets"]:
            if v == 0:
                cont = tg
            elif v == 1:
                brk = tg
        arg = op_local(t["args"][0]) if t["args"] else None
        out.append({"call_block": b, "arg": arg, "cont": cont, "brk": brk, "switch_block": tgt, "dst": t["dst"]["l"]})
    return out


def def_sites(body, local):
    """(block, idx or 'term', rvalue/terminator) assigning to bare `local`"""
    out = []
    for b in range(body.n):
        for i, st in enumerate(body.stmts(b)):
            if st["k"] == "assign" and st["dst"]["l"] == local and not st["dst"]["p"]:
                out.append((b, i, st))
        t = body.term(b)
        if t["k"] == "call" and t["dst"]["l"] == local and not t["dst"]["p"]:
            out.append((b, "term", t))
    return out


IDENTITY_CALLS = [
    r"convert::AsRef.*::as_ref$", r"::as_ref$", r"borrow::ToOwned::to_owned$", r"::to_owned$", r"clone::Clone::clone$",
    r"::to_path_buf$", r"convert::Into::into$", r"convert::From::from$", r"ops::Deref::deref$", r"ops::DerefMut::deref_mut$",
    r"::as_path$", r"borrow::Borrow::borrow$", r"::as_deref$", r"::as_mut$", r"::to_string$", r"::as_str$", r"::into_iter$",
]


def origins(body, local, max_steps=4000, identity=IDENTITY_CALLS, through_try=True):
    """Backward slice from `local` to the calls / args / constants its value derives from.
    Returns list of dicts: {"kind": "call", "t": terminator, "block": b} | {"kind":"arg","local":n}
    | {"kind":"const","c":...} | {"kind":"agg","rv":...} | {"kind":"unknown"}.
    Follows moves/copies/refs/field projections (to the base local), `?` payload extraction, and
    identity-like callees (continuing into their first argument, and all arguments for `join`)."""
    seen = set()
    out = []
    if local is None:
        return out
    work = [local]
    steps = 0
    tries = {e["dst"]: e for e in try_edges(body)} if through_try else {}
    while work and steps < max_steps:
        l = work.pop()
        steps += 1
        if l in seen:
            continue
        seen.add(l)
        if 1 <= l <= body.raw["arg_count"]:
            out.append({"kind": "arg", "local": l})
            # arguments may also be reassigned; continue to look at defs
        defs = def_sites(body, l)
        if not defs and not (1 <= l <= body.raw["arg_count"]):
            out.append({"kind": "unknown", "local": l})
        for b, i, d in defs:
            if i == "term":
                t = d
                if l in tries:
                    # l = Try::branch(x): value derives from x
                    a = tries[l]["arg"]
                    if a is not None:
                        work.append(a)
                    continue
                if fn_matches(t, *identity) and t["args"]:
                    a = op_local(t["args"][0])
                    pl = op_place(t["args"][0])
                    if pl is not None:
                        work.append(pl["l"])
                        continue
                    c = op_const(t["args"][0])
                    if c is not None:
                        out.append({"kind": "const", "c": c, "block": b})
                        continue
                if fn_matches(t, r"path::Path::join$", r"PathBuf::join$"):
                    out.append({"kind": "call", "t": t, "block": b})
                    for a in t["args"]:
                        pl = op_place(a)
                        if pl is not None:
                            work.append(pl["l"])
                    continue
                out.append({"kind": "call", "t": t, "block": b})
            else:
                rv = d["rv"]
                k = rv["k"]
                if k == "use" or k == "cast":
                    op = rv["op"]
                    pl = op_place(op)
                    if pl is not None:
                        work.append(pl["l"])
                    else:
                        out.append({"kind": "const", "c": op_const(op), "block": b})
                elif k in ("ref", "rawptr", "discr"):
                    work.append(rv["pl"]["l"])
                elif k == "agg":
                    out.append({"kind": "agg", "rv": rv, "block": b})
                    for o in rv["ops"]:
                        pl = op_place(o)
                        if pl is not None:
                            work.append(pl["l"])
                else:
                    out.append({"kind": "other", "rv": rv, "block": b})
    return out


def lock_regions(body):
    """For each `Mutex::lock` call: the guard local(s) and the set of blocks executed while the guard
    is live (reachable from the lock's return edge without passing a drop of the guard)."""
    regions = []
    for b, t in body.calls():
        if not fn_matches(t, r"sync::Mutex::<T>::lock$", r"sync::(poison::)?(mutex::)?Mutex.*::lock$"):
            continue
        # guard locals: dst of lock(), then anything it is moved/unwrapped into
        guards = {t["dst"]["l"]}
        changed = True
        while changed:
            changed = False
            for bb, tt in body.calls():
                if tt["args"]:
                    a = op_local(tt["args"][0])
                    if a in guards and fn_matches(tt, r"Result::<T, E>::(unwrap|expect|unwrap_or_else)$", r"::into_inner$"):
                        if tt["dst"]["l"] not in guards:
                            guards.add(tt["dst"]["l"])
                            changed = True
            for bb in range(body.n):
                for st in body.stmts(bb):
                    if st["k"] == "assign" and st["rv"]["k"] == "use":
                        pl = op_place(st["rv"]["op"])
                        if pl and pl["l"] in guards and st["rv"]["op"]["k"] == "move" and not st["dst"]["p"]:
                            if st["dst"]["l"] not in guards:
                                guards.add(st["dst"]["l"])
                                changed = True
        guard_tys = {g for g in guards if "MutexGuard" in body.local_ty(g) and not body.local_ty(g).startswith("std::result")}

        def is_guard_drop(bb):
            tt = body.term(bb)
            if tt["k"] == "drop" and tt["pl"]["l"] in guard_tys and not tt["pl"]["p"]:
                return True
            if tt["k"] == "call" and fn_matches(tt, r"mem::drop$") and tt["args"] and op_local(tt["args"][0]) in guard_tys:
                return True
            return False

        start = t.get("target")
        if start is None:
            continue
        region = body.reachable_from([start], stop=is_guard_drop)
        drops = {x for x in region if is_guard_drop(x)}
        regions.append({"lock_block": b, "guards": guards, "guard_locals": guard_tys, "region": region, "drops": drops, "t": t})
    return regions


def span_key(sp):
    return "%s:%s" % (sp.get("file"), sp.get("line"))


def user_span(sp):
    """file:line of the outermost call site for macro-expanded code"""
    if sp.get("exp") and sp.get("cs_file"):
        return sp["cs_file"], sp["cs_line"]
    return sp.get("file"), sp.get("line")
