"""Engine B analysis library over mirfacts JSON: CFG, dominators, reachability, call graph,
lock regions, `?`-success edges, value-origin slicing.  Python stdlib only."""
import os
import re
from collections import defaultdict, deque


class Body:
    def __init__(self, raw, crate):
        self.raw = raw
        self.crate = crate
        self.path = raw["path"]
        self.kind = raw["kind"]
        self.blocks = raw["blocks"]
        self.locals = raw["locals"]
        self.span = raw["span"]
        self.n = len(self.blocks)
        self._succ = None
        self._pred = None
        self._idom = {}
        self._ipdom = None

    # ---- basic accessors
    def file(self):
        return self.span.get("file")

    def line(self):
        return self.span.get("line")

    def local_name(self, l):
        return self.locals[l]["name"]

    def local_ty(self, l):
        return self.locals[l]["ty"]

    def term(self, b):
        return self.blocks[b]["term"]

    def stmts(self, b):
        return self.blocks[b]["stmts"]

    def is_cleanup(self, b):
        return self.blocks[b]["cleanup"]

    # ---- CFG
    def edges(self, b, unwind=False):
        """list of (label, target)"""
        t = self.term(b)
        k = t["k"]
        out = []
        if k == "goto":
            out.append(("goto", t["target"]))
        elif k == "switch":
            for v, tg in t["targets"]:
                out.append((v, tg))
            out.append(("otherwise", t["otherwise"]))
        elif k in ("call", "drop", "assert"):
            if t.get("target") is not None:
                out.append(("ret", t["target"]))
            if unwind and t.get("unwind") is not None:
                out.append(("unwind", t["unwind"]))
        return out

    def succ(self, b, unwind=False):
        return [tg for _, tg in self.edges(b, unwind)]

    def succs(self):
        if self._succ is None:
            self._succ = [self.succ(b) for b in range(self.n)]
        return self._succ

    def preds(self):
        if self._pred is None:
            p = [[] for _ in range(self.n)]
            for b in range(self.n):
                for s in self.succs()[b]:
                    p[s].append(b)
            self._pred = p
        return self._pred

    def reachable_from(self, starts, stop=None, unwind=False):
        """blocks reachable from `starts` (inclusive); `stop(b)` true => do not expand b's successors."""
        seen = set()
        dq = deque(starts)
        while dq:
            b = dq.popleft()
            if b in seen:
                continue
            seen.add(b)
            if stop and stop(b):
                continue
            for s in self.succ(b, unwind):
                if s not in seen:
                    dq.append(s)
        return seen

    def dominators(self, entry=0):
        """immediate-dominator-free representation: dom[b] = set of blocks dominating b (normal edges)."""
        if entry in self._idom:
            return self._idom[entry]
        reach = self.reachable_from([entry])
        order = sorted(reach)
        dom = {b: set(reach) for b in reach}
        dom[entry] = {entry}
        preds = self.preds()
        changed = True
        while changed:
            changed = False
            for b in order:
                if b == entry:
                    continue
                ps = [p for p in preds[b] if p in reach]
                if not ps:
                    new = {b}
                else:
                    new = set.intersection(*[dom[p] for p in ps]) | {b}
                if new != dom[b]:
                    dom[b] = new
                    changed = True
        self._idom[entry] = dom
        return dom

    def dominates(self, a, b):
        d = self.dominators()
        return b in d and a in d[b]

    def returns(self):
        return [b for b in range(self.n) if self.term(b)["k"] == "return"]

    def calls(self):
        for b in range(self.n):
            t = self.term(b)
            if t["k"] == "call":
                yield b, t

    def all_paths_pass(self, start, through, goals):
        """True iff every path start -> any goal passes a block in `through` (normal edges).
        Equivalent: goal not reachable from start when `through` blocks are removed."""
        through = set(through)
        if start in through:
            return True
        r = self.reachable_from([start], stop=lambda b: b in through)
        r -= through
        return not (r & set(goals))


def callee(t):
    f = t.get("fn")
    if not f:
        return None
    return f.get("path")


def callee_res(t):
    f = t.get("fn")
    if not f:
        return None
    return f.get("res") or f.get("path")


def fn_matches(t, *patterns):
    """True if the call's path or resolved path matches any regex (search)."""
    f = t.get("fn")
    if not f:
        return False
    for name in (f.get("path"), f.get("res"), f.get("full"), f.get("res_full")):
        if name:
            for p in patterns:
                if re.search(p, name):
                    return True
    return False


def op_local(op):
    """local index of a bare-local operand (copy/move _n), else None"""
    if op["k"] in ("copy", "move") and not op["pl"]["p"]:
        return op["pl"]["l"]
    return None


def op_place(op):
    if op["k"] in ("copy", "move"):
        return op["pl"]
    return None


def op_const(op):
    if op["k"] == "const":
        return op["c"]
    return None


class Crate:
    def __init__(self, raw):
        self.raw = raw
        self.name = raw["crate"]
        self.bodies = [Body(b, self.name) for b in raw["bodies"]]
        self.by_path = defaultdict(list)
        for b in self.bodies:
            self.by_path[b.path].append(b)
        self.impls = raw["impls"]
        self._inl = {}

    def body(self, path, inline=False):
        """unique body whose def path equals `path` (or ends with ::path); `inline=True`: with the crate-local
        helpers it calls spliced in (see inline_raw)"""
        c = self.by_path.get(path)
        b = None
        if c:
            b = c[0]
        else:
            cand = [b for b in self.bodies if b.path.endswith("::" + path) or b.path == path]
            if len(cand) == 1:
                b = cand[0]
        if b is None or not inline or os.environ.get("VERIF_NO_INLINE"):
            return b
        return self.inlined(b)

    def find(self, regex):
        return [b for b in self.bodies if re.search(regex, b.path)]

    def ibody(self, path):
        return self.body(path, inline=True)

    def inlined(self, path, depth=3, no_impls_of=("TS",), siblings=None):
        """the body at `path` with crate-local helper calls spliced in (see inline_raw); None if there is no such body.
        `siblings`: functions that share helpers with this one (the methods of one impl): a helper all of whose call sites
        lie in them is spliced in as well."""
        b = path if isinstance(path, Body) else self.body(path)
        if b is None:
            return None
        key = (b.path, depth, tuple(no_impls_of), id(siblings) if siblings is not None else None)
        if key not in self._inl and siblings is not None:
            own = self.owned_by(set(siblings) | {b.path}, no_impls_of)
            nb = Body(inline_raw(self, b, depth, no_impls_of, only=own), self.name)
            nb.plain = b
            self._inl[key] = nb
        if key not in self._inl:
            # what is spliced in: the functions that exist only as parts of this one (all their call sites lie in it or in
            # such parts).  Functions shared with other callers keep their own identity and stay calls.
            nb = Body(inline_raw(self, b, depth, no_impls_of, only=self.owned_by(b.path, no_impls_of)), self.name)
            nb.plain = b
            self._inl[key] = nb
        return self._inl[key]

    def owned_by(self, owner, no_impls_of=("TS",)):
        """paths of bodies that only run as part of `owner`: owner itself, its closures, and every function all of whose
        call sites in the crate lie in such bodies (helpers the owner was split into)"""
        okey = ("own", owner if isinstance(owner, str) else frozenset(owner), tuple(no_impls_of))
        if okey in self._inl:
            return self._inl[okey]
        ckey = ("callers", tuple(no_impls_of))
        if ckey not in self._inl:
            callers = defaultdict(set)
            for p, qs in self.callgraph(no_impls_of).items():
                for q in qs:
                    callers[q].add(p)
            self._inl[ckey] = callers
        callers = self._inl[ckey]
        own = {owner} if isinstance(owner, str) else set(owner)
        changed = True
        while changed:
            changed = False
            for b in self.bodies:
                p = b.path
                if p in own:
                    continue
                base = re.sub(r"::\{closure#\d+\}.*$", "", p)
                if base != p and base in own:
                    own.add(p)
                    changed = True
                    continue
                cs = set(callers.get(p) or ()) - {p}        # recursion does not make a function somebody else's
                if cs and all(c in own for c in cs) and b.raw.get("vis", "") != "pub" and not b.raw.get("impl_trait"):
                    own.add(p)
                    changed = True
        self._inl[okey] = own
        return own

    # ---- call graph
    def call_targets(self, body, t, no_impls_of=()):
        """local bodies a call terminator may enter.  For traits named in `no_impls_of`, unresolved
        dispatch is followed only into the trait's default method, not into local impls."""
        f = t.get("fn")
        if not f:
            return []
        out = []
        res = f.get("res")
        if res and res in self.by_path and f.get("res_krate") == self.name:
            # resolved to a local item (possibly generic): exact
            if not (f.get("trait") and res == f.get("path")):
                return list(self.by_path[res])
        # unresolved trait method: all local impls of that trait method
        if f.get("trait"):
            tr = f["trait"]
            meth = f["path"].rsplit("::", 1)[-1]
            for b in (self.bodies if tr.split("::")[-1] not in no_impls_of else []):
                it = b.raw.get("impl_trait")
                if it and _trait_eq(it, tr) and b.raw.get("assoc_name") == meth:
                    out.append(b)
            # default method body in trait itself
            for b in self.by_path.get(f["path"], []):
                out.append(b)
            return out
        p = f.get("path")
        if p in self.by_path and f.get("krate") == self.name:
            return list(self.by_path[p])
        return out

    def address_taken(self, body):
        """fn items / closures mentioned as values in the body (passed to adaptors etc.)"""
        out = []

        def visit_op(op):
            c = op_const(op)
            if c:
                if "fn" in c:
                    out.append(("fn", c["fn"]))
                if "closure" in c:
                    out.append(("closure", c["closure"]))

        for b in range(body.n):
            for st in body.stmts(b):
                if st["k"] != "assign":
                    continue
                rv = st["rv"]
                if rv["k"] == "agg":
                    if "closure" in rv:
                        out.append(("closure", rv["closure"]))
                    for o in rv["ops"]:
                        visit_op(o)
                elif rv["k"] in ("use", "cast", "repeat"):
                    visit_op(rv["op"])
            t = body.term(b)
            if t["k"] == "call":
                for a in t["args"]:
                    visit_op(a)
        return out

    def callgraph(self, no_impls_of=()):
        key = ("cg", tuple(no_impls_of))
        if key in self._inl:
            return self._inl[key]
        g = self._callgraph(no_impls_of)
        self._inl[key] = g
        return g

    def _callgraph(self, no_impls_of=()):
        g = defaultdict(set)
        for body in self.bodies:
            for _, t in body.calls():
                for tb in self.call_targets(body, t, no_impls_of):
                    g[body.path].add(tb.path)
            for kind, v in self.address_taken(body):
                if kind == "closure":
                    if v in self.by_path:
                        g[body.path].add(v)
                else:
                    fake = {"fn": v}
                    for tb in self.call_targets(body, fake, no_impls_of):
                        g[body.path].add(tb.path)
        return g

    def reachable_bodies(self, roots, no_impls_of=()):
        g = self.callgraph(no_impls_of)
        seen = set()
        dq = deque(roots)
        parent = {}
        while dq:
            p = dq.popleft()
            if p in seen:
                continue
            seen.add(p)
            for q in sorted(g.get(p, ())):
                if q not in seen:
                    parent.setdefault(q, p)
                    dq.append(q)
        return seen, parent


# ------------------------------------------------------------------ inlining

def _shift_place(pl, loff):
    return {"l": pl["l"] + loff, "p": [re.sub(r"^\[_(\d+)\]$", lambda m: "[_%d]" % (int(m.group(1)) + loff), x) if isinstance(x, str) else x for x in pl["p"]]}


def _shift(x, loff, boff):
    """deep copy of a MIR JSON fragment with locals and block numbers shifted"""
    if isinstance(x, list):
        return [_shift(y, loff, boff) for y in x]
    if not isinstance(x, dict):
        return x
    if set(x.keys()) == {"l", "p"}:
        return _shift_place(x, loff)
    out = {}
    for k, v in x.items():
        if k in ("target", "unwind", "otherwise") and isinstance(v, int) and not isinstance(v, bool):
            out[k] = v + boff
        elif k == "targets" and isinstance(v, list):
            out[k] = [[a, b + boff] for a, b in v]
        else:
            out[k] = _shift(v, loff, boff)
    return out


def _subst_generics(raw, sub):
    """copy of a body's JSON with type parameter names replaced in the places rules read types from (generic arguments of
    callees, argument / destination / local types)"""
    rx = re.compile(r"(?<![\w:])(" + "|".join(re.escape(k) for k in sorted(sub, key=len, reverse=True)) + r")(?![\w])")

    def rep(x):
        return rx.sub(lambda m: sub[m.group(1)], x)

    def walk(x, key=None):
        if isinstance(x, list):
            return [walk(y, key) for y in x]
        if isinstance(x, dict):
            return {k: walk(v, k) for k, v in x.items()}
        if isinstance(x, str) and key in ("args", "arg_tys", "dst_ty", "ty", "adt_args", "fn_ty", "full", "res_full"):
            return rep(x)
        return x

    out = dict(raw)
    out["blocks"] = walk(raw["blocks"])
    out["locals"] = walk(raw["locals"])
    return out


def inline_raw(crate, body, depth=3, no_impls_of=("TS",), stack=(), budget=6000, memo=None, only=None):
    """raw JSON of `body` with the bodies of crate-local, statically resolved, non-recursive callees spliced in
    (helpers a function was split into are part of what the function does).  The call terminator stays in place as a
    marker whose return edge enters the callee; the callee's `return` assigns the call's destination and continues at the
    call's original target.  Parameters become ordinary locals assigned from the call's arguments."""
    memo = {} if memo is None else memo
    raw = body.raw
    new = dict(raw)
    blocks = [_shift(b, 0, 0) for b in raw["blocks"]]
    locals_ = list(raw["locals"])
    inlined = []
    if depth > 0:
        for bi in range(len(raw["blocks"])):
            t = blocks[bi]["term"]
            if t["k"] != "call" or blocks[bi]["cleanup"] or t.get("target") is None:
                continue
            f = t.get("fn") or {}
            if f.get("trait") and (f.get("res") in (None, f.get("path"))):
                continue  # dynamic / unresolved dispatch
            tg = crate.call_targets(body, t, no_impls_of)
            if len(tg) != 1:
                continue
            cb = tg[0]
            if cb.kind not in ("Fn", "AssocFn") or cb.path in stack or cb.path == body.path:
                continue
            if only is not None and cb.path not in only:
                continue
            if cb.raw["arg_count"] != len(t["args"]):
                continue
            key = (cb.path, depth - 1)
            if key not in memo:
                memo[key] = inline_raw(crate, cb, depth - 1, no_impls_of, stack + (body.path,), budget, memo, only)
            craw = memo[key]
            if len(blocks) + len(craw["blocks"]) > budget:
                continue
            loff, boff = len(locals_), len(blocks)
            # the callee's MIR is generic: rename its type parameters to what this call site passes for them
            gp, ga = craw.get("generic_params") or [], (t.get("fn") or {}).get("args") or []
            sub = {p: a for p, a in zip(gp, ga) if p != a and not p.startswith("'")} if len(gp) == len(ga) else {}
            if sub:
                craw = _subst_generics(craw, sub)
            locals_.extend(dict(l, inl=cb.path) for l in craw["locals"])
            ret_to = t["target"]
            for i, a in enumerate(t["args"]):
                blocks[bi]["stmts"].append({"k": "assign", "dst": {"l": loff + 1 + i, "p": []}, "rv": {"k": "use", "op": a}, "inl_arg": True})
            for cblk in craw["blocks"]:
                nb = _shift(cblk, loff, boff)
                nb["inl_chain"] = [cb.path] + list(nb.get("inl_chain") or [])
                nb["inl"] = nb.get("inl") or cb.path       # the innermost function the block comes from
                nb["inl_site"] = bi
                if nb["term"]["k"] == "return":
                    nb["stmts"].append({"k": "assign", "dst": t["dst"], "rv": {"k": "use", "op": {"k": "move", "pl": {"l": loff, "p": []}}}, "inl_ret": True})
                    nb["term"] = {"k": "goto", "target": ret_to, "span": nb["term"].get("span"), "inl_return": cb.path}
                elif nb["term"]["k"] == "resume" and t.get("unwind") is not None:
                    nb["term"] = {"k": "goto", "target": t["unwind"]}
                blocks.append(nb)
            t["target"] = boff
            t["inl_ret_to"] = ret_to
            t["inlined"] = cb.path
            inlined.append({"callee": cb.path, "site": bi, "first_block": boff, "blocks": len(craw["blocks"]), "first_local": loff,
                            "nested": craw.get("inlined", [])})
    new["blocks"] = blocks
    new["locals"] = locals_
    new["inlined"] = inlined
    return new


def _trait_eq(a, b):
    """compare trait paths ignoring generic args and leading crate qualifiers"""
    def norm(x):
        x = re.sub(r"<.*>", "", x)
        return x.split("::")[-1]
    return norm(a) == norm(b)


# ------------------------------------------------------------------ `?` success edges

def try_edges(body):
    """For each `Try::branch` call: (block_of_branch_call, operand_local, continue_block, break_block).
    The switch on the ControlFlow discriminant follows in the target block."""
    out = []
    for b, t in body.calls():
        if not fn_matches(t, r"ops::Try::branch$", r"as std::ops::Try>::branch$"):
            continue
        tgt = t.get("target")
        if tgt is None:
            continue
        sw = body.term(tgt)
        if sw["k"] != "switch":
            continue
        cont = brk = None
        for v, tg in sw["targets"]:
            if v == 0:
                cont = tg
            elif v == 1:
                brk = tg
        arg = op_local(t["args"][0]) if t["args"] else None
        out.append({"call_block": b, "arg": arg, "cont": cont, "brk": brk, "switch_block": tgt, "dst": t["dst"]["l"]})
    return out


def success_conts(crate, body, rx, pred=None, depth=3, _stack=()):
    """Blocks of `body` that are entered only after a call matching `rx` (and `pred(body, t)`) has returned Ok: the
    continue-edges of `?` applied to such a call - or to a call of a crate-local function that itself returns Ok only
    after such a call (helpers are summarised, not pattern-matched: see ok_only_after)."""
    out = []
    for e in try_edges(body):
        if e["arg"] is None or e["cont"] is None:
            continue
        for o in origins(body, e["arg"], through_try=False):
            if o["kind"] != "call":
                continue
            t = o["t"]
            if fn_matches(t, *([rx] if isinstance(rx, str) else rx)) and (pred is None or pred(body, t)):
                out.append(e["cont"])
            elif depth > 0:
                for cb in crate.call_targets(body.plain if hasattr(body, "plain") else body, t, ("TS",)):
                    if cb.path in _stack or cb.kind not in ("Fn", "AssocFn"):
                        continue
                    if ok_only_after(crate, cb, rx, pred, depth - 1, _stack + (body.path,)):
                        out.append(e["cont"])
    return out


def error_blocks(body):
    """blocks that put an error into the return place: `?` propagation (FromResidual::from_residual) or `_0 = Err(..)`"""
    out = set()
    for b in range(body.n):
        if body.is_cleanup(b):
            continue
        t = body.term(b)
        if t["k"] == "call" and fn_matches(t, r"FromResidual.*::from_residual$") and t["dst"]["l"] == 0:
            out.add(b)
        for st in body.stmts(b):
            if st["k"] == "assign" and st["dst"]["l"] == 0 and not st["dst"]["p"] and st["rv"]["k"] == "agg" and st["rv"].get("variant") == "Err":
                out.add(b)
    return out


def ok_only_after(crate, g, rx, pred=None, depth=2, _stack=()):
    """True iff every path through `g` that does not end in error propagation (`?` break edge, i.e. a
    FromResidual::from_residual call) passes a success continuation of a call matching rx."""
    g = g.plain if hasattr(g, "plain") else g
    conts = success_conts(crate, g, rx, pred, depth, _stack)
    if not conts:
        return False
    through = set(conts) | error_blocks(g)
    return g.all_paths_pass(0, through, g.returns())


def def_sites(body, local):
    """(block, idx or 'term', rvalue/terminator) assigning to bare `local`"""
    out = []
    for b in range(body.n):
        for i, st in enumerate(body.stmts(b)):
            if st["k"] == "assign" and st["dst"]["l"] == local and not st["dst"]["p"]:
                out.append((b, i, st))
        t = body.term(b)
        if t["k"] == "call" and t["dst"]["l"] == local and not t["dst"]["p"]:
            out.append((b, "term", t))
    return out


def real_defs(body, local):
    """def_sites without clean-up blocks; a spliced-in call counts once (the marker call, not the copy-out of its result)"""
    ds = [d for d in def_sites(body, local) if not body.is_cleanup(d[0])]
    if any(i == "term" and d.get("inlined") for _, i, d in ds):
        ds = [d for d in ds if not (d[1] != "term" and d[2].get("inl_ret"))]
    return ds


def value_defs(body, local):
    """def_sites without clean-up blocks; a spliced-in call is looked through (the copy-out of the helper's result is the
    definition, the marker call is dropped)"""
    ds = [d for d in def_sites(body, local) if not body.is_cleanup(d[0])]
    if any(i == "term" and d.get("inlined") for _, i, d in ds):
        ds = [d for d in ds if not (d[1] == "term" and d[2].get("inlined"))]
    return ds


IDENTITY_CALLS = [
    r"convert::AsRef.*::as_ref$", r"::as_ref$", r"borrow::ToOwned::to_owned$", r"::to_owned$", r"clone::Clone::clone$",
    r"::to_path_buf$", r"convert::Into::into$", r"convert::From::from$", r"ops::Deref::deref$", r"ops::DerefMut::deref_mut$",
    r"::as_path$", r"borrow::Borrow::borrow$", r"::as_deref$", r"::as_mut$", r"::to_string$", r"::as_str$", r"::into_iter$",
]


def origins(body, local, max_steps=4000, identity=IDENTITY_CALLS, through_try=True, visited=None, stop=None, transparent=False, component=None):
    """Backward slice from `local` to the calls / args / constants its value derives from.
    Returns list of dicts: {"kind": "call", "t": terminator, "block": b} | {"kind":"arg","local":n}
    | {"kind":"const","c":...} | {"kind":"agg","rv":...} | {"kind":"unknown"}.
    Follows moves/copies/refs/field projections (to the base local), `?` payload extraction, and
    identity-like callees (continuing into their first argument, and all arguments for `join`)."""
    seen = set()
    out = []
    if local is None:
        return out
    work = [local]
    want = {}        # local -> component index asked for (`x.1` of a tuple built elsewhere)
    if component is not None:
        want[local] = component
    steps = 0
    tries = {e["dst"]: e for e in try_edges(body)} if through_try else {}
    while work and steps < max_steps:
        l = work.pop()
        steps += 1
        if l in seen:
            continue
        seen.add(l)
        if visited is not None:
            visited.add(l)
        if 1 <= l <= body.raw["arg_count"]:
            out.append({"kind": "arg", "local": l})
            # arguments may also be reassigned; continue to look at defs
        defs = def_sites(body, l)
        if stop and any(i == "term" and d.get("inlined") and fn_matches(d, *stop) for _, i, d in defs):
            # a spliced-in helper the caller wants to see as one step: report the call, do not look inside
            defs = [(b, i, d) for b, i, d in defs if i == "term"]
        elif transparent and any(i == "term" and d.get("inlined") for _, i, d in defs):
            # spliced-in helpers are looked through: the value is whatever the helper returns
            defs = [(b, i, d) for b, i, d in defs if not (i == "term" and d.get("inlined"))]
        if not defs and not (1 <= l <= body.raw["arg_count"]):
            out.append({"kind": "unknown", "local": l})
        for b, i, d in defs:
            if i == "term":
                t = d
                if l in tries:
                    # l = Try::branch(x): value derives from x
                    a = tries[l]["arg"]
                    if a is not None:
                        work.append(a)
                    continue
                if fn_matches(t, *identity) and t["args"]:
                    a = op_local(t["args"][0])
                    pl = op_place(t["args"][0])
                    if pl is not None:
                        work.append(pl["l"])
                        continue
                    c = op_const(t["args"][0])
                    if c is not None:
                        out.append({"kind": "const", "c": c, "block": b})
                        continue
                if fn_matches(t, r"path::Path::join$", r"PathBuf::join$"):
                    out.append({"kind": "call", "t": t, "block": b})
                    for a in t["args"]:
                        pl = op_place(a)
                        if pl is not None:
                            work.append(pl["l"])
                    continue
                out.append({"kind": "call", "t": t, "block": b})
            else:
                rv = d["rv"]
                k = rv["k"]
                if k == "use" or k == "cast":
                    op = rv["op"]
                    pl = op_place(op)
                    if pl is not None:
                        work.append(pl["l"])
                        comp = [x for x in pl["p"] if x != "*"]
                        if comp and re.match(r"^\.\d+$", comp[0]) and pl["l"] not in seen:
                            want[pl["l"]] = int(comp[0][1:])
                        elif not comp and want.get(l) is not None:
                            want[pl["l"]] = want[l]      # a move of the whole tuple
                    else:
                        out.append({"kind": "const", "c": op_const(op), "block": b})
                elif k in ("ref", "rawptr", "discr"):
                    work.append(rv["pl"]["l"])
                elif k == "agg":
                    out.append({"kind": "agg", "rv": rv, "block": b})
                    ops = rv["ops"]
                    if rv.get("tuple") and want.get(l) is not None and want[l] < len(ops):
                        ops = [ops[want[l]]]      # only the component that was asked for
                    for o in ops:
                        pl = op_place(o)
                        if pl is not None:
                            work.append(pl["l"])
                        elif op_const(o) is not None and rv.get("tuple") and want.get(l) is not None:
                            out.append({"kind": "const", "c": op_const(o), "block": b})
                else:
                    out.append({"kind": "other", "rv": rv, "block": b})
    return out


def deep_slice(body, local, max_steps=6000, component=None):
    """Every call whose result can flow into `local` (transitive backward data dependence: through moves, borrows,
    field projections, aggregates - closure captures included - and *all* arguments of every call on the way).
    `component`: `local` is a tuple and only its n-th component is of interest (followed into the tuple's construction).
    Returns (calls, params, consts): the call terminators, the parameter locals and the constants reached."""
    seen, work = set(), [local]
    want = {local: component} if component is not None else {}
    calls, params, consts = [], set(), []
    steps = 0
    while work and steps < max_steps:
        l = work.pop()
        steps += 1
        if l is None or l in seen:
            continue
        seen.add(l)
        if 1 <= l <= body.raw["arg_count"]:
            params.add(l)
        defs = def_sites(body, l)
        if want.get(l) is not None and any(i == "term" and d.get("inlined") for _, i, d in defs):
            defs = [(b, i, d) for b, i, d in defs if not (i == "term" and d.get("inlined"))]     # look into the helper that built the tuple
        for b, i, d in defs:
            if body.is_cleanup(b):
                continue
            if i == "term":
                calls.append((b, d))
                for a in d["args"]:
                    pl = op_place(a)
                    if pl is not None:
                        work.append(pl["l"])
                    elif op_const(a) is not None:
                        consts.append(op_const(a))
            else:
                rv = d["rv"]
                k = rv["k"]
                ops = []
                if k in ("use", "cast", "repeat"):
                    ops = [rv["op"]]
                    pl = op_place(rv["op"])
                    if pl is not None:
                        comp = [x for x in pl["p"] if x != "*"]
                        if comp and re.match(r"^\.\d+$", comp[0]) and pl["l"] not in seen:
                            want[pl["l"]] = int(comp[0][1:])
                        elif not comp and want.get(l) is not None:
                            want[pl["l"]] = want[l]
                elif k in ("ref", "rawptr", "discr"):
                    work.append(rv["pl"]["l"])
                    comp = [x for x in rv["pl"]["p"] if x != "*"]
                    if comp and re.match(r"^\.\d+$", comp[0]) and rv["pl"]["l"] not in seen:
                        want[rv["pl"]["l"]] = int(comp[0][1:])
                elif k == "agg":
                    ops = rv["ops"]
                    if rv.get("tuple") and want.get(l) is not None and want[l] < len(ops):
                        ops = [ops[want[l]]]
                elif k == "binop":
                    ops = [rv["a"], rv["b"]]
                elif k == "unop":
                    ops = [rv["a"]]
                for o in ops:
                    pl = op_place(o)
                    if pl is not None:
                        work.append(pl["l"])
                    elif op_const(o) is not None:
                        consts.append(op_const(o))
    return calls, params, consts


def flag_polarity(body, discr_local, steps=20):
    """(call, positive): the call that produced a boolean, looking through copies and `!`; positive is False when an odd
    number of negations (or a `ne`) lies between the call and the switch"""
    cur, pos = discr_local, True
    for _ in range(steps):
        ds = [d for d in def_sites(body, cur) if not body.is_cleanup(d[0])]
        if len(ds) != 1:
            return None, pos
        b, i, d = ds[0]
        if i == "term":
            if fn_matches(d, r"PartialEq.*::ne$", r"cmp::PartialEq::ne$"):
                pos = not pos
            return d, pos
        rv = d["rv"]
        if rv["k"] == "unop" and rv["op"] == "Not":
            pos = not pos
            nxt = op_place(rv["a"])
        elif rv["k"] in ("use", "cast"):
            nxt = op_place(rv["op"])
        else:
            return None, pos
        if nxt is None:
            return None, pos
        cur = nxt["l"]
    return None, pos


ARG = "\x01"


def _bytes_lit(dbg):
    """b"..." debug rendering -> bytes"""
    m = re.match(r'^b"(.*)"$', dbg or "", re.S)
    if not m:
        return None
    body = m.group(1)
    out = bytearray()
    i = 0
    esc = {"n": 10, "r": 13, "t": 9, "\\": 92, "0": 0, '"': 34, "'": 39}
    while i < len(body):
        ch = body[i]
        if ch == "\\" and i + 1 < len(body):
            nx = body[i + 1]
            if nx == "x":
                out.append(int(body[i + 2:i + 4], 16))
                i += 4
                continue
            out.append(esc.get(nx, ord(nx)))
            i += 2
            continue
        out.extend(ch.encode())
        i += 1
    return bytes(out)


def fmt_template(raw):
    """decode rustc's compact format-string encoding (length-prefixed literal pieces, 0xC0.. = an argument, 0 = end)
    into a string with ARG placeholders; None if the bytes do not look like one"""
    if raw is None:
        return None
    out, i = "", 0
    while i < len(raw):
        b = raw[i]
        if b == 0:
            return out
        if b >= 0xC0:
            out += ARG
            i += 1
            # argument descriptors may be followed by option bytes: skip bytes >= 0x80 that are not a length
            continue
        if b >= 0x80:
            # two-byte length
            if i + 1 >= len(raw):
                return None
            n = ((b & 0x7F) | (raw[i + 1] << 7))
            i += 2
        else:
            n = b
            i += 1
        out += raw[i:i + n].decode("utf-8", "replace")
        i += n
    return out


def text_emissions(body, into_ty=r"string::String|fmt::Formatter|dyn std::fmt::Write"):
    """Literal text a function appends to a String / formatter, in reverse post-order of the CFG: a list of
    (block, text, loop?) where text has ARG for every interpolated value.  Covers write!/writeln!/format! templates,
    push_str("lit"), push('c') and join("sep")."""
    order = rpo(body)
    pos = {b: i for i, b in enumerate(order)}
    ems = []
    for b in order:
        if body.is_cleanup(b):
            continue
        t = body.term(b)
        if t["k"] != "call":
            continue
        txt = None
        if fn_matches(t, r"fmt::Arguments::<'_>::from_str(_nonconst)?$", r"fmt::Arguments::<'a>::from_str(_nonconst)?$", r"fmt::Arguments.*::new_const"):
            c = op_const(t["args"][0]) if t["args"] else None
            txt = (c or {}).get("str")
        elif fn_matches(t, r"fmt::Arguments::<'_>::new$", r"fmt::Arguments::<'a>::new$", r"fmt::Arguments.*::new::"):
            for a in t["args"]:
                l = op_local(a)
                if l is None:
                    continue
                for o in origins(body, l, identity=[]):
                    if o["kind"] == "const" and o.get("c") and str(o["c"].get("ty", "")).startswith("&[u8"):
                        tt = fmt_template(_bytes_lit(o["c"].get("dbg")))
                        if tt is not None and txt is None:
                            txt = tt
        elif fn_matches(t, r"string::String::push_str$") and len(t["args"]) > 1:
            c = op_const(t["args"][1])
            if c is None and op_local(t["args"][1]) is not None:
                cs = [o for o in origins(body, op_local(t["args"][1])) ]
                if len(cs) == 1 and cs[0]["kind"] == "const":
                    c = cs[0]["c"]
                elif len(cs) > 1 and all(o["kind"] == "const" and (o["c"] or {}).get("str") is not None for o in cs):
                    # a separator variable: `let mut sep = ""; for x in .. { buf.push_str(sep); ..; sep = ", " }` - what it
                    # holds the first time round belongs to the text in front, what the loop assigns separates the items
                    first = [o["c"]["str"] for o in cs if pos.get(o["block"], 0) <= pos.get(b, 0)]
                    later = [o["c"]["str"] for o in cs if pos.get(o["block"], 0) > pos.get(b, 0)]
                    if len(first) == 1 and len(set(later)) == 1:
                        if first[0]:
                            ems.append((b, first[0]))
                        ems.append((b, later[0]))
                        continue
            txt = c.get("str") if c and c.get("str") is not None else ARG
        elif fn_matches(t, r"<std::string::String as std::convert::From<&str>>::from$", r"String as .*From<&str>>::from$", r"str::<impl str>::to_owned$", r"borrow::ToOwned::to_owned$", r"string::ToString::to_string$") \
                and t["args"] and (op_const(t["args"][0]) or {}).get("str") is not None and "String" in (t.get("dst_ty") or ""):
            txt = op_const(t["args"][0])["str"]      # the text a buffer starts with
        elif fn_matches(t, r"string::String::push$") and len(t["args"]) > 1:
            c = op_const(t["args"][1]) or {}
            txt = chr(c["int"]) if isinstance(c.get("int"), int) else (c.get("char") if c.get("char") else ARG)
        elif fn_matches(t, r"slice::<impl \[.*\]>::join$") and len(t["args"]) > 1:
            c = op_const(t["args"][1])
            if c is None and op_place(t["args"][1]) is not None:
                cs = origins(body, op_place(t["args"][1])["l"])
                c = cs[0]["c"] if len(cs) == 1 and cs[0]["kind"] == "const" else None
            if c and c.get("str") is not None:
                txt = "<join:%s>" % c["str"]
        if txt is not None and fn_matches(t, r"fmt::Arguments"):
            # only text that is written somewhere (not the message of a panic)
            sinks = _consumers(body, t["dst"]["l"])
            if not any(fn_matches(u, r"Write::write_fmt$", r"fmt::format$", r"Formatter::<'_>::write_fmt$", r"Formatter.*::write_fmt$", r"::write_fmt$") for u in sinks):
                txt = None
        if txt is not None:
            ems.append((b, txt))
    return ems


def group_emissions(crate, fn_path):
    """text emissions of a function with its helpers spliced in, followed by those of the closures it (or a helper) defines"""
    b = crate.ibody(fn_path)
    if b is None:
        return []
    ems = list(text_emissions(b))
    group = crate.owned_by(fn_path)
    for cb in crate.bodies:
        if cb.kind == "Closure" and cb.path in group:
            ems += [(None, t) for _, t in text_emissions(cb)]
    return ems


def _consumers(body, local, depth=0, seen=None):
    """calls that take `local` (or a move/borrow of it) as an argument"""
    seen = set() if seen is None else seen
    if local in seen or depth > 6:
        return []
    seen.add(local)
    out = []
    for b in range(body.n):
        if body.is_cleanup(b):
            continue
        for st in body.stmts(b):
            if st["k"] == "assign" and not st["dst"]["p"]:
                rv = st["rv"]
                src = op_place(rv["op"]) if rv["k"] in ("use", "cast") else rv.get("pl") if rv["k"] in ("ref",) else None
                if src is not None and src["l"] == local:
                    out += _consumers(body, st["dst"]["l"], depth + 1, seen)
        t = body.term(b)
        if t["k"] == "call" and any((op_place(a) or {}).get("l") == local for a in t["args"]):
            out.append(t)
    return out


def rpo(body, entry=0):
    """reverse post-order in which the body of a loop precedes what follows the loop (exits are visited first by the DFS)"""
    dist_cache = {}

    def dist(s, b):
        """length of the shortest path s -> b (inf if none): the successor that closes the shortest cycle is the loop body"""
        if s not in dist_cache:
            d = {s: 0}
            dq = deque([s])
            while dq:
                x = dq.popleft()
                for y in body.succ(x):
                    if y not in d:
                        d[y] = d[x] + 1
                        dq.append(y)
            dist_cache[s] = d
        return dist_cache[s].get(b, 10 ** 9)

    def succs(b):
        ss = body.succ(b)
        if len(ss) < 2:
            return ss
        return sorted(ss, key=lambda s: -dist(s, b))

    seen, post = set(), []
    stack = [(entry, iter(succs(entry)))]
    seen.add(entry)
    while stack:
        b, it = stack[-1]
        adv = False
        for s in it:
            if s not in seen:
                seen.add(s)
                stack.append((s, iter(succs(s))))
                adv = True
                break
        if not adv:
            post.append(b)
            stack.pop()
    return post[::-1]


def lock_regions(body):
    """For each `Mutex::lock` call: the guard local(s) and the set of blocks executed while the guard
    is live (reachable from the lock's return edge without passing a drop of the guard)."""
    regions = []
    for b, t in body.calls():
        if not fn_matches(t, r"sync::Mutex::<T>::lock$", r"sync::(poison::)?(mutex::)?Mutex.*::lock$"):
            continue
        # guard locals: dst of lock(), then anything it is moved/unwrapped into
        guards = {t["dst"]["l"]}
        changed = True
        while changed:
            changed = False
            for bb, tt in body.calls():
                if tt["args"]:
                    a = op_local(tt["args"][0])
                    if a in guards and fn_matches(tt, r"Result::<T, E>::(unwrap|expect|unwrap_or_else)$", r"::into_inner$"):
                        if tt["dst"]["l"] not in guards:
                            guards.add(tt["dst"]["l"])
                            changed = True
            for bb in range(body.n):
                for st in body.stmts(bb):
                    if st["k"] == "assign" and st["rv"]["k"] == "use":
                        pl = op_place(st["rv"]["op"])
                        if pl and pl["l"] in guards and st["rv"]["op"]["k"] == "move" and not st["dst"]["p"]:
                            if st["dst"]["l"] not in guards:
                                guards.add(st["dst"]["l"])
                                changed = True
        guard_tys = {g for g in guards if "MutexGuard" in body.local_ty(g) and not body.local_ty(g).startswith("std::result")}

        def is_guard_drop(bb):
            tt = body.term(bb)
            if tt["k"] == "drop" and tt["pl"]["l"] in guard_tys and not tt["pl"]["p"]:
                return True
            if tt["k"] == "call" and fn_matches(tt, r"mem::drop$") and tt["args"] and op_local(tt["args"][0]) in guard_tys:
                return True
            return False

        start = t.get("target")
        if start is None:
            continue
        region = body.reachable_from([start], stop=is_guard_drop)
        drops = {x for x in region if is_guard_drop(x)}
        regions.append({"lock_block": b, "guards": guards, "guard_locals": guard_tys, "region": region, "drops": drops, "t": t})
    return regions


def span_key(sp):
    return "%s:%s" % (sp.get("file"), sp.get("line"))


def user_span(sp):
    """file:line of the outermost call site for macro-expanded code"""
    if sp.get("exp") and sp.get("cs_file"):
        return sp["cs_file"], sp["cs_line"]
    return sp.get("file"), sp.get("line")
