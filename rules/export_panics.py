"""C17.R3 / C05.R5: panic-capable sites on the export path and under the registry lock (crate ts_rs)."""
import json
import os
import re

from vlib.common import Result, VERIF
from vlib import mirlib as M
from vlib.mirlib import fn_matches
from rules import panics

EXPORT_ROOTS = ["TS::export", "TS::export_all", "TS::export_all_to", "TS::export_to_string"]


def fold(path):
    return re.sub(r"::\{closure#\d+\}", "", path)


def justified(crate_name):
    with open(os.path.join(VERIF, "reference/justified_panics.json")) as fh:
        j = json.load(fh)
    return j.get(crate_name, [])


def site_status(crate, s, entries):
    """(status, reason) of one panic-capable call site: discharged by a guard found in the MIR, justified by an entry
    keyed on what the call is applied to, or open"""
    if s.get("discharged"):
        return "discharged", s["discharged"]
    e = panics.justification(crate, s["caller"], s["callee"], s.get("origin", ""), entries)
    if e:
        return "justified", e["reason"]
    return "open", None


def export_reach(crate):
    roots = list(EXPORT_ROOTS)
    for b in crate.bodies:
        if (b.raw.get("impl_trait") or "").split("::")[-1] == "TypeVisitor":
            roots.append(b.path)
    reach, parent = crate.reachable_bodies(roots, no_impls_of=("TS",))
    return reach, parent


def export_panic_rule(crate, prop):
    r = Result("C17.R3", "inventory of panic-capable call sites (unwrap/expect/index/panic!/bounds asserts) in everything reachable from export, export_all, export_all_to, export_to_string inside ts_rs (dispatch into TS impls excluded): each must be discharged by a guard found in the MIR or justified by an entry keyed on the callee, on what it is applied to and on the function the code belongs to (helpers it was split into included)")
    for root in EXPORT_ROOTS:
        if crate.body(root) is None:
            r.fail(prop, "anchor-missing " + root, "export entry point %s not found" % root)
    reach, parent = export_reach(crate)
    sites = []
    for b in crate.bodies:
        if b.path in reach:
            for s in panics.sites_in(b, crate):
                s["caller"] = fold(s["caller"])
                sites.append(s)
    just = justified(crate.name)
    g = panics.group(sites)
    for (caller, callee), ss in sorted(g.items()):
        st = [site_status(crate, s, just) for s in ss]
        open_ = [s for s, (k, _) in zip(ss, st) if k == "open"]
        where = ", ".join(sorted({"%s:%s" % (s["file"], s["line"]) for s in ss}))
        r.inst(caller=caller, callee=callee, count=len(ss), where=where, applied_to=sorted({s.get("origin", "") for s in ss}),
               status="unjustified" if open_ else "/".join(sorted({k for k, _ in st})), reason=next((w for _, w in st if w), None))
        if open_:
            r.fail(prop, panics.key(caller, callee, len(open_)),
                   "%d panic-capable call(s) to %s (applied to: %s) on the export path with no discharge or justification (a panic here escapes export()/export_all() instead of an Err)" % (len(open_), callee, open_[0].get("origin")),
                   open_[0]["file"], open_[0]["line"], chain=_chain(parent, open_[0]["caller"]))
    r.stats = {"reachable_bodies": len(reach), "sites": len(sites)}
    r.floor = 4
    return r


def _chain(parent, p):
    out = [p]
    while p in parent and len(out) < 12:
        p = parent[p]
        out.append(p)
    return " <- ".join(out)


def lock_panic_rule(crate, prop, fn_path="export::export_and_merge"):
    r = Result("C05.R5", "no panic-capable call is reachable while the registry lock is held (a panic there poisons the mutex and makes every later export panic at lock().unwrap())")
    body = crate.body(fn_path)
    if body is None:
        r.fail(prop, "anchor-missing " + fn_path, "function not found")
        return r
    regions = M.lock_regions(body)
    if not regions:
        r.fail(prop, "anchor-missing lock", "no Mutex::lock in %s" % fn_path, body.file(), body.line())
        return r
    cg = crate.callgraph(no_impls_of=("TS",))
    n = 0
    for reg in regions:
        guard_producers = set()
        for b, t in body.calls():
            if t["dst"]["l"] in reg["guards"]:
                guard_producers.add(b)
        callees = set()
        for b in reg["region"]:
            if body.is_cleanup(b):
                continue
            t = body.term(b)
            if t["k"] == "call":
                n += 1
                if b not in guard_producers:
                    lab = panics.classify_call(t)
                    if lab and panics.discharged(body, {"block": b}):
                        lab = None
                    if lab:
                        f, l = M.user_span(t["span"])
                        r.inst(fn=fn_path, callee=panics.short(t), direct=True, where="%s:%s" % (f, l))
                        r.fail(prop, "panic-under-lock %s -> %s" % (fn_path, panics.short(t)), "panic-capable call while holding the registry lock", f, l)
                for tb in crate.call_targets(body, t, ("TS",)):
                    callees.add(tb.path)
        # transitive
        seen = set()
        work = list(callees)
        while work:
            p = work.pop()
            if p in seen:
                continue
            seen.add(p)
            work.extend(cg.get(p, ()))
        per = {}
        for p in sorted(seen):
            for bb in crate.by_path.get(p, []):
                for s in panics.sites_in(bb, crate):
                    if not s.get("discharged"):
                        per.setdefault(fold(p), []).append(s)
        for p, ss in sorted(per.items()):
            where = ", ".join(sorted({"%s:%s" % (s["file"], s["line"]) for s in ss}))
            r.inst(fn=fn_path, callee=p, direct=False, panic_sites=len(ss), where=where)
            r.fail(prop, "panic-under-lock %s -> %s" % (fn_path, p),
                   "%s runs while the registry lock is held and contains %d panic-capable call(s) (%s); a panic poisons EXPORT_PATHS and every later export panics at lock().unwrap()" % (p, len(ss), where),
                   ss[0]["file"], ss[0]["line"])
    r.stats = {"calls_in_region": n}
    r.floor = 0
    return r
