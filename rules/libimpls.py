"""C12 / C01.R1 / C03.R2: the built-in `impl TS for <library type>` table.
R1 (syntax): representation class of every impl vs serde's data-model class (reference table).
R2 (MIR):    every impl visits exactly the type parameters it names, forwards those it inlines."""
import json
import os
import re

from vlib.common import Result, VERIF
from vlib import mirlib as M
from vlib import synlib as S
from vlib.mirlib import fn_matches, op_local, origins

PRIM_CLASS = {"number": "number", "bigint": "bigint", "string": "string", "boolean": "boolean", "null": "null"}
LIT_CLASSES = [
    (r"^\{\} \| null$", "nullable"),
    (r"^Array<\{\}>$|^\{\}\[\]$|^ReadonlyArray<\{\}>$", "array"),
    (r"^\[\{\}\]$", "tuple"),
    (r"^\{\{ \[key in \{\}\]\??: \{\},? \}\}$|^Record<\{\}, \{\}>$|^\{\{ \[key: \{\}\]: \{\},? \}\}$", "keyed-object"),
    (r"^\{\{ start: \{\}, end: \{\},? \}\}$", "range-object"),
    (r"^\{\{ \"?Ok\"? ?: \{\} \}\} \| \{\{ \"?Err\"? ?: \{\} \}\}$", "result-union"),
]


def norm_ty(s):
    s = S.squash(s)
    s = re.sub(r"^std::(sync|rc|borrow|cell|marker|collections|ops|net|path|num)::", "", s)
    s = re.sub(r"'\w+,?", "", s)
    return s


def lit_class(lit):
    if lit is None:
        return None
    for rx, c in LIT_CLASSES:
        if re.match(rx, lit):
            return c
    if lit in PRIM_CLASS:
        return PRIM_CLASS[lit]
    return None


def _macro_def(syn, name):
    for m in syn.item_macros:
        if m["name"] == "macro_rules" and m.get("ident") == name:
            return m
    return None


def collect_impls(syn):
    """list of dicts {ty, class, how, file, line, cfg, delegate}"""
    out = []
    # wrapper macro: verify its template is transparent
    wdef = _macro_def(syn, "impl_wrapper")
    w_ok = False
    if wdef:
        refs = S.ts_refs(wdef["tokens"])
        have = {(v, m) for v, m in refs}
        w_ok = ("T", "name") in have and ("T", "inline") in have and ("T", "inline_flattened") in have
    sdef = _macro_def(syn, "impl_shadow")
    s_ok = False
    if sdef:
        refs = {(v, m) for v, m in S.ts_refs(sdef["tokens"])}
        s_ok = all(("$s", m) in refs for m in ("name", "inline", "inline_flattened", "visit_dependencies", "visit_generics", "decl", "output_path", "ident"))
    pdef = _macro_def(syn, "impl_primitives")
    p_ok = False
    if pdef:
        fl = S.flat(pdef["tokens"])
        txt = " ".join(fl)
        p_ok = "fn name ( ) -> String { $ l . to_owned ( ) }" in txt and ("Self", "name") in {(v, m) for v, m in S.ts_refs(pdef["tokens"])}
    out.append({"meta": True, "impl_wrapper_transparent": w_ok, "impl_shadow_delegates": s_ok, "impl_primitives_literal": p_ok})
    for m in syn.item_macros:
        if not m["file"].startswith("ts-rs/src"):
            continue
        fl = S.flat(m["tokens"])
        if m["name"] == "impl_primitives":
            # groups: types , types => "lit" , ...
            cur, depth = [], 0
            tys, i = [], 0
            toks = fl
            buf = ""
            rows = []
            for t in toks:
                if t in ("<", "(", "["):
                    depth += 1
                if t in (">", ")", "]"):
                    depth -= 1
                if t == "," and depth == 0:
                    if buf:
                        tys.append(buf)
                    buf = ""
                elif t == "=>" and depth == 0:
                    if buf:
                        tys.append(buf)
                    buf = ""
                    rows.append([tys, None])
                    tys = []
                elif rows and rows[-1][1] is None and t.startswith('"'):
                    rows[-1][1] = S.unquote(t)
                else:
                    buf += t
            for tys, lit in rows:
                for ty in tys:
                    out.append({"ty": norm_ty(ty), "class": PRIM_CLASS.get(lit), "lit": lit, "how": "impl_primitives!", "file": m["file"], "line": m["line"], "cfg": m["cfg"]})
        elif m["name"] == "impl_wrapper":
            txt = " ".join(fl)
            ty = txt.split(" TS for ", 1)[1] if " TS for " in txt else txt
            out.append({"ty": norm_ty(ty), "class": "transparent" if w_ok else None, "how": "impl_wrapper!", "file": m["file"], "line": m["line"], "cfg": m["cfg"]})
        elif m["name"] == "impl_shadow":
            txt = " ".join(fl)
            mm = re.match(r"^as (.*?) : impl(.*) TS for (.*)$", txt)
            if mm:
                out.append({"ty": norm_ty(mm.group(3)), "class": None, "delegate": norm_ty(mm.group(1)), "how": "impl_shadow!", "file": m["file"], "line": m["line"], "cfg": m["cfg"]})
        elif m["name"] == "impl_tuples":
            n = len([t for t in fl if re.match(r"^T\d+$", t)])
            out.append({"ty": "(T1,..,Tn)", "class": None, "how": "impl_tuples!", "arity": n, "file": m["file"], "line": m["line"], "cfg": m["cfg"]})
    # tuple macro template
    tdef = _macro_def(syn, "impl_tuples")
    if tdef:
        lits = [S.unquote(x) for x in S.string_lits(tdef["tokens"])]
        cls = [lit_class(x) for x in lits if lit_class(x)]
        for o in out:
            if o.get("how") == "impl_tuples!":
                o["class"] = "tuple" if "tuple" in cls else None
    # hand-written impls
    for it in syn.items:
        if it["kind"] != "impl" or not it["file"].startswith("ts-rs/src") or not (it["trait"] or "").endswith("TS"):
            continue
        ty = norm_ty(it["self_ty"])
        fns = {f["name"]: f for f in syn.fns if f["file"] == it["file"] and f.get("impl_self") == it["self_ty"] and (f.get("impl_trait") or "").endswith("TS")}
        lits = {}
        for nm in ("name", "inline"):
            f = fns.get(nm)
            if not f:
                continue
            ls = []
            for e in f["events"]:
                if e["kind"] == "macro" and e["name"] == "format":
                    toks = e["tokens"]
                    if toks and isinstance(toks[0], str) and toks[0].startswith('"'):
                        ls.append(S.unquote(toks[0]))
                elif e["kind"] == "strlit" and not any(c["k"] == "macro_arg" for c in e["ctx"]):
                    ls.append(e["value"])
            lits[nm] = ls
        cls = None
        for l in lits.get("name", []):
            cls = cls or lit_class(l)
        delegate = None
        if cls is None and "name" in fns:
            for e in fns["name"]["events"]:
                if e["kind"] == "call":
                    mm = re.match(r"^<(.+)as(?:crate|\$crate|::ts_rs)::TS>::name$", S.squash(e["func"]))
                    if mm and mm.group(1) not in ("Self",) and not re.match(r"^[A-Z]\w*$", mm.group(1)):
                        delegate = norm_ty(mm.group(1))
        out.append({"ty": ty, "class": cls, "how": "impl", "delegate": delegate, "name_literals": lits.get("name"), "inline_literals": lits.get("inline"),
                    "file": it["file"], "line": it["line"], "cfg": it["cfg"]})
    return out


_CONST_VALUES = {}


def _load_consts(syn):
    for it in syn.items:
        if it["kind"] == "const" and it["file"].startswith("ts-rs/src") and S.unquote((it.get("value") or "").strip()) is not None:
            _CONST_VALUES[it["name"]] = S.unquote(it["value"].strip())


def _ts_methods(crate, _memo={}):
    """paths of every method of an `impl TS for ..` in the crate: helpers shared by them (and by nothing else) are theirs"""
    if id(crate) not in _memo:
        _memo[id(crate)] = frozenset(b.path for b in crate.bodies if b.raw.get("impl_trait") == "TS")
    return _memo[id(crate)]


def mir_shape(crate, body):
    """the TypeScript shapes a name()/inline() body can produce, as format-string-like literals (`{}` for a spliced-in
    value): the literal text it appends in control-flow order, split where the function chooses between alternatives
    (a call into another impl's name()/inline() ends one alternative)"""
    # first choice: a symbolic reading of the returned String (helpers of the crate expanded, named constants resolved)
    from vlib import symstr as SS
    try:
        atoms = SS.expand(crate, SS.Sym(crate, body).returned(), prefix="", stop=[r"TS::(name|inline|ident)$", r"^<.* as TS>::"])
    except Exception:
        atoms = [("unknown", "error")]
    if atoms and not any(a[0] in ("unknown", "derived", "param") for a in atoms) and any(a[0] in ("lit", "named") for a in atoms):
        sh = SS.shape(atoms, named=lambda n: _CONST_VALUES.get(n.split("::")[-1]))
        if "{}" in sh or lit_class(sh):
            return [sh, re.sub(r"(\{\}(, )?)+", "{}", sh)]
    ib = crate.inlined(body, siblings=_ts_methods(crate))
    ems = M.text_emissions(ib)
    if not ems:
        return []
    txt = ""
    for _, t in ems:
        if t.startswith("<join:"):
            continue
        txt += t
    txt = re.sub(M.ARG + "+", M.ARG, txt)
    lit = txt.replace("{", "{{").replace("}", "}}").replace(M.ARG, "{}")
    out = [lit]
    # a repetition `[` x, x, .. `]` assembled with join: one element stands for the list
    out.append(re.sub(r"(\{\}(, )?)+", "{}", lit))
    return out


def mir_passes_argument_through(crate, body):
    """does some return path of this name()/inline() yield the text of a type argument's name()/inline() as it is, while
    another path builds text around it?"""
    from rules.field_rules import _alternatives
    ib = crate.inlined(body, siblings=_ts_methods(crate))
    built = passed = False
    for blk, l, _ in _alternatives(ib, 0):
        org = [o for o in origins(ib, l, transparent=True) if o["kind"] == "call"]
        if not org:
            continue
        if all(fn_matches(o["t"], r"TS::(name|inline|inline_flattened)$") and (o["t"]["fn"].get("args") or ["Self"])[0] != "Self" for o in org):
            passed = True
        else:
            built = True
    return built and passed


def class_table_rule(syn, crate, prop, rule="C12.R1"):
    r = Result(rule, "representation class of every built-in `impl TS` (primitive table rows, wrappers, shadows, tuples, hand-written containers) equals the class serde's data model assigns to that Rust type; name() and inline() use the same shape; arrays repeat exactly 0..N")
    with open(os.path.join(VERIF, "reference/serde_classes.json")) as fh:
        ref = json.load(fh)
    classes = ref["classes"]
    impls = collect_impls(syn)
    _load_consts(syn)
    meta = impls[0]
    unread = {"impl_primitives_literal": "impl_primitives!", "impl_wrapper_transparent": "impl_wrapper!", "impl_shadow_delegates": "impl_shadow!"}
    redo = set()
    for k, v in meta.items():
        if k != "meta":
            r.inst(macro_template=k, read_from_source=v)
            if not v:
                # the macro is written differently: what its impls return is read off the expanded functions (MIR) instead
                redo.add(unread.get(k))
    for o in impls[1:]:
        if o["how"] in redo:
            bodies = [b for b in crate.bodies if b.raw.get("impl_trait") == "TS" and b.raw.get("assoc_name") == "name" and norm_ty(re.sub(r"\b(\w+::)+", "", b.raw.get("impl_self") or "")) == norm_ty(re.sub(r"\b(\w+::)+", "", o["ty"]))]
            o["class"], o["delegate"] = None, None
            if len(bodies) == 1:
                shapes = mir_shape(crate, bodies[0])
                for sh in shapes:
                    o["class"] = o["class"] or lit_class(sh)
                if not o["class"]:
                    dl = [t for _, t in bodies[0].calls() if fn_matches(t, r"TS::name$") and not bodies[0].is_cleanup(_)]
                    if len(dl) == 1 and (dl[0]["fn"].get("args") or [None])[0]:
                        a0 = dl[0]["fn"]["args"][0]
                        gp = bodies[0].raw.get("generic_params") or []
                        if a0 in gp:
                            o["class"] = "transparent"
                        else:
                            o["delegate"] = norm_ty(re.sub(r"\b(\w+::)+", "", a0))
                o["how"] = o["how"] + " (read from the expanded impl)"
            else:
                o["how"] = o["how"] + " (not in this build)"
                o["class"] = "undecided"
    by_ty = {}
    for o in impls[1:]:
        by_ty[o["ty"]] = o
    for o in impls[1:]:
        if o["how"] == "impl_tuples!" and not o.get("class"):
            tb = [b for b in crate.bodies if b.raw.get("impl_trait") == "TS" and b.raw.get("assoc_name") == "name" and re.match(r"^<\(T\d+,", b.path)]
            shapes = {sh for b in tb for sh in mir_shape(crate, b)}
            if tb and all(any(lit_class(sh) == "tuple" for sh in mir_shape(crate, b)) for b in tb):
                o["class"] = "tuple"
    # hand-written impls whose name() is not a single format!/literal in place (the shape is assembled by a helper, by
    # push_str, by join): read the shape off the text name() appends, helpers spliced in
    for o in impls[1:]:
        if o["how"] != "impl" or o.get("class") or o.get("delegate"):
            continue
        for meth in ("name", "inline"):
            bodies = [b for b in crate.bodies if b.raw.get("impl_trait") == "TS" and b.raw.get("assoc_name") == meth
                      and (b.raw.get("impl_span") or {}).get("line") == o["line"] and str((b.raw.get("impl_span") or {}).get("file", "")).endswith(o["file"].split("/")[-1])]
            if len(bodies) != 1:
                continue
            shape = mir_shape(crate, bodies[0])
            o.setdefault("mir_shapes", {})[meth] = shape
            if meth == "name" and shape:
                for sh in shape:
                    o["class"] = o.get("class") or lit_class(sh)
                # the shape must be what the function returns on *every* path: an alternative that hands the argument's
                # name through unchanged (`if already_nullable { ty } else { format!("{ty} | null") }`) is another shape
                if o.get("class") and mir_passes_argument_through(crate, bodies[0]):
                    o["class"] = "mixed(%s|transparent)" % o["class"]
        ms = o.get("mir_shapes") or {}
        if o.get("class") and ms.get("name") and ms.get("inline"):
            o["name_literals"], o["inline_literals"] = sorted(set(ms["name"])), sorted(set(ms["inline"]))

    # a hand-written impl that forwards to another type's impl (possibly named through a type alias): the target is
    # read off the resolved call
    for o in impls[1:]:
        if o["how"] != "impl" or o.get("class"):
            continue
        bodies = [b for b in crate.bodies if b.raw.get("impl_trait") == "TS" and b.raw.get("assoc_name") == "name"
                  and (b.raw.get("impl_span") or {}).get("line") == o["line"] and str((b.raw.get("impl_span") or {}).get("file", "")).endswith(o["file"].split("/")[-1])]
        if len(bodies) == 1:
            dl = [t for blk, t in bodies[0].calls() if fn_matches(t, r"TS::name$") and not bodies[0].is_cleanup(blk)]
            others = [t for blk, t in bodies[0].calls() if not bodies[0].is_cleanup(blk) and not fn_matches(t, r"TS::name$")]
            if len(dl) == 1 and not others and (dl[0]["fn"].get("args") or [None])[0] and dl[0]["fn"]["args"][0] not in (bodies[0].raw.get("generic_params") or []):
                o["delegate"] = norm_ty(re.sub(r"\b(\w+::)+", "", dl[0]["fn"]["args"][0]))

    # also where the shape was read from a literal in place: no path may hand the argument through unchanged
    for o in impls[1:]:
        if o["how"] == "impl" and o.get("class") and not str(o["class"]).startswith("mixed") and o["class"] != "transparent":
            bodies = [b for b in crate.bodies if b.raw.get("impl_trait") == "TS" and b.raw.get("assoc_name") == "name"
                      and (b.raw.get("impl_span") or {}).get("line") == o["line"] and str((b.raw.get("impl_span") or {}).get("file", "")).endswith(o["file"].split("/")[-1])]
            if len(bodies) == 1 and mir_passes_argument_through(crate, bodies[0]):
                o["class"] = "mixed(%s|transparent)" % o["class"]

    def resolve(o, depth=0):
        if o.get("class"):
            return o["class"]
        if o.get("delegate") and depth < 5:
            d = re.sub(r"<.*$", "", o["delegate"])
            cand = [x for k, x in by_ty.items() if re.sub(r"<.*$", "", k) == d]
            if cand:
                return resolve(cand[0], depth + 1)
        return None

    for o in impls[1:]:
        base = re.sub(r"<.*$", "", o["ty"])
        key = o["ty"] if o["ty"] in classes else base
        want = classes.get(key)
        got = resolve(o)
        where = "%s:%s" % (o["file"], o["line"])
        if want is None:
            r.inst(type=o["ty"], got=got, expected=None, verdict="unclassified (no std reference)", where=where, how=o["how"])
            if got is None and o["how"] != "impl" and not o.get("delegate"):
                r.fail(prop, "repr-unrecognised %s" % o["ty"], "cannot classify the TypeScript form of %s" % o["ty"], o["file"], o["line"])
            continue
        wants = want if isinstance(want, list) else [want]
        if got is None and o["how"].startswith(("impl", "impl_tuples")):
            # the shape of name() could not be read (built by helpers / macros this reader does not follow): not decided
            r.inst(type=o["ty"], got=None, expected=wants, verdict="undecided: the text name() returns could not be read", where=where, how=o["how"])
            r.fail(prop, "anchor-missing shape of %s" % o["ty"], "what `<%s as TS>::name()` returns could not be read off the code" % o["ty"], o["file"], o["line"])
            continue
        if got == "undecided":
            r.inst(type=o["ty"], got=None, expected=wants, verdict="undecided: the macro that writes this impl is not read from source and the impl is not part of this build", where=where, how=o["how"])
            continue
        ok = got in wants
        r.inst(type=o["ty"], got=got, expected=wants, verdict="agree" if ok else "DISAGREE", where=where, how=o["how"])
        if not ok:
            r.fail(prop, "repr-class %s expected=%s got=%s" % (o["ty"], "|".join(wants), got),
                   "serde serialises %s as %s but the binding is %s" % (o["ty"], "/".join(wants), got), o["file"], o["line"])
        if o["how"] == "impl" and o.get("inline_literals") and o.get("name_literals") and o["inline_literals"] != o["name_literals"]:
            r.fail(prop, "name-inline-disagree %s" % o["ty"], "name() uses %s but inline() uses %s" % (o["name_literals"], o["inline_literals"]), o["file"], o["line"])
    # required std types present
    have = {re.sub(r"<.*$", "", o["ty"]) for o in impls[1:]} | {o["ty"] for o in impls[1:]}
    mir_have = {re.sub(r"<.*$", "", norm_ty(re.sub(r"\b(\w+::)+", "", b.raw.get("impl_self") or ""))) for b in crate.bodies if b.raw.get("impl_trait") == "TS"} | \
        {norm_ty(re.sub(r"\b(\w+::)+", "", b.raw.get("impl_self") or "")) for b in crate.bodies if b.raw.get("impl_trait") == "TS"}
    for t in ref["required"]:
        if t not in have and t in mir_have:
            r.inst(type=t, note="impl written by a macro the source reader does not follow; present among the expanded impls")
            r.fail(prop, "anchor-missing shape of %s" % t, "the impl of TS for %s exists (expanded program) but is written by a macro this reader does not follow" % t)
            continue
        if t not in have:
            r.fail(prop, "impl-missing %s" % t, "no built-in impl TS for %s" % t)
    # tuples: arity 10
    for o in impls[1:]:
        if o["how"] == "impl_tuples!":
            r.inst(tuples_up_to=o.get("arity"))
            if o.get("arity") != 10:
                r.fail(prop, "tuple-arity %s" % o.get("arity"), "tuple impls cover arity %s, expected 1..=10" % o.get("arity"), o["file"], o["line"])
    # arrays: Range {0, N} and ARRAY_TUPLE_LIMIT switch (MIR)
    for meth in ("name", "inline"):
        b = crate.inlined("<[T; N] as TS>::%s" % meth, siblings=_ts_methods(crate))
        if b is None:
            r.fail(prop, "anchor-missing <[T; N] as TS>::%s" % meth, "array impl not found")
            continue
        rng = False
        for blk in range(b.n):
            for st in b.stmts(blk):
                if st["k"] == "assign" and st["rv"]["k"] == "agg" and st["rv"].get("adt") == "std::ops::Range":
                    ops = st["rv"]["ops"]
                    c0 = M.op_const(ops[0]) or {}
                    c1 = M.op_const(ops[1]) or {}
                    if c1 == {} and op_local(ops[1]) is not None:
                        cs = [o for o in origins(b, op_local(ops[1]))]
                        if cs and all(o["kind"] == "const" for o in cs):
                            c1 = cs[0]["c"] or {}
                    if c0.get("int") == 0 and ("N" in (c1.get("dbg") or "") or "N" == str(c1.get("param", ""))):
                        rng = True
        limit = any(st["k"] == "assign" and st["rv"]["k"] == "binop" and st["rv"]["op"] in ("Gt", "Ge", "Lt", "Le") for blk in range(b.n) for st in b.stmts(blk))
        deleg = any(fn_matches(t, r"TS::%s$" % meth) and (t["fn"].get("args") or [""])[0].startswith("std::vec::Vec<") for _, t in b.calls()) or \
            any(kind == "fn" and isinstance(v, dict) and v.get("path", "").endswith("TS::%s" % meth) and (v.get("args") or [""])[0].startswith("std::vec::Vec<") for kind, v in crate.address_taken(b))
        r.inst(impl="[T; N]", method=meth, repeats_0_to_N=rng, limit_switch=limit, long_arrays_delegate_to_vec=deleg)
        other_ranges = [st for blk in range(b.n) for st in b.stmts(blk) if st["k"] == "assign" and st["rv"]["k"] == "agg" and st["rv"].get("adt") == "std::ops::Range"]
        if not rng and not other_ranges:
            r.fail(prop, "anchor-missing array repetition in [T; N]::%s" % meth, "no `0..N` range found in the array impl (the repetition is written another way)", b.file(), b.line())
        elif not rng:
            r.fail(prop, "array-repetition [T; N]::%s" % meth, "the tuple form of [T; N] is not produced by iterating exactly 0..N (a zero-length or off-by-one array would get the wrong arity)", b.file(), b.line())
        if not (limit and deleg) and not rng:
            pass        # reported as undecided above
        elif not (limit and deleg):
            r.fail(prop, "array-limit [T; N]::%s" % meth, "no `N > ARRAY_TUPLE_LIMIT` switch to the Vec form", b.file(), b.line())
    r.floor = 72
    return r


# ------------------------------------------------------------------ R2 (MIR)

def _params_in(s, params):
    return {p for p in params if re.search(r"(?<![\w:])%s(?![\w])" % re.escape(p), s)}


def visit_agreement_rule(crate, prop, rule="C12.R2"):
    r = Result(rule, "for every generic built-in impl: type parameters mentioned by name() == parameters visited (v.visit::<P>() and <P as TS>::visit_generics) by visit_generics(); parameters mentioned by inline()/inline_flattened() are forwarded by visit_dependencies()")
    groups = {}
    for b in crate.bodies:
        it = b.raw.get("impl_trait")
        if it != "TS" or not b.raw.get("impl_self"):
            continue
        groups.setdefault((b.raw["impl_self"], b.raw["impl_span"]["line"], b.raw["impl_span"]["file"]), {})[b.raw.get("assoc_name")] = b
    impl_params = {}
    for im in crate.impls:
        if im.get("trait") == "TS":
            impl_params[(im["self_ty"], im["span"]["line"], im["span"]["file"])] = [p["name"] for p in im["params"] if p["kind"] == "type"]
    n = 0
    for key, fns in sorted(groups.items()):
        params = impl_params.get(key, [])
        ts_params = []
        if not params:
            continue
        self_ty, line, file = key
        if file.endswith("serde_json.rs") and "TsJsonValue" in self_ty:
            continue

        def mentioned(fn, methods):
            out = set()
            b = fns.get(fn)
            if b is None:
                return None
            b = crate.inlined(b, siblings=_ts_methods(crate))
            for _, t in b.calls():
                f = t.get("fn") or {}
                if f.get("trait") == "TS" and f["path"].split("::")[-1] in methods:
                    out |= _params_in((f.get("args") or [""])[0], params)
            # `helper(T::name)`: the method handed over as a function value is called by the helper
            for kind, v in crate.address_taken(b):
                if kind == "fn" and isinstance(v, dict) and v.get("trait") == "TS" and v.get("path", "").split("::")[-1] in methods:
                    out |= _params_in((v.get("args") or [""])[0], params)
            return out

        def visited(fn):
            b = fns.get(fn)
            if b is None:
                return None, None
            b = crate.inlined(b, siblings=_ts_methods(crate))
            vis, gen = set(), set()
            for _, t in b.calls():
                f = t.get("fn") or {}
                last = f.get("path", "").split("::")[-1]
                if f.get("trait") == "TypeVisitor" and last == "visit":
                    a = (f.get("args") or ["", ""])
                    vis |= _params_in(a[1] if len(a) > 1 else "", params)
                elif f.get("trait") == "TS" and last == "visit_generics":
                    a0 = (f.get("args") or [""])[0]
                    ps = _params_in(a0, params)
                    gen |= ps
                    if a0 not in params:   # delegation to another impl covers both
                        vis |= ps
            return vis, gen

        named = mentioned("name", ("name",))
        inl = (mentioned("inline", ("inline", "name")) or set()) | (mentioned("inline_flattened", ("inline_flattened",)) or set())
        fwd = mentioned("visit_dependencies", ("visit_dependencies",))
        vis, gen = visited("visit_generics")
        if named is None:
            continue
        # params that have a TS bound at all (H in HashMap<K,V,H> has none): only those can be named
        n += 1
        vis = vis or set()
        gen = gen or set()
        fwd = fwd or set()
        ok = named == vis == gen and (inl - {p for p in inl if p not in named and False}) <= (fwd | set()) if True else False
        inl_only = {p for p in inl if any(True for _ in [0])}
        ok_inline = all(p in fwd for p in (mentioned("inline", ("inline",)) or set()) | (mentioned("inline_flattened", ("inline_flattened",)) or set()))
        ok = (named == vis) and (named == gen) and ok_inline
        r.inst(impl=self_ty, where="%s:%s" % (file, line), named=sorted(named), visited=sorted(vis), generics_visited=sorted(gen),
               inlined=sorted((mentioned("inline", ("inline",)) or set())), forwarded=sorted(fwd), ok=ok)
        if not named and (vis or gen):
            nb = fns.get("name")
            helpers = sorted({hb.path for blk, tt in (nb.calls() if nb is not None else []) if not nb.is_cleanup(blk) for hb in crate.call_targets(nb, tt, ()) if hb.raw.get("impl_trait") != "TS"})
            if helpers:
                # name() hands the work to a function of the crate that was not followed (a trait method, a shared helper):
                # which parameters it names is not read
                r.fail(prop, "anchor-missing names mentioned by %s::name" % self_ty, "name() is computed by %s, which this rule does not follow" % helpers, file, line)
                continue
        if named != vis:
            r.fail(prop, "visit-mismatch %s" % self_ty, "name() mentions %s but visit_generics() visits %s: the type argument would be %s" %
                   (sorted(named), sorted(vis), "used without import" if named - vis else "imported without use"), file, line)
        if named != gen:
            r.fail(prop, "visit-generics-mismatch %s" % self_ty, "name() mentions %s but visit_generics() recurses into the generics of %s only: nested type arguments of the others are lost" %
                   (sorted(named), sorted(gen)), file, line)
        if not ok_inline:
            r.fail(prop, "forward-mismatch %s" % self_ty, "inline() mentions parameters that visit_dependencies() does not forward", file, line)
        # a parameter that inline() renders *by name* is referenced by whoever inlines this type, and that user only
        # calls visit_dependencies(): the parameter itself must be visited there
        named_inl = set()
        for fnm in ("inline", "inline_flattened"):
            bb = fns.get(fnm)
            can_return = bb is not None and any((not bb.is_cleanup(x)) and bb.term(x)["k"] == "return" for x in bb.reachable_from([0]))
            for _, t in (bb.calls() if bb is not None else []):
                f = t.get("fn") or {}
                a0 = (f.get("args") or [""])[0]
                if f.get("trait") == "TS" and f["path"].split("::")[-1] == "name":
                    if a0 != self_ty and a0 != "Self":
                        named_inl |= _params_in(a0, params)
                    elif can_return:
                        # `inline()` that answers with `Self::name()` renders by name everything name() does; the same call inside
                        # an unconditional "cannot be flattened" panic is a message, not a rendering
                        named_inl |= set(named or ())
        vis_dep, _ = visited("visit_dependencies")
        vis_dep = vis_dep or set()
        if named_inl:
            r.inst(impl=self_ty, where="%s:%s" % (file, line), named_by_inline=sorted(named_inl), visited_by_visit_dependencies=sorted(vis_dep), ok=named_inl <= vis_dep)
        # an impl that *delegates* (`fn name() { <X as TS>::name() }`) delegates every rendering to the same X: name() via
        # `Option<Arc<T>>` and inline() via `Arc<T>` are two different types, one of them nullable
        deleg = {}
        for fnm in ("name", "inline", "inline_flattened"):
            bb = fns.get(fnm)
            if bb is None:
                continue
            cs = [t for _, t in bb.calls() if (t.get("fn") or {}).get("trait") == "TS" and t["fn"]["path"].split("::")[-1] == fnm]
            others = [t for bl, t in bb.calls() if not bb.is_cleanup(bl) and t.get("fn") and not fn_matches(t, r"TS::" + fnm + "$")]
            if len(cs) == 1 and not others:
                a0 = (cs[0]["fn"].get("args") or [""])[0]
                if a0 not in params and a0 != self_ty and a0 != "Self":
                    deleg[fnm] = a0
        if len(set(deleg.values())) > 1:
            r.inst(impl=self_ty, where="%s:%s" % (file, line), delegates=deleg, ok=False)
            r.fail(prop, "delegate-mismatch %s" % self_ty,
                   "the impl forwards its renderings to different types (%s): the by-name and the inlined form of %s then describe different shapes (e.g. `T | null` by name, `T` inlined)" % (deleg, self_ty),
                   file, line)
        elif deleg:
            r.inst(impl=self_ty, where="%s:%s" % (file, line), delegates=deleg, ok=True)
        # visiting is unconditional: what name()/inline() print does not depend on run-time properties of the argument
        # (e.g. whether it has a file of its own), so what is visited must not either
        for vf in ("visit_generics", "visit_dependencies"):
            vb = fns.get(vf)
            if vb is None:
                continue
            branches = [x for x in range(vb.n) if not vb.is_cleanup(x) and vb.term(x)["k"] == "switch"]
            if branches:
                r.inst(impl=self_ty, where="%s:%s" % (file, line), fn=vf, conditional=True)
                r.fail(prop, "visit-conditional %s::%s" % (self_ty, vf),
                       "%s() of %s branches on a run-time condition: a dependency that the rendered text mentions can be left unvisited (e.g. the generics of an element type that has a file of its own: `Vec<Wrapper<Dep>>` names `Dep` without depending on it)" % (vf, self_ty),
                       file, line)
        if named_inl - vis_dep:
            r.fail(prop, "inline-names-unvisited %s" % self_ty,
                   "inline() renders %s by name, but visit_dependencies() does not visit %s itself (only forwards its dependencies): a type that inlines this one mentions the name without depending on it" %
                   (sorted(named_inl - vis_dep), "them" if len(named_inl - vis_dep) > 1 else "it"), file, line)
    r.floor = 30
    return r


def totality_rule(crate, prop, rule="C12.R3"):
    """a field may ask any supported type for its name() or - under #[ts(inline)], or through a container that inlines its
    argument (`Vec<(Foo, i32)>`) - for its inline(); both must answer.  decl()/decl_concrete()/inline_flattened() may refuse."""
    r = Result(rule, "name() and inline() of every built-in `impl TS` can return (the body has a return reachable from its entry); only the internal placeholder `Dummy` is exempt")
    EXEMPT = {"Dummy": "internal stand-in for erased type arguments, never rendered"}
    bad = {}
    n = 0
    for b in crate.bodies:
        if b.raw.get("impl_trait") != "TS" or b.raw.get("assoc_name") not in ("name", "inline"):
            continue
        n += 1
        self_ty = b.raw.get("impl_self") or "?"
        reach = b.reachable_from([0])
        returns = any((not b.is_cleanup(x)) and b.term(x)["k"] == "return" for x in reach)
        if returns or self_ty in EXEMPT:
            continue
        fam = "tuples" if re.match(r"^\(.*\)$", self_ty) else self_ty
        bad.setdefault((fam, b.raw["assoc_name"]), []).append((b.file(), b.line(), self_ty))
    r.inst(bodies_examined=n, always_panicking=sorted("%s::%s x%d" % (k[0], k[1], len(v)) for k, v in bad.items()), exempt=sorted(EXEMPT))
    for (fam, m), lst in sorted(bad.items()):
        r.fail(prop, "%s-always-panics %s" % (m, fam),
               "%s() of %s panics unconditionally (%d impl%s): `#[ts(inline)] v: Vec<%s>` derives, compiles, and panics when the declaration is rendered" %
               (m, fam, len(lst), "s" if len(lst) > 1 else "", "(Foo, i32)" if fam == "tuples" else lst[0][2]),
               lst[0][0], lst[0][1])
    r.floor = 1
    return r


def map_key_rule(syn, prop, rule="C12.R4", crate=None):
    """TypeScript admits only string | number | symbol (and literal unions of those) after `key in`; serde_json writes every
    map key as a string and accepts integers of every width and bool as key types."""
    r = Result(rule, "the key slot of the map template (`{ [key in K]?: V }`) is never filled with a type that TypeScript rejects there: of the TypeScript names the primitive table assigns to types that serde_json accepts as map keys, `bigint` and `boolean` are not keyable")
    # primitive table: rust type -> TS literal
    table = {}
    for m in syn.item_macros:
        if m["name"] != "impl_primitives" or not m["file"].startswith("ts-rs/src"):
            continue
        cur = []
        toks = m["tokens"]
        for t in S.flat(toks):
            if not isinstance(t, str):
                continue
            if t.startswith('"'):
                for ty in "".join(cur).split(","):
                    if ty:
                        table[ty] = S.unquote(t)
                cur = []
            elif t == "=>":
                continue
            else:
                cur.append(t)
    KEY_TYPES = re.compile(r"^(u8|u16|u32|u64|u128|usize|i8|i16|i32|i64|i128|isize|bool|NonZero[UI](8|16|32|64|128|size))$")
    unkeyable = sorted({(ty, lit) for ty, lit in table.items() if KEY_TYPES.match(ty) and lit not in ("number", "string")})
    # the map template
    sites = []
    for fn in syn.fns:
        if not re.match(r"^<HashMap<.*asTS>::(name|inline)$", S.squash(fn["qual"])):
            continue
        for e in S.events(fn, "macro"):
            if e["name"] != "format":
                continue
            lit = S.unquote(e["tokens"][0]) if e["tokens"] and isinstance(e["tokens"][0], str) else ""
            if "[key in {}]" in lit:
                args = S.format_calls([{"d": "(", "ts": e["tokens"]}]) if False else None
                txt = S.squash(" ".join(t for t in S.flat(e["tokens"][1:]) if isinstance(t, str)))
                raw = re.match(r"^,?<Kas(crate|\$crate)::TS>::(name|inline)\(\)", txt) is not None
                sites.append((fn, e, raw))
    if not sites and crate is not None:
        # the template is assembled elsewhere (a helper, push_str): read it off the MIR of name()/inline(), helpers spliced in.
        # The key slot is "raw" when the value of <K as TS>::name()/inline() reaches the text untouched.
        PLUMBING = r"fmt::rt::Argument|String::push_str$|Deref::deref$|::as_str$|::as_ref$|Borrow::borrow$|fmt::format$|ToString::to_string$|Clone::clone$|fmt::Arguments"
        for b in crate.bodies:
            if b.raw.get("impl_trait") != "TS" or b.raw.get("assoc_name") not in ("name", "inline") or not (b.raw.get("impl_self") or "").startswith("std::collections::HashMap<"):
                continue
            ib = crate.inlined(b, siblings=_ts_methods(crate))
            txt = "".join(t for _, t in M.text_emissions(ib))
            if "[key in " not in txt:
                continue
            raw = False
            for blk, t in ib.calls():
                f = t.get("fn") or {}
                if f.get("trait") == "TS" and f.get("path", "").split("::")[-1] in ("name", "inline") and (f.get("args") or [""])[0] == "K":
                    cons = [u for u in M._consumers(ib, t["dst"]["l"]) if not u.get("inlined")]
                    if all(fn_matches(u, PLUMBING) for u in cons):
                        raw = True
            fnrec = {"file": (b.span.get("file") or "").split("/repo/")[-1], "qual": b.path}
            for f2 in syn.fns:
                if f2["file"].endswith("ts-rs/src/lib.rs") and f2["line"] == b.line():
                    fnrec = f2
            sites.append((fnrec, {"line": b.line()}, raw))
    r.inst(primitive_table_entries=len(table), key_types_with_unkeyable_name=["%s => %s" % x for x in unkeyable], map_templates=len(sites))
    if not sites:
        r.fail(prop, "anchor-missing map template", "no `[key in {}]` template found in impl TS for HashMap")
    raw_sites = [s for s in sites if s[2]]
    if raw_sites and unkeyable:
        names = sorted({lit for _, lit in unkeyable})
        fn, e, _ = raw_sites[0]
        r.fail(prop, "map-key-not-keyable HashMap<K, V, H> %s" % ",".join(names),
               "the key slot takes K's TypeScript name as it is; for %s that is %s: `HashMap<u64, i32>` is declared `{ [key in bigint]?: number }` and `HashMap<bool, i32>` `{ [key in boolean]?: number }`, neither of which TypeScript accepts (serde_json writes `{\"1\":2}` / `{\"true\":2}`)" %
               (", ".join(t for t, _ in unkeyable[:6]) + (" .." if len(unkeyable) > 6 else ""), " / ".join(names)),
               fn["file"], e["line"])
    r.floor = 1
    return r


def units_rule(crate, prop, rule="C14.R17"):
    """byte offsets and character counts are different units"""
    r = Result(rule, "in the runtime crate no byte quantity (`str::find`/`rfind`/`len`, `String::len`, the index of `char_indices`) is used as a *number of characters* (argument of nth/skip/take on a `Chars`/`CharIndices` iterator), and no character count (`chars().count()`) is used as a byte offset (string slicing, seek): the two agree on ASCII text only")
    BYTE_SRC = [r"str::<impl str>::(find|rfind|len)$", r"String::len$", r"char::len_utf8$"]
    CHAR_SRC = [r"Iterator::count$"]
    n = 0
    for b in crate.bodies:
        for blk, t in b.calls():
            if b.is_cleanup(blk) or not t.get("fn"):
                continue
            atys = t.get("arg_tys") or []
            if fn_matches(t, r"Iterator::(nth|skip|take|step_by|advance_by)$") and atys and re.search(r"str::(Chars|CharIndices)", atys[0]) and len(t["args"]) > 1:
                n += 1
                org = origins(b, op_local(t["args"][1]), identity=M.IDENTITY_CALLS + [r"Option::<T>::(map_or|map|unwrap_or|unwrap|map_or_else)$", r"ops::Add", r"ops::Sub"]) if op_local(t["args"][1]) is not None else []
                # arithmetic results: follow binop operands one level
                srcs = list(org)
                for o in org:
                    if o["kind"] == "other" and o.get("st", {}).get("rv", {}).get("k") == "binop":
                        for side in ("a", "b"):
                            l2 = op_local(o["st"]["rv"].get(side)) if o["st"]["rv"].get(side) else None
                            if l2 is not None:
                                srcs += origins(b, l2, identity=M.IDENTITY_CALLS)
                bytes_ = [o for o in srcs if o["kind"] == "call" and fn_matches(o["t"], *BYTE_SRC)]
                clos = [c for c in crate.bodies if c.path.startswith(b.path + "::{closure")]
                bytes_in_closure = any(fn_matches(t2, *BYTE_SRC) for c in clos for _, t2 in c.calls())
                f, l = M.user_span(t["span"])
                r.inst(fn=b.path, call=t["fn"]["path"].split("::")[-1], on=atys[0][:40], count_from_byte_quantity=bool(bytes_) or bytes_in_closure, where="%s:%s" % (f, l))
                if bytes_ or bytes_in_closure:
                    r.fail(prop, "byte-offset-used-as-char-count %s" % b.path,
                           "%s on a character iterator is given a byte quantity (from find/len): with multi-byte text the iterator is advanced too far - e.g. past the end of a doc comment and over the top-level `|` that decides whether a union gets its parentheses" % t["fn"]["path"].split("::")[-1], f, l)
            if fn_matches(t, r"str::<impl str>::(split_at|get)$", r"io::SeekFrom", r"ops::Index<.*Range") and len(t["args"]) > 1 and op_local(t["args"][1]) is not None:
                org = origins(b, op_local(t["args"][1]), identity=M.IDENTITY_CALLS)
                if any(o["kind"] == "call" and fn_matches(o["t"], *CHAR_SRC) and re.search(r"str::(Chars|CharIndices)", (o["t"].get("arg_tys") or [""])[0]) for o in org):
                    n += 1
                    f, l = M.user_span(t["span"])
                    r.fail(prop, "char-count-used-as-byte-offset %s" % b.path, "a `chars().count()` result is used as a byte position in %s" % t["fn"]["path"].split("::")[-1], f, l)
    r.inst(bodies_examined=len(crate.bodies), sites=n, note="expected count is zero; positive example: seed C15_k in the self-test corpus")
    r.floor = 1
    return r


def forwarding_rule(crate, prop, rule="C12.R7"):
    """an impl whose name() is nothing but another type's name() (wrappers: `Box<T>` -> T; shadows: `HashSet<T>` -> `Vec<T>`)
    stands for that type in every position: inlined and flattened as well"""
    r = Result(rule, "every built-in `impl TS` whose name() only forwards to `<X as TS>::name()` also has its own inline() and inline_flattened(), each forwarding to the same method of the same X (read off the expanded impls): a method left to the trait's default, or forwarding elsewhere, makes the wrapper differ from the wrapped type when it is inlined or flattened")
    by_impl = {}
    for b in crate.bodies:
        if b.raw.get("impl_trait") == "TS" and b.raw.get("assoc_name") and b.kind in ("Fn", "AssocFn"):
            by_impl.setdefault(b.raw.get("impl_self"), {})[b.raw["assoc_name"]] = b

    def sole_forward(b):
        cs = [t for blk, t in b.calls() if not b.is_cleanup(blk)]
        if len(cs) == 1 and fn_matches(cs[0], r"^TS::\w+$") and (cs[0]["fn"].get("args") or [None])[0]:
            return cs[0]["fn"]["path"].split("::")[-1], cs[0]["fn"]["args"][0]
        return None
    n = 0
    for ty, ms in sorted(by_impl.items(), key=lambda kv: str(kv[0])):
        nb = ms.get("name")
        fw = sole_forward(nb) if nb is not None else None
        if not fw or fw[0] != "name" or fw[1] == "Self":
            continue
        n += 1
        # a wrapper around a type parameter is transparent where a type is written; a shadow of a concrete type stands
        # for it everywhere, its name, its declaration and its file included
        shadow = fw[1] not in (nb.raw.get("generic_params") or [])
        def base(s):
            return re.sub(r"<.*$", "", s or "")
        target = [v for k, v in by_impl.items() if base(k) == base(fw[1])]
        for m in (("inline", "inline_flattened", "ident", "decl", "decl_concrete", "output_path") if shadow else ("inline", "inline_flattened")):
            if m not in ("inline", "inline_flattened") and not (len(target) == 1 and m in target[0]):
                continue        # the shadowed type leaves this one to the trait's default as well (or its impl is not in this build)
            if m in ("decl", "decl_concrete") and any(fn_matches(t2, r"panicking::panic") for _, t2 in target[0][m].calls()):
                continue        # "cannot be declared": nothing to forward
            mb = ms.get(m)
            got = sole_forward(mb) if mb is not None else None
            ok = got == (m, fw[1])
            r.inst(impl=ty, forwards_to=fw[1], method=m, own_body=mb is not None, calls=got, ok=ok)
            if not ok:
                r.fail(prop, "forward-mismatch %s %s" % (norm_ty(re.sub(r"\b(\w+::)+", "", ty or "")), m),
                       "`impl TS for %s` forwards name() to %s but %s: the type is not represented like %s when it is %s" % (
                           ty, fw[1], ("leaves %s() to the trait's default" % m) if mb is None else ("%s() calls %s" % (m, got)), fw[1], {"inline": "inlined", "inline_flattened": "flattened"}.get(m, "asked for its %s" % m)),
                       (mb or nb).file(), (mb or nb).line())
    if n == 0:
        r.fail(prop, "anchor-missing forwarding impls", "no impl TS whose name() forwards to another type found")
    r.floor = 10
    return r
