"""C13 — bindings are a deterministic function of source and configuration."""
from rules import determinism as D
from rules import merge_rules as MR
from rules import macro_mir as MM
from rules import export_rules as E

ASSUMPTIONS = ["BTreeMap/BTreeSet iterate in key order; Vec and syn::Punctuated iterate in insertion order",
               "determinism of rustc, the file system and the environment is out of scope"]


def run(ctx):
    out = []
    for fs in ctx.featuresets():
        m = ctx.mir(fs)
        res = [D.hash_iteration_rule(m["ts_rs_macros"], "C13"), D.hash_iteration_rule(m["ts_rs"], "C13", rule="C13.R1-runtime"),
               D.visit_order_rule(m["ts_rs"], "C13"), D.source_order_rule(m["ts_rs_macros"], "C13"), MR.import_union_rule(m["ts_rs"], "C13", rule="C13.R4"), MM.import_shape_rule(m["ts_rs"], "C13", rule="C13.R5"), E.fs_query_owner_rule(m["ts_rs"], "C13", rule="C13.R8"), E.visitor_predicates_rule(m["ts_rs"], "C13", rule="C13.R9")]
        res[0].floor = 5
        for r in res:
            if fs != "default":
                r.rule += "@" + fs
        out += res
    out.append(D.dedup_key_rule(ctx.syn, "C13", crate=ctx.mir("default")["ts_rs"]))
    from rules import templates as T
    out.append(T.generated_state_rule(ctx.syn, "C13", "C13.R7"))
    return out
