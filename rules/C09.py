"""C09 — rename_all yields the names serde puts on the wire (site/precedence/routing clauses)."""
from rules import templates as T
from rules import text_rules as X
from rules import field_rules as F

ASSUMPTIONS = ["whether each conversion equals serde's on every identifier is a string-function equality and is NOT decided"]


def run(ctx):
    out = [F.naming_rule(ctx.mir("default")["ts_rs_macros"], "C09"), F.rename_all_fields_rule(ctx.mir("default")["ts_rs_macros"], "C09"), X.inflection_table_rule(ctx.mir("default")["ts_rs_macros"], "C09"), F.variant_name_flow_rule(ctx.mir("default")["ts_rs_macros"], "C09"), T.post_merge_rule(ctx.mir("default")["ts_rs_macros"], "C09", rule="C09.R6")]
    for fs in ctx.featuresets():
        r = T.shared_conversion_rule(ctx.mir(fs)["ts_rs_macros"], "C09")
        if fs != "default":
            r.rule += "@" + fs
        out.append(r)
    return out
