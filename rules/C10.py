"""C10 — serde and ts attribute spellings are equivalent; ts wins; unknown serde is inert (table/merge clauses)."""
import json
import os
import re

from vlib.common import Result, VERIF
from vlib import mirlib as M
from vlib import synlib as S
from vlib.mirlib import fn_matches, op_local, op_const, origins
from rules import tables

ASSUMPTIONS = ["serde's attribute grammar as listed in reference/serde_keys.json (from serde's documentation)",
               "behavioural equality of bindings under the two spellings follows from table+merge agreement only to the extent that the tables are the only difference; it is NOT decided as such"]

ATTR_FILES = {"StructAttr": "attr/struct.rs", "EnumAttr": "attr/enum.rs", "VariantAttr": "attr/variant.rs", "FieldAttr": "attr/field.rs"}


def arm_agreement(T, prop="C10"):
    r = Result("C10.R1", "for every key present in both the ts table and the serde table of one position, the two arms call the same value parser (same generic arguments) and assign the same attribute field (type-checked tables recovered from MIR)")
    for x in tables.ATTRS:
        a, b = T.get(x), T.get("Serde<%s>" % x)
        if a is None or b is None:
            r.fail(prop, "anchor-missing table %s" % x, "parse table for %s / Serde<%s> not found" % (x, x))
            continue
        ta = {k: arm for arm in a.arms for k in arm["keys"]}
        tb = {k: arm for arm in b.arms for k in arm["keys"]}
        for k in sorted(set(ta) & set(tb)):
            same = ta[k]["parsers"] == tb[k]["parsers"] and ta[k]["fields"] == tb[k]["fields"]
            r.inst(position=x, key=k, ts=[ta[k]["parsers"], ta[k]["fields"]], serde=[tb[k]["parsers"], tb[k]["fields"]], agree=same)
            if not same:
                r.fail(prop, "arm-disagree %s[%s]" % (x, k),
                       "#[ts(%s)] does %s -> %s but #[serde(%s)] does %s -> %s" % (k, ta[k]["parsers"], ta[k]["fields"], k, tb[k]["parsers"], tb[k]["fields"]),
                       tb[k]["file"], tb[k]["line"])
    r.floor = 18
    return r


def supported_keys(T, prop="C10"):
    r = Result("C10.R2", "each serde table contains every serde key the README lists as supported, at each position where serde accepts it, and each of those keys is also a ts key")
    with open(os.path.join(VERIF, "reference/serde_keys.json")) as fh:
        ref = json.load(fh)["supported"]
    for x, keys in ref.items():
        b = T.get("Serde<%s>" % x)
        a = T.get(x)
        have = {k for arm in b.arms for k in arm["keys"]} if b else set()
        have_ts = {k for arm in a.arms for k in arm["keys"]} if a else set()
        for k in keys:
            ok = k in have
            r.inst(position=x, key=k, in_serde_table=ok, in_ts_table=k in have_ts)
            if not ok:
                r.fail(prop, "serde-key-missing %s[%s]" % (x, k), "#[serde(%s)] is documented as supported but the Serde<%s> table has no arm for it" % (k, x),
                       b.body.file() if b else None, None)
            if k not in have_ts and k not in ("default", "deny_unknown_fields", "with"):
                r.fail(prop, "ts-key-missing %s[%s]" % (x, k), "#[ts(%s)] is not accepted although #[serde(%s)] is" % (k, k), a.body.file() if a else None, None)
    r.floor = 19
    return r


MERGE_EXCEPTIONS = {
    ("StructAttr", "docs"): "docs come from the doc attributes, set after merging",
    ("EnumAttr", "docs"): "docs come from the doc attributes, set after merging",
    ("FieldAttr", "docs"): "docs are concatenated (cleared for flattened fields)",
    ("StructAttr", "concrete"): "maps are unioned", ("EnumAttr", "concrete"): "maps are unioned",
    ("StructAttr", "bound"): "bounds are concatenated", ("EnumAttr", "bound"): "bounds are concatenated",
}


def ts_wins(syn, crate, prop="C10"):
    r = Result("C10.R3", "in every Attr::merge each Option field is `self.f.or(other.f)` and each flag `self.f || other.f` (ts first); in every from_attrs the value parsed from #[ts] is the receiver of merge and the serde value its argument")
    for x, f in ATTR_FILES.items():
        from rules import field_rules as F
        mb, summ = F.merge_summary(crate, x)
        if summ is None:
            r.fail(prop, "anchor-missing %s::merge" % x, "merge not found, or it neither builds the attribute value field by field nor returns an updated `self`", mb.file() if mb else None, mb.line() if mb else None)
            continue
        for name, info in summ.items():
            if (x, name) in MERGE_EXCEPTIONS and name == "docs":
                r.inst(attr=x, field=name, form="exception: " + MERGE_EXCEPTIONS[(x, name)])
                continue
            kind = "union" if (x, name) in MERGE_EXCEPTIONS else "flag" if info.get("ty") == "bool" else "option"
            verdict, desc = F.merge_verdict(info, kind)
            r.inst(attr=x, field=name, kind=kind, form=desc, verdict=verdict)
            if verdict == "BAD":
                r.fail(prop, "merge-precedence %s.%s" % (x, name),
                       "merge computes %s from: %s. The value from #[ts(..)] (self) must win over #[serde(..)] (other), and the other side must still fill the gap" % (name, desc), mb.file(), mb.line())
    # from_attrs: receiver/argument roles (MIR)
    for x in tables.ATTRS:
        cands = [b for b in crate.bodies if b.path.endswith("%s::from_attrs" % x)]
        if not cands:
            r.fail(prop, "anchor-missing %s::from_attrs" % x, "from_attrs not found")
            continue
        b = cands[0]
        is_merge = lambda t: fn_matches(t, r"Attr>::merge$", r"Attr::merge$")
        merges = [(blk, t) for blk, t in b.calls() if is_merge(t) and not b.is_cleanup(blk)]
        known = {}
        if not merges:
            # parsing both spellings and merging them may live in a helper all from_attrs share
            for cblk, ct in b.calls():
                if b.is_cleanup(cblk):
                    continue
                for hb in crate.call_targets(b, ct, ()):
                    hm = [(blk, t) for blk, t in hb.calls() if is_merge(t) and not hb.is_cleanup(blk)]
                    if not hm or merges:
                        continue
                    # a predicate handed to the helper as a closure with a constant result is folded
                    for blk, t in hb.calls():
                        if hb.is_cleanup(blk) or not fn_matches(t, r"ops::(function::)?Fn(Once|Mut)?::call(_once|_mut)?$") or not t["args"]:
                            continue
                        k = op_local(t["args"][0])
                        for _ in range(4):         # `f(..)` moves the parameter into a temporary first
                            ds = M.real_defs(hb, k) if k is not None and k > hb.raw["arg_count"] else []
                            if len(ds) == 1 and ds[0][1] != "term" and ds[0][2]["rv"]["k"] == "use" and op_local(ds[0][2]["rv"]["op"]) is not None:
                                k = op_local(ds[0][2]["rv"]["op"])
                        if k is None or not (1 <= k <= hb.raw["arg_count"]) or k > len(ct["args"]):
                            continue
                        for o in origins(b, op_local(ct["args"][k - 1])):
                            if o["kind"] == "agg" and o["rv"].get("closure"):
                                cb = [y for y in crate.bodies if y.path == o["rv"]["closure"]]
                                vals = {(op_const(d["rv"]["op"]) or {}).get("int") if i != "term" and d["rv"]["k"] == "use" else None for _, i, d in (M.value_defs(cb[0], 0) if cb else [])}
                                if len(vals) == 1 and None not in vals:
                                    known[t["dst"]["l"]] = vals.pop()
                    r.inst(fn=b.path, merges_in_helper=hb.path, predicate_results_known=known)
                    b, merges = hb, hm
        if x in ("StructAttr", "EnumAttr"):
            # a container's #[serde(..)] attributes are merged on every path that returns Ok (with `cfg!` folded): no
            # property of the #[ts(..)] side (an override, a flag) decides whether serde is read at all
            avoid = {blk for blk, _ in merges} | {blk for blk, t2 in b.calls() if fn_matches(t2, r"FromResidual") and not b.is_cleanup(blk)}
            live = live_blocks(b, avoid=avoid, known=known)
            bypass = [blk for blk in live if not b.is_cleanup(blk) and b.term(blk)["k"] == "return"]
            r.inst(fn=b.path, serde_merged_on_every_success_path=not bypass)
            if bypass:
                r.fail(prop, "serde-merge-conditional %s::from_attrs" % x,
                       "a path through from_attrs returns Ok without merging the #[serde(..)] attributes: under that condition `#[serde(rename = \"X\")]` no longer acts like `#[ts(rename = \"X\")]`",
                       b.file(), b.line())
        for blk, t in merges:
            recv = {M.callee(o["t"]) for o in origins(b, op_local(t["args"][0])) if o["kind"] == "call"}
            arg = {M.callee(o["t"]) for o in origins(b, op_local(t["args"][1])) if o["kind"] == "call"}
            ok = any(c and c.endswith("utils::parse_attrs") for c in recv) and any(c and c.endswith("utils::parse_serde_attrs") for c in arg) \
                and not any(c and c.endswith("utils::parse_serde_attrs") for c in recv)
            f, l = M.user_span(t["span"])
            r.inst(fn=b.path, receiver=sorted(x for x in recv if x), argument=sorted(x for x in arg if x), ts_is_receiver=ok)
            if not ok:
                r.fail(prop, "merge-roles %s::from_attrs" % x, "merge receiver must be the #[ts] value and its argument the #[serde] value", f, l)
            # both sides reach merge() exactly as parsed: no field of either value is written (or lent mutably) on the way
            for role, callee_rx, opi in (("serde", r"utils::parse_serde_attrs$", 1), ("ts", r"utils::parse_attrs$", 0)):
                holders = set()
                for o in origins(b, op_local(t["args"][opi])):
                    if o["kind"] == "call" and fn_matches(o["t"], callee_rx):
                        holders.add(o["t"]["dst"]["l"])
                # locals the parsed value is moved through whole (`let mut result = ..?`)
                chain = set(holders)
                cur = op_local(t["args"][opi])
                seen_l = set()
                while cur is not None and cur not in seen_l:
                    seen_l.add(cur)
                    chain.add(cur)
                    nxt = None
                    for dblk, di, st in M.def_sites(b, cur):
                        if di != "term" and st["k"] == "assign" and st["rv"]["k"] == "use":
                            pl = M.op_place(st["rv"]["op"])
                            if pl:
                                nxt = pl["l"]
                    cur = nxt
                writes = []
                for blk2 in range(b.n):
                    if b.is_cleanup(blk2) or blk not in b.reachable_from([blk2]):
                        continue
                    for st in b.stmts(blk2):
                        if st["k"] != "assign":
                            continue
                        d = st["dst"]
                        if d["l"] in chain and [p for p in d["p"] if p != ".0"] and not any(p.startswith("as ") or "Continue" in p for p in d["p"]):
                            writes.append("write to %s" % "".join(d["p"]))
                        if st["rv"]["k"] == "ref" and st["rv"].get("mut") and st["rv"]["pl"]["l"] in chain:
                            writes.append("&mut borrow")
                r.inst(fn=b.path, side=role, holders=sorted(chain), modified_before_merge=writes)
                if writes:
                    r.fail(prop, "merge-input-modified %s::from_attrs %s" % (x, role),
                           "the value parsed from #[%s(..)] is altered before merge() (%s): a key written with one spelling no longer acts like the same key written with the other" % (role, ", ".join(sorted(set(writes)))),
                           b.file(), l)
    r.floor = 40
    return r


def feature_gate(syn, mir_nodefault, prop="C10"):
    r = Result("C10.R4", "in the derive crate compiled with --no-default-features (serde-compat off; `cfg!(feature = ..)` is then the constant false) no call of parse_serde_attrs and no read of `using_serde_with` outside merge() is reachable once constant conditions are folded: without the feature a serde attribute has no effect")
    c = mir_nodefault["ts_rs_macros"]
    n = 0
    for b in c.bodies:
        live = None
        # the functions that produce the flag (the serde parser sets it, merge() combines it, Default clears it) are its writers
        writer = any(st["k"] == "assign" and (".using_serde_with" in st["dst"]["p"] or (st["rv"]["k"] == "agg" and "using_serde_with" in (st["rv"].get("fields") or [])) or (st["rv"]["k"] == "ref" and st["rv"].get("mut") and ".using_serde_with" in st["rv"]["pl"]["p"]))
                     for blk in range(b.n) for st in b.stmts(blk))
        for blk in range(b.n):
            if b.is_cleanup(blk):
                continue
            uses = []
            t = b.term(blk)
            if t["k"] == "call" and fn_matches(t, r"utils::parse_serde_attrs$"):
                uses.append(("parse_serde_attrs", t["span"]))
            if not writer:
                for st in b.stmts(blk):
                    if st["k"] != "assign":
                        continue
                    rv = st["rv"]
                    pls = [M.op_place(o) for o in ([rv.get("op")] if rv["k"] in ("use", "cast") else [rv.get("a"), rv.get("b")] if rv["k"] == "binop" else [rv.get("a")] if rv["k"] == "unop" else rv.get("ops", []) if rv["k"] == "agg" else []) if isinstance(o, dict)]
                    if rv["k"] in ("ref", "discr"):
                        pls.append(rv["pl"])
                    if any(pl is not None and ".using_serde_with" in pl["p"] for pl in pls) and not (rv["k"] == "agg"):
                        uses.append(("using_serde_with", st.get("span") or b.span))
                if t["k"] == "switch" and M.op_place(t["discr"]) is not None and ".using_serde_with" in M.op_place(t["discr"])["p"]:
                    uses.append(("using_serde_with", t.get("span") or b.span))
            for target, sp in uses:
                if live is None:
                    live = live_blocks(b)
                n += 1
                f, l = M.user_span(sp)
                r.inst(fn=b.path, use=target, where="%s:%s" % (f, l), config="--no-default-features", reachable=blk in live)
                if blk in live:
                    r.fail(prop, "serde-ungated %s %s" % (re.sub(r"::\{closure#\d+\}", "", b.path), target),
                           "%s is used without the serde-compat feature gate (still reachable with --no-default-features): serde attributes would have an effect with serde compatibility switched off" % target, f, l)
    if n == 0:
        r.fail(prop, "anchor-missing serde uses", "no call of parse_serde_attrs and no read of using_serde_with found in the derive crate")
    r.floor = 5
    return r


def _const_of(body, op, known, depth=0):
    c = op_const(op)
    if c is not None:
        return c.get("int")
    l = op_local(op)
    if l is None or depth > 4:
        return None
    if l in known:
        return known[l]
    ds = [d for d in M.def_sites(body, l) if not body.is_cleanup(d[0])]
    if len(ds) != 1 or ds[0][1] == "term":
        return None
    rv = ds[0][2]["rv"]
    if rv["k"] == "use":
        return _const_of(body, rv["op"], known, depth + 1)
    if rv["k"] == "unop" and rv.get("op") == "Not" and body.local_ty(l) == "bool":
        v = _const_of(body, rv["a"], known, depth + 1)
        return None if v is None else 1 - v
    return None


def live_blocks(body, avoid=(), known=None):
    """reachability with constant switch operands folded (blocks in `avoid` are not entered); `known`: locals whose
    value is known from outside (the result of calling a predicate the caller passes as a constant closure)"""
    seen = set()
    work = [0]
    known = known or {}
    while work:
        b = work.pop()
        if b in seen or b in avoid:
            continue
        seen.add(b)
        t = body.term(b)
        if t["k"] == "switch":
            c = _const_of(body, t["discr"], known)
            if c is not None:
                tg = None
                for v, x in t["targets"]:
                    if v == c:
                        tg = x
                work.append(tg if tg is not None else t["otherwise"])
                continue
        work.extend(body.succ(b))
    return seen


def fallback_rule(T, crate, prop="C10"):
    r = Result("C10.R5", "in each `impl Parse for Serde<X>` the all-keys-mismatch edge always rejoins the key loop through skip_until_next_comma and can never return an error; keys are read with IdentExt::parse_any so that keyword-named serde keys are not parse errors")
    for x in tables.ATTRS:
        t = T.get("Serde<%s>" % x)
        if t is None or t.wild is None or t.join is None:
            r.fail(prop, "anchor-missing table Serde<%s>" % x, "cannot recover the serde key table")
            continue
        w = tables.wildcard_summary(t)
        b = t.body
        if t.form == "closure":
            # the key match lives in a closure returning Result<bool>: unknown key => Ok(false); parse() must skip on
            # everything but Ok(true) and must not error
            cf = tables.closure_fallback(t)
            if cf is None:
                r.inst(table="Serde<%s>" % x, form="closure", note="what parse() does with the closure's result could not be read: undecided")
                r.fail(prop, "anchor-missing fallback of Serde<%s>" % x, "the key table is a closure handed to a function this reader does not follow", t.parent.file() if t.parent else None, t.parent.line() if t.parent else None)
                continue
            wild_ok = (not w["reaches_join"]) and (not w["err_exit"])
            ok = cf is not None and wild_ok and cf["no_error_exit"] and cf["skip_on_every_non_true_path"] and cf["success_path_does_not_skip"]
            r.inst(table="Serde<%s>" % x, form="closure", unknown_key_returns_not_true=wild_ok, parse_outcomes=(cf or {}).get("outcomes_at_join(ok_true,skipped)"),
                   no_error_exit=(cf or {}).get("no_error_exit"), ok=ok)
            if not ok:
                r.fail(prop, "unknown-serde-key-not-inert Serde<%s>" % x,
                       "an unknown or unparseable #[serde(..)] key is not reliably skipped: %s" % cf, t.parent.file(), t.parent.line())
            continue
        skips = {blk for blk in w["region"] if b.term(blk)["k"] == "call" and fn_matches(b.term(blk), r"attr::skip_until_next_comma$")}
        all_skip = b.all_paths_pass(t.wild, skips, [t.join])
        if not all_skip and skips:
            # `_ => false` into a flag that is tested afterwards (`if !understood { skip }`): follow only the edges that are
            # feasible for the constant the all-keys-mismatch block stores
            dom = b.dominators(entry=t.wild)
            consts = {}
            for bx0 in w["region"] | {t.wild}:
                for st in b.stmts(bx0):
                    if st["k"] == "assign" and not st["dst"]["p"] and st["rv"]["k"] == "use" and b.local_ty(st["dst"]["l"]) == "bool":
                        c = M.op_const(st["rv"]["op"])
                        if c is not None and isinstance(c.get("int"), int):
                            consts.setdefault(st["dst"]["l"], []).append((bx0, c["int"]))
            seen_b, todo, bypass = set(), [t.wild], False
            while todo:
                cur_b = todo.pop()
                if cur_b in seen_b or cur_b in skips:
                    continue
                seen_b.add(cur_b)
                if cur_b == t.join:
                    bypass = True
                    break
                term = b.term(cur_b)
                succs = b.succ(cur_b)
                if term["k"] == "switch" and op_local(term["discr"]) is not None:
                    dl, neg = op_local(term["discr"]), False
                    for _ in range(4):
                        ds = [d for d in M.def_sites(b, dl) if not b.is_cleanup(d[0])]
                        if len(ds) == 1 and ds[0][1] != "term" and ds[0][2]["rv"]["k"] == "unop" and ds[0][2]["rv"]["op"] == "Not" and op_local(ds[0][2]["rv"]["a"]) is not None:
                            dl, neg = op_local(ds[0][2]["rv"]["a"]), not neg
                        elif len(ds) == 1 and ds[0][1] != "term" and ds[0][2]["rv"]["k"] == "use" and op_local(ds[0][2]["rv"]["op"]) is not None:
                            dl = op_local(ds[0][2]["rv"]["op"])
                        else:
                            break
                    known = [v for (bx, v) in consts.get(dl, []) if cur_b in dom and bx in dom.get(cur_b, ())]
                    if len(known) == 1 and len(consts.get(dl, [])) == 1:
                        val = known[0] ^ (1 if neg else 0)
                        zero = next((tg for v, tg in term["targets"] if v == 0), None)
                        succs = [zero] if val == 0 and zero is not None else [term["otherwise"]] if val == 1 else succs
                todo.extend(succs)
            all_skip = not bypass
        ok = w["reaches_join"] and not w["err_exit"] and not w["returns_before_join"] and bool(skips) and all_skip
        r.inst(table="Serde<%s>" % x, form="direct", rejoins_loop=w["reaches_join"], can_error=w["err_exit"] or w["returns_before_join"], skips_on_every_path=all_skip, ok=ok)
        if not ok:
            r.fail(prop, "unknown-serde-key-not-inert Serde<%s>" % x,
                   "an unknown #[serde(..)] key can %s" % ("produce an error" if (w["err_exit"] or w["returns_before_join"]) else "fall through without skipping its value"),
                   b.file(), b.line())
    for name, t in sorted(T.items()):
        b = t.parent or t.body
        # the reader of the key may sit in the table's function or in a helper it calls
        scope = [b]
        for blk, term in b.calls():
            if not b.is_cleanup(blk):
                scope += [hb for hb in crate.call_targets(b, term, ()) if hb.kind in ("Fn", "AssocFn") and hb.path.startswith("utils::")]
        any_kw, plain = False, None
        for sb in scope:
            for blk, term in sb.calls():
                if sb.is_cleanup(blk):
                    continue
                if fn_matches(term, r"ParseBuffer::<'_>::call::<proc_macro2::Ident>$"):
                    # the function argument is IdentExt::parse_any
                    for o in origins(sb, op_local(term["args"][1]), identity=[]):
                        if o["kind"] == "const" and (o["c"] or {}).get("fn", {}).get("path", "").endswith("IdentExt::parse_any"):
                            any_kw = True
                elif fn_matches(term, r"IdentExt>::parse_any$", r"IdentExt::parse_any$"):
                    any_kw = True
                elif fn_matches(term, r"ParseBuffer::<'_>::parse::<proc_macro2::Ident>$", r"<proc_macro2::Ident as syn::parse::Parse>::parse$"):
                    plain = (sb, term)
        r.inst(table=name, key_reader_accepts_keywords=any_kw, plain_identifier_reads=plain is not None, examined=[x.path for x in scope][:6])
        if not any_kw and plain is not None:
            f, l = M.user_span(plain[1]["span"])
            r.fail(prop, "key-reader-rejects-keywords %s" % name, "keys of %s are read as a plain identifier, not with IdentExt::parse_any: a keyword-named key (`crate`, `type`, `as`) is a parse error that drops the whole attribute list" % name,
                   b.file(), b.line())
        elif not any_kw:
            r.fail(prop, "anchor-missing key reader of %s" % name, "how the keys of %s are read was not recognised" % name, b.file(), b.line())
    r.floor = 12
    return r


def eq_once(T, prop="C10"):
    r = Result("C10.R6", "on every path through every table arm at most one `=` token is consumed (explicit `Token![=]` parses plus value parsers, each of which consumes one)")
    for name, t in sorted(T.items()):
        for arm in t.arms:
            n = tables.max_eq_consumption(t, arm)
            r.inst(table=name, keys=arm["keys"], max_eq_tokens=n)
            if n > 1:
                r.fail(prop, "eq-twice %s[%s]" % (name, "|".join(arm["keys"])), "a path through this arm consumes %d `=` tokens: `key = value` cannot parse and the whole attribute list is dropped" % n,
                       arm["file"], arm["line"])
    r.floor = 58
    return r


PARSER_FORMS = {"parse_assign_str": {"eq_str"}, "parse_assign_expr": {"eq_str", "eq_path"}, "parse_assign_inflection": {"eq_str"},
                "parse_bound": {"eq_str"}, "parse_assign_from_str": {"eq_str"}, "parse_concrete": {"paren"}, "parse_optional": {"bare", "eq_ident"}}


def arm_forms(arm):
    if not arm["parsers"]:
        return {"bare"}
    forms = set()
    for p in arm["parsers"]:
        forms |= PARSER_FORMS.get(p.split("::<")[0], set())
    if arm["peeks"]:
        forms.add("bare")
    return forms


def value_forms(T, syn, prop="C10"):
    r = Result("C10.R7", "for every supported serde key, each value form serde's own grammar accepts is accepted by the arm or recovered inside it; otherwise one such attribute makes the whole #[serde(..)] list disappear (parse_serde_attrs drops failed lists)")
    with open(os.path.join(VERIF, "reference/serde_keys.json")) as fh:
        ref = json.load(fh)["forms"]
    # is a failing list dropped? (parse_serde_attrs uses `.ok()` on the whole attribute)
    ps = syn.fn("parse_serde_attrs", "utils.rs")
    drops = ps is not None and any(e["kind"] == "mcall" and e["method"] == "ok" for e in ps["events"])
    r.inst(fn="utils::parse_serde_attrs", failing_list_dropped_whole=drops)
    with open(os.path.join(VERIF, "reference/serde_keys.json")) as fh:
        other = json.load(fh).get("other_forms", {})
    for x, keys in ref.items():
        t = T.get("Serde<%s>" % x)
        if t is None:
            continue
        arms = {k: a for a in t.arms for k in a["keys"]}
        keys = dict(other.get(x, {}), **keys)
        for k in sorted(set(arms) - set(keys)):
            r.fail(prop, "serde-key-without-reference Serde<%s>.%s" % (x, k),
                   "the serde key `%s` has an arm but reference/serde_keys.json does not say which value forms serde accepts for it: the arm cannot be judged" % k,
                   arms[k]["file"], arms[k]["line"])
        for k, forms in keys.items():
            if k not in arms:
                continue
            have = arm_forms(arms[k])
            missing = sorted(set(forms) - have)
            recovered = False
            if t.form == "closure":
                cf = tables.closure_fallback(t)
                recovered = bool(cf and cf["no_error_exit"] and cf["skip_on_every_non_true_path"])
                if cf is None:
                    recovered = True       # undecided (reported once by C10.R5): the caller of the closure is not read
            elif arms[k].get("failure_stays_local"):
                # the arm runs in a closure of its own whose failure is only asked about (`.is_ok()`); what follows an
                # unsuccessful key is the concern of C10.R5 (it is skipped)
                recovered = True
            r.inst(position=x, key=k, serde_accepts=forms, arm_accepts=sorted(have), missing=missing, failure_recovered_per_key=recovered)
            # an arm that consumes nothing reports success; if serde also allows `key = ".."` the value is left in the stream,
            # the separator is not found, and the list fails as a whole - per-key recovery never sees a failure
            if "bare" in have and not arms[k]["parsers"] and not arms[k]["peeks"] and [m for m in missing if m != "bare"] and drops:
                r.fail(prop, "serde-flag-arm-leaves-value Serde<%s>.%s" % (x, k),
                       "the arm for `%s` consumes nothing and succeeds, but serde also accepts `%s = \"..\"`: the unread value breaks the `,` that follows and the whole #[serde(..)] list is dropped" % (k, k),
                       arms[k]["file"], arms[k]["line"])
                continue
            if missing and drops and not recovered:
                for m in missing:
                    r.fail(prop, "serde-value-failure-drops-list Serde<%s>.%s(%s)" % (x, k, m),
                           "#[serde(%s ..)] in the `%s` form is valid serde but fails to parse here, and the failure discards every other key of the same #[serde(..)] list" % (k, m),
                           arms[k]["file"], arms[k]["line"])
    r.floor = 19
    return r


def skip_cursor_rule(crate, prop="C10"):
    r = Result("C10.R8", "every token-skipping loop of the attribute parser (bodies that walk a syn Cursor with token_tree()) tests for ',' the very token it advances past, and tests it *before* advancing: the token compared and the cursor advance come from the same token_tree() call, and the advance is dominated by the inspection of that token. Otherwise a bare unknown flag swallows the following key, or the separator itself is consumed")
    bodies = [b for b in crate.bodies if any(fn_matches(t, r"buffer::Cursor::<'_>::token_tree$") for _, t in b.calls())]
    if not any(b.path.startswith("attr::skip_until_next_comma") for b in bodies):
        r.fail(prop, "anchor-missing skip_until_next_comma closure", "closure not found")
    for b in bodies:
        name = re.sub(r"::\{closure#\d+\}", "", b.path)
        tt_calls = {blk: t for blk, t in b.calls() if fn_matches(t, r"buffer::Cursor::<'_>::token_tree$") and not b.is_cleanup(blk)}
        adv, tested = {}, set()
        for blk, t in tt_calls.items():
            a = op_local(t["args"][0])
            base = a
            ds = M.def_sites(b, a)
            if len(ds) == 1 and ds[0][1] != "term" and ds[0][2]["rv"]["k"] == "use":
                pl = M.op_place(ds[0][2]["rv"]["op"])
                if pl and not pl["p"]:
                    base = pl["l"]
            defs = M.def_sites(b, base)
            if len(defs) < 2:
                continue
            for db, i, d in defs:
                if i == "term":
                    continue
                rv = d["rv"]
                if rv["k"] == "use":
                    pl = M.op_place(rv["op"])
                    if pl is not None:
                        for o in origins(b, pl["l"], identity=[]):
                            if o["kind"] == "call" and o["block"] in tt_calls:
                                adv.setdefault(o["block"], set()).add((db, i))
        # blocks that inspect the token (discriminant of the TokenTree payload or as_char on its Punct)
        inspect = {}
        for blk in range(b.n):
            for sti, st in enumerate(b.stmts(blk)):
                if st["k"] != "assign" or st["rv"]["k"] != "discr":
                    continue
                pj = st["rv"]["pl"]["p"]
                lty = b.local_ty(st["rv"]["pl"]["l"])
                is_token = (any(p.startswith(".Some::0") for p in pj) and any(p == ".0" for p in pj)) or \
                    ("TokenTree" in lty and "Option" not in lty and "(" not in lty)
                if is_token:
                    for o in origins(b, st["rv"]["pl"]["l"], identity=[]):
                        if o["kind"] == "call" and o["block"] in tt_calls:
                            inspect.setdefault(o["block"], set()).add((blk, sti))
        for blk, t in b.calls():
            if fn_matches(t, r"proc_macro2::Punct::as_char$") and not b.is_cleanup(blk):
                for o in origins(b, op_local(t["args"][0]), identity=[]):
                    if o["kind"] == "call" and o["block"] in tt_calls:
                        tested.add(o["block"])
        lines = {blk: tt_calls[blk]["span"]["line"] for blk in tt_calls}
        r.inst(fn=name, token_tree_calls=len(tt_calls), advancing=sorted(lines[x] for x in adv), tested=sorted(lines[x] for x in tested))
        if not adv or not tested:
            r.fail(prop, "unrecognised-idiom %s" % name, "could not identify the cursor advance / the comma test", b.file(), b.line())
        for x in sorted(set(adv) - tested):
            r.fail(prop, "skip-untested-token %s" % name,
                   "the cursor advances past the token obtained at line %d, but the ',' test looks at a different token (a lookahead): a comma directly after an unknown bare key is skipped and the following key is swallowed" % lines[x],
                   b.file(), lines[x])
        for x in sorted(set(adv) & tested):
            ins = inspect.get(x, set())
            for (ab, ai) in adv[x]:
                ok = any(b.dominates(ib, ab) and (ib != ab or ii < ai) for (ib, ii) in ins)
                r.inst(fn=name, advance_block=ab, dominated_by_inspection_of_same_token=ok)
                if not ok:
                    r.fail(prop, "skip-advances-before-test %s" % name,
                           "the cursor is advanced past the token from line %d before that token is compared with ',': the separator itself is consumed and the caller's `,` parse fails, dropping the whole attribute list" % lines[x],
                           b.file(), lines[x])
    r.floor = 1
    return r


def serde_path_panics(crate, syn, prop="C10"):
    """C16's inventory restricted to the code that handles #[serde(..)] lists."""
    from rules import C16
    full = C16.panic_inventory(crate, syn, prop)
    r = Result("C10.R9", "no unjustified panic-capable call in the code that handles #[serde(..)] lists (Serde<X>::parse, skip_until_next_comma, print_warning, parse_serde_attrs): an unparseable serde attribute must not break compilation")
    scope = re.compile(r"Serde<|skip_until_next_comma|print_warning|parse_serde_attrs|utils::warning")
    reach, _ = crate.reachable_bodies([b.path for b in crate.bodies if scope.search(b.path)])
    names = {re.sub(r"::\{closure#\d+\}", "", x) for x in reach}
    r.instances = [i for i in full.instances if i.get("caller") in names]
    r.findings = [f for f in full.findings if any(n in f.key for n in names) and f.key.startswith("panic-site")]
    for f in r.findings:
        f.rule = r.rule
    r.stats = {"bodies_in_scope": len(names)}
    r.floor = 5
    return r


def trailing_comma_rule(T, prop="C10"):
    r = Result("C10.R11", "in each `impl Parse for Serde<X>` the separator `,` is never followed by an unconditional key read: every path from the comma back to the key reader tests `is_empty`, so `#[serde(k = v,)]` (valid serde) does not turn into a parse error that drops the whole list")
    for x in tables.ATTRS:
        t = T.get("Serde<%s>" % x)
        if t is None:
            r.fail(prop, "anchor-missing table Serde<%s>" % x, "cannot recover the serde key table")
            continue
        b = getattr(t, "loop_body", None) or t.parent or t.body
        keys = [blk for blk, term in b.calls() if fn_matches(term, r"ParseBuffer::<'.*>::call$") and not b.is_cleanup(blk)]
        commas = [blk for blk, term in b.calls() if fn_matches(term, r"ParseBuffer::<'.*>::parse$") and "Comma" in (term.get("dst_ty") or "") and not b.is_cleanup(blk)]
        empties = [blk for blk, term in b.calls() if fn_matches(term, r"ParseBuffer::<'.*>::is_empty$") and not b.is_cleanup(blk)]
        if not keys or not commas:
            r.fail(prop, "anchor-missing key-loop Serde<%s>" % x, "key reader or separator parse not found in parse()", b.file(), b.line())
            continue
        for cblk in commas:
            nxt = b.term(cblk).get("target")
            # a `?` that fails leaves parse() with an error (also when it sits in a spliced-in helper): not a way back to the key reader
            errs = [blk for blk, term in b.calls() if fn_matches(term, r"FromResidual.*::from_residual$") and not b.is_cleanup(blk)]
            ok = nxt is not None and b.all_paths_pass(nxt, set(empties) | set(errs), keys)
            r.inst(table="Serde<%s>" % x, comma_block=cblk, key_reader_blocks=keys, emptiness_tests=empties, tested_before_next_key=ok)
            if not ok:
                r.fail(prop, "trailing-comma-drops-list Serde<%s>" % x,
                       "after the `,` separator the next key is read without testing for the end of the list: a trailing comma makes parse() fail and the whole #[serde(..)] list is ignored",
                       b.file(), b.line())
    r.floor = 4
    return r


def _full_for_loop(b, next_blk):
    """is this `Iterator::next` the driver of a loop that only ends when the iterator does?  (every way out of the loop
    body leads back to the `next` call; the only exit is the `None` edge)"""
    t = b.term(next_blk)
    tgt = t.get("target")
    if tgt is None:
        return False
    sw = b.term(tgt)
    if sw["k"] != "switch":
        return False
    none_t = next((tg for v, tg in sw["targets"] if v == 0), None)
    some_t = next((tg for v, tg in sw["targets"] if v == 1), sw["otherwise"])
    if none_t is None or some_t is None:
        return False
    body_blocks = b.reachable_from([some_t], stop=lambda x: x == next_blk)
    if next_blk not in body_blocks:
        return False        # not a loop
    body_blocks -= {next_blk}
    for x in body_blocks:
        if b.is_cleanup(x):
            continue
        tt = b.term(x)
        if tt["k"] in ("return",):
            return False
    # a `break` shows as an edge to a block that cannot come back to the header
    back = set()
    preds = b.preds()
    todo = [next_blk]
    while todo:
        y = todo.pop()
        for p_ in preds[y]:
            if p_ not in back and not b.is_cleanup(p_):
                back.add(p_)
                todo.append(p_)
    for x in body_blocks:
        if b.is_cleanup(x) or x not in back:
            continue
        for s_ in b.succ(x):
            if s_ not in back and s_ != next_blk and not b.is_cleanup(s_):
                # leaves the loop from inside its body
                if b.term(s_)["k"] != "unreachable":
                    return False
    return True


def serde_lists_rule(crate, prop="C10"):
    """each #[serde(..)] list stands for itself: a list ts-rs cannot read (an empty `#[serde()]`, a list with a broken value)
    is dropped, the others are still merged"""
    r = Result("C10.R12", "utils::parse_serde_attrs folds over *all* #[serde(..)] attributes of the item: between `attrs.iter()` and the fold there are only per-element adaptors (filter, flat_map/filter_map over the parse result), nothing that ends the iteration at the first unreadable list or skips/limits elements by position")
    cands = [b for b in crate.bodies if re.search(r"utils::parse_serde_attrs$", b.path)]
    if not cands:
        r.fail(prop, "anchor-missing parse_serde_attrs", "not found")
        return r
    b = cands[0]
    STOPPERS = r"Iterator::(map_while|take_while|take|skip|skip_while|step_by|scan|try_fold|try_for_each|find|find_map|next|nth|last|position|any|all|peekable|fuse|zip)$"
    ads = []
    for blk, t in b.calls():
        if b.is_cleanup(blk) or not t.get("fn"):
            continue
        p = t["fn"]["path"]
        if re.search(r"Iterator::\w+$", p):
            ads.append(p.split("::")[-1])
        if fn_matches(t, r"Iterator::next$", r"Iterator>::next$") and _full_for_loop(b, blk):
            ads.append("for_each")          # a `for` loop without break / return in its body visits every element
            continue
        if fn_matches(t, STOPPERS):
            f, l = M.user_span(t["span"])
            r.fail(prop, "serde-lists-cut-short utils::parse_serde_attrs -> %s" % p.split("::")[-1],
                   "%s in parse_serde_attrs: after a #[serde(..)] list that cannot be read (e.g. the empty `#[serde()]` a macro_rules repetition expands to) the remaining lists are ignored, so where a key is written decides whether it acts" % p.split("::")[-1],
                   f, l)
    folds = [a for a in ads if a in ("fold", "for_each", "reduce")]
    r.inst(fn=b.path, iterator_calls=ads, folds_all=bool(folds))
    if not folds:
        r.fail(prop, "anchor-missing serde fold", "parse_serde_attrs does not fold over the attributes", b.file(), b.line())
    r.floor = 1
    return r


def nested_buffer_rule(crate, prop="C10"):
    """syn reports `unexpected token` when a nested ParseBuffer (the content of `( .. )`) is dropped with tokens left; in a
    Serde<X> parser that error takes the whole #[serde(..)] list with it"""
    r = Result("C10.R13", "wherever an attribute parser opens a delimited group (`parenthesized!`, `bracketed!`, `braced!`), the group's buffer is read to its end: by `parse_terminated`, by a loop on `is_empty()`, or by parsing a TokenStream; a parser that reads one entry and returns leaves tokens behind, and the surrounding list fails as a whole")
    n = 0
    for b in crate.bodies:
        if not (b.path.startswith("attr::") or b.path.startswith("utils::")):
            continue
        opens = [(blk, t) for blk, t in b.calls() if not b.is_cleanup(blk) and fn_matches(t, r"__private::parse_(parens|brackets|braces)$", r"group::parse_(parens|brackets|braces)$")]
        if not opens:
            continue
        n += len(opens)
        drains = [t for blk, t in b.calls() if not b.is_cleanup(blk) and
                  (fn_matches(t, r"parse_terminated$", r"ParseBuffer::<'.*>::is_empty$") or
                   (fn_matches(t, r"ParseBuffer::<'.*>::parse$") and "TokenStream" in (t.get("dst_ty") or "")))]
        ok = bool(drains)
        for blk, t in opens:
            f, l = M.user_span(t["span"])
            r.inst(fn=b.path, opens=t["fn"]["path"].split("::")[-1], where="%s:%s" % (f, l), drained_by=[d["fn"]["path"].split("::")[-1] for d in drains])
            if not ok:
                r.fail(prop, "nested-buffer-not-drained %s" % b.path,
                       "%s opens a delimited group and never reads it to the end (no parse_terminated, no is_empty loop): e.g. `bound(serialize = \"..\", deserialize = \"..\")` leaves `, deserialize = ..` behind, syn raises `unexpected token` when the buffer is dropped, and every other key of that #[serde(..)] list is lost" % b.path,
                       f, l)
    r.stats["groups_opened"] = n
    r.floor = 1
    return r


def run(ctx):
    out = []
    syn = ctx.syn
    fsets = ctx.featuresets()
    if "nowarn" not in fsets:
        fsets = fsets + ["nowarn"]   # the serde fallback has a branch compiled only under no-serde-warnings
    for fs in fsets:
        c = ctx.mir(fs)["ts_rs_macros"]
        T = tables.extract(c)
        res = [arm_agreement(T), supported_keys(T), eq_once(T), fallback_rule(T, c), skip_cursor_rule(c), serde_path_panics(c, syn), trailing_comma_rule(T), serde_lists_rule(c), nested_buffer_rule(c)]
        if fs == "default":
            nd = ctx.mir("nodefault") if ctx.tier == "thorough" else ctx.mir("nodefault_macros")
            from rules import templates as TT
            res += [ts_wins(syn, c), feature_gate(syn, nd), value_forms(T, syn), TT.written_value_rule(syn, "C10"), TT.post_merge_rule(c, "C10")]
        for r in res:
            if fs != "default":
                r.rule += "@" + fs
        out += res
    if ctx.tier == "thorough":
        from vlib import witness
        out.append(witness.rule("C10", ['UnknownSerdeIsInert', 'SerdeListFormsAccepted'], "C10.R10"))
    return out
