"""C06 — export results depend only on what was exported (structural clauses)."""
from rules import export_rules as E
from rules import merge_rules as MR

ASSUMPTIONS = ["path::absolute yields one canonical spelling per file (lexical normalisation; symlinks out of scope)"]


def run(ctx):
    out = []
    for fs in ctx.featuresets():
        c = ctx.mir(fs)["ts_rs"]
        res = [E.registry_key_rule(c, "C06"), E.first_touch_rule(c, "C06"), E.env_rule(c, "C06"), E.walk_rule(c, "C06"),
               E.single_writer_rule(c, "C06", ctx.syn), MR.import_union_rule(c, "C06", rule="C06.R5"), E.normaliser_purity_rule(c, "C06"), E.fs_query_owner_rule(c, "C06"), E.visitor_predicates_rule(c, "C06", rule="C06.R10")]
        for r in res:
            if fs != "default":
                r.rule += "@" + fs
        out += res
    out.append(E.normaliser_rule(ctx.syn, "C06", rule="C06.R6", crate=ctx.mir("default")["ts_rs"]))
    from rules import templates as T
    out.append(T.generics_rule(ctx.syn, "C06", rule="C06.R8", crate=ctx.mir("default")["ts_rs_macros"]))
    return out
