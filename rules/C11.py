"""C11 — an export writes exactly the root's and its dependencies' files (structural clauses)."""
from rules import export_rules as E
from rules import templates as T
from rules import field_rules as F
from rules import macro_mir as MM

ASSUMPTIONS = ["the directory-form/file-form decision inside the generated output_path() is a run-time string test and is not decided"]


def run(ctx):
    out = []
    for fs in ctx.featuresets():
        c = ctx.mir(fs)["ts_rs"]
        res = [E.single_writer_rule(c, "C11", ctx.syn), E.walk_rule(c, "C11"), E.path_agreement_rule(c, "C11"), E.type_arg_discipline_rule(c, "C11"), E.entry_reaches_writer_rule(c, "C11"), E.visitor_predicates_rule(c, "C11"), E.mkdir_origin_rule(c, "C11")]
        for r in res:
            if fs != "default":
                r.rule += "@" + fs
        out += res
    out.append(MM.same_relation_rule(ctx.mir("default")["ts_rs"], "C11", rule="C11.R11"))
    out.append(F.output_path_rule(ctx.mir("default")["ts_rs_macros"], "C11"))
    out.append(T.export_test_rule(ctx.syn, "C11", crate=ctx.mir("default")["ts_rs_macros"]))
    out.append(T.deps_emission_rule(ctx.syn, ctx.mir("default")["ts_rs_macros"], "C11", "C11.R6"))
    out.append(T.generics_visit_rule(ctx.syn, "C11", "C11.R7"))
    out.append(T.impl_assembly_rule(ctx.syn, "C11", "C11.R9"))
    return out
