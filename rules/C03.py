"""C03 — exported files import exactly the names they use (generator pairing + runtime shape)."""
from rules import templates as T
from rules import macro_mir as MM
from rules import libimpls as L
from rules import export_rules as E
from rules import determinism as D
from rules import field_rules as F

ASSUMPTIONS = ["correctness of the relative specifier itself (C08) and name collisions between different types with one TypeScript name are NOT decided"]


def run(ctx):
    out = []
    for fs in ctx.featuresets():
        m = ctx.mir(fs)
        res = [T.deps_record_rule(m["ts_rs_macros"], "C03"), L.visit_agreement_rule(m["ts_rs"], "C03", rule="C03.R2"),
               MM.import_shape_rule(m["ts_rs"], "C03"), MM.same_relation_rule(m["ts_rs"], "C03"), E.import_prefix_rule(m["ts_rs"], "C03")]
        if fs == "default":
            res = [F.pairing_rule(ctx.mir("default")["ts_rs_macros"], "C03"), F.selector_rule(ctx.mir("default")["ts_rs_macros"], "C03", rule="C03.R1b"),
                   T.deps_emission_rule(ctx.syn, m["ts_rs_macros"], "C03", "C03.R6"), D.dedup_key_rule(ctx.syn, "C03", rule="C03.R7", crate=m["ts_rs"]), T.generics_visit_rule(ctx.syn, "C03", "C03.R8")] + res
        else:
            for r in res:
                r.rule += "@" + fs
                r.floor = None
        out += res
    if ctx.tier == "thorough":
        from vlib import expanded
        out.append(expanded.cross_check("C03"))
    return out
