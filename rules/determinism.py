"""C13 (and C05.R4): no hash-iteration order and no dependency-visit order reaches an output."""
import json
import os
import re

from vlib.common import Result, VERIF
from vlib import mirlib as M
from vlib.mirlib import fn_matches, op_local

HX = re.compile(r"collections::hash_(map|set)::(Iter|IntoIter|IterMut|Keys|Values|ValuesMut|IntoKeys|IntoValues|Drain|Union|Intersection|Difference|SymmetricDifference|ExtractIf)\b|hashbrown::")
HASH_COLL = re.compile(r"^(&(mut )?)?std::collections::Hash(Map|Set)<")
ORDER_FREE_DST = re.compile(r"^std::collections::(HashMap|HashSet|BTreeMap|BTreeSet)<")
ORDER_FREE_CALLEES = [r"Iterator::(count|any|all|sum|product|min|max|min_by|max_by|min_by_key|max_by_key)$", r"::len$", r"::is_empty$",
                      r"ExactSizeIterator::len$"]


def _justified():
    with open(os.path.join(VERIF, "reference/justified_hash_iteration.json")) as fh:
        return json.load(fh)["sites"]


def _short(t):
    f = t.get("fn") or {}
    return f.get("res") or f.get("path") or "indirect"


def _elem(ty):
    m = HX.search(ty)
    if not m:
        return ty[:80]
    # keep the iterator type with its element, drop lifetimes
    tail = ty[m.start():]
    depth = 0
    out = ""
    for ch in tail:
        out += ch
        if ch == "<":
            depth += 1
        elif ch == ">":
            depth -= 1
            if depth == 0:
                break
    return re.sub(r"'[a-z_]+,? ?", "", out)


def _loop_accumulates_into_sets(body, next_blk):
    """`for x in <hash iterator> { .. }`: order-insensitive if the loop body has no effect other than handing `&mut` to
    order-free collections (HashSet/HashMap/BTreeSet/BTreeMap) - inserting the same elements in another order gives the
    same collection.  Any other `&mut` argument (a Vec, a String, a TokenStream), any write through a projection, or an
    early exit that depends on the element makes the loop order-sensitive as far as this test can tell."""
    t = body.term(next_blk)
    fwd = body.reachable_from([t["target"]]) if t.get("target") is not None else set()
    preds = body.preds()
    back = set()
    work = [next_blk]
    while work:
        x = work.pop()
        for p in preds[x]:
            if p not in back and not body.is_cleanup(p):
                back.add(p)
                work.append(p)
    region = (fwd & back) | {next_blk}
    it_local = op_local(t["args"][0]) if t.get("args") else None
    for blk in region:
        if body.is_cleanup(blk):
            continue
        for st in body.stmts(blk):
            if st["k"] == "assign" and st["dst"]["p"] and not all(p.startswith("as ") or p.startswith(".Some") or "::" in p for p in st["dst"]["p"]):
                return False
        tt = body.term(blk)
        if tt["k"] == "return":
            return False
        if tt["k"] != "call" or blk == next_blk:
            continue
        for ty in (tt.get("arg_tys") or []):
            if ty.startswith("&mut "):
                inner = ty[5:]
                if ORDER_FREE_DST.search(inner) or HX.search(inner) or "iter::" in inner:
                    continue
                return False
    return True


def hash_iteration_rule(crate, prop, expect_zero=False, rule="C13.R1"):
    r = Result(rule, "every consumption of a hash-ordered iterator (HashMap/HashSet iteration, by static receiver type) is order-insensitive (collect/extend into a set or map, count/any/all/min/max) or is a justified site whose order cannot reach an output")
    just = {(j["crate"], j["function"], j["iterator"]): j for j in _justified()}
    creations = 0
    for body in crate.bodies:
        for b, t in body.calls():
            if body.is_cleanup(b):
                continue
            atys = t.get("arg_tys") or []
            dty = t.get("dst_ty", "")
            a_hx = [x for x in atys if HX.search(x)]
            d_hx = bool(HX.search(dty))
            f, l = M.user_span(t["span"])
            if not a_hx and d_hx:
                creations += 1
                continue
            consumed = None
            if a_hx and not d_hx:
                consumed = a_hx[0]
            elif fn_matches(t, r"iter::Extend::extend$", r"Extend<.*>>::extend$", r"iter::FromIterator::from_iter$", r"FromIterator<.*>>::from_iter$") \
                    and len(atys) >= 1 and any(HASH_COLL.search(x) for x in atys[-1:]):
                # a whole hash collection handed to extend/from_iter
                recv = atys[0] if fn_matches(t, r"extend$") else dty
                if not (HASH_COLL.search(recv) or ORDER_FREE_DST.search(recv.replace("&mut ", ""))):
                    consumed = atys[-1]
            if consumed is None:
                continue
            free = bool(ORDER_FREE_DST.search(dty)) or fn_matches(t, *ORDER_FREE_CALLEES)
            if not free and fn_matches(t, r"Iterator>::next$", r"Iterator::next$") and _loop_accumulates_into_sets(body, b):
                free = True
            if fn_matches(t, r"extend$") and atys and ORDER_FREE_DST.search(atys[0].replace("&mut ", "").replace("&", "")):
                free = True
            it = _elem(consumed)
            fn = re.sub(r"::\{closure#\d+\}", "", body.path)
            j = just.get((crate.name, fn, it))
            status = "order-insensitive" if free else ("justified" if j else "UNJUSTIFIED")
            r.inst(crate=crate.name, fn=fn, callee=_short(t), iterator=it, where="%s:%s" % (f, l), status=status,
                   reason=(j or {}).get("reason"))
            if status == "UNJUSTIFIED":
                r.fail(prop, "hash-order-consumed %s [%s]" % (fn, it),
                       "hash-ordered iteration %s is consumed by %s, which depends on iteration order (per-process random seed); order could reach generated code or output" % (it, _short(t)), f, l)
    r.stats = {"hash_iterator_creations": creations}
    return r


def visit_order_rule(crate, prop, rule="C13.R2"):
    r = Result(rule, "the visit-ordered Vec from TS::dependencies() is consumed only by collecting into BTreeMap/BTreeSet; no loop in the exporter iterates a Dependency sequence that is not a btree iterator; merge/generate_imports hold no hash collections")
    n = 0
    for body in crate.bodies:
        if not (body.path.startswith("export::") or body.path.startswith("TS::")):
            continue
        for b, t in body.calls():
            if body.is_cleanup(b):
                continue
            if fn_matches(t, r"TS::dependencies$"):
                n += 1
                fate = _forward(body, t["dst"]["l"], set())
                # follow the list into functions of the exporter it is handed to (one level per step, three at most)
                for _ in range(3):
                    nxt, changed = [], False
                    for x in fate:
                        mm = re.match(r"^arg:(.+):(\d+)$", x)
                        hb = crate.body(mm.group(1)) if mm else None
                        if mm and hb is not None and int(mm.group(2)) + 1 <= hb.raw["arg_count"]:
                            sub = _forward(hb, int(mm.group(2)) + 1, set())
                            # a loop in the callee that only fills ordered/keyed collections sorts just as `collect` does
                            hl = [bb for bb, tt in hb.calls() if not hb.is_cleanup(bb) and fn_matches(tt, r"Iterator>::next$", r"Iterator::next$") and "Dependency" in (tt.get("arg_tys") or [""])[0] and "btree" not in (tt.get("arg_tys") or [""])[0]]
                            if hl and all(_loop_accumulates_into_sets(hb, bb) for bb in hl):
                                sub = ["collect->std::collections::BTree (loop in %s)" % hb.path if re.search(r"Iterator>?::next$", s2) else s2 for s2 in sub]
                            nxt += sub if sub else ["%s (parameter %s, not consumed in a way this rule reads)" % (mm.group(1), mm.group(2))]
                            changed = True
                        else:
                            nxt.append(x)
                    fate = nxt
                    if not changed:
                        break
                f, l = M.user_span(t["span"])
                # a `for dep in &deps { .. }` whose body only inserts into ordered/keyed collections sorts just as `collect` does
                loops = [bb for bb, tt in body.calls() if not body.is_cleanup(bb) and fn_matches(tt, r"Iterator>::next$", r"Iterator::next$")
                         and "Dependency" in (tt.get("arg_tys") or [""])[0] and "btree" not in (tt.get("arg_tys") or [""])[0]]
                loops_ok = bool(loops) and all(_loop_accumulates_into_sets(body, bb) for bb in loops)
                ok = bool(fate) and all(x.startswith("collect->std::collections::BTree") or (loops_ok and re.search(r"Iterator>?::next$", x)) for x in fate)
                r.inst(fn=body.path, source="TS::dependencies()", consumed_by=fate, where="%s:%s" % (f, l), ok=ok)
                if not fate:
                    r.fail(prop, "anchor-missing consumer of TS::dependencies() in %s" % body.path, "what consumes the dependency list could not be followed", f, l)
                    continue
                if not ok:
                    r.fail(prop, "visit-order-consumed %s" % body.path,
                           "result of TS::dependencies() (visit order, differs between compilations) is consumed by %s instead of being sorted through a BTreeMap/BTreeSet" % fate, f, l)
            if fn_matches(t, r"Iterator>::next$", r"Iterator::next$", r"Iterator::for_each$", r"Iterator::fold$"):
                aty = (t.get("arg_tys") or [""])[0]
                if "Dependency" in aty and "btree" not in aty and not (fn_matches(t, r"Iterator>::next$", r"Iterator::next$") and _loop_accumulates_into_sets(body, b)):
                    f, l = M.user_span(t["span"])
                    r.inst(fn=body.path, callee=_short(t), iterator=aty[:120], where="%s:%s" % (f, l), ok=False)
                    r.fail(prop, "visit-order-loop %s" % body.path, "loop over a Dependency sequence in visit order: %s" % aty[:120], f, l)
    if n == 0:
        r.fail(prop, "anchor-missing TS::dependencies use", "no call of TS::dependencies() found in the exporter")
    for nm in ("export::merge", "export::generate_imports"):
        b = crate.body(nm)
        if b is None:
            r.fail(prop, "anchor-missing " + nm, "function not found")
            continue
        # the function together with the helpers and closures only it uses
        group = [x for x in crate.bodies if x.path in crate.owned_by(nm)] or [b]
        bad = [(i, l["name"], l["ty"]) for x in group for i, l in enumerate(x.locals) if re.search(r"collections::Hash(Map|Set)<", l["ty"])]
        ordered = [(l["name"], l["ty"][:80]) for x in group for l in x.locals if l["name"] and re.search(r"collections::BTree(Map|Set)<", l["ty"])]
        r.inst(fn=nm, ordered_locals=ordered, hash_locals=len(bad))
        if not ordered:
            r.fail(prop, "no-ordered-collection " + nm, "%s no longer accumulates imports in a BTreeMap/BTreeSet" % nm, b.file(), b.line())
        for i, name, ty in bad:
            r.fail(prop, "hash-collection-in-output-path %s %s" % (nm, name or "_%d" % i), "hash collection %s in %s (imports/declarations must be ordered)" % (ty[:80], nm), b.file(), b.line())
    r.floor = 3
    return r


ADAPTORS = [r"Iterator::(filter|map|filter_map|peekable|skip|take|chain|enumerate|rev|cloned|copied|inspect|flat_map|flatten|zip|by_ref)$",
            r"IntoIterator>::into_iter$", r"IntoIterator::into_iter$", r"slice::<impl \[T\]>::iter$", r"Vec::<T, A>::(iter|as_slice|into_iter)$",
            r"Deref>::deref$", r"Deref::deref$", r"vec::Vec<T, A> as std::ops::Deref", r"::as_ref$", r"::as_slice$"]


def _forward(body, local, seen):
    """terminal consumers of a value, following borrows, moves and iterator adaptors"""
    if local in seen:
        return []
    seen.add(local)
    out = []
    for bb in range(body.n):
        if body.is_cleanup(bb):
            continue
        for st in body.stmts(bb):
            if st["k"] != "assign":
                continue
            rv = st["rv"]
            src = None
            if rv["k"] in ("ref",):
                src = rv["pl"]["l"]
            elif rv["k"] == "use":
                pl = M.op_place(rv["op"])
                src = pl["l"] if pl else None
            if src == local and not st["dst"]["p"]:
                out += _forward(body, st["dst"]["l"], seen)
        t = body.term(bb)
        if t["k"] == "call" and t["args"]:
            a0 = M.op_place(t["args"][0])
            if a0 and a0["l"] == local:
                if fn_matches(t, r"Iterator::collect$", r"FromIterator"):
                    out.append("collect->" + t.get("dst_ty", "?")[:60])
                elif fn_matches(t, *ADAPTORS):
                    out += _forward(body, t["dst"]["l"], seen)
                elif fn_matches(t, r"::len$", r"::is_empty$"):
                    pass
                else:
                    out.append(_short(t))
            else:
                # handed on as a later argument (`generate_imports(&mut buf, &deps, ..)`): the callee's parameter carries it
                for k, a in enumerate(t["args"][1:], start=1):
                    pa = M.op_place(a)
                    if pa and pa["l"] == local and not pa["p"]:
                        out.append("arg:%s:%d" % ((t.get("fn") or {}).get("res") or (t.get("fn") or {}).get("path") or "?", k))
    return out


def source_order_rule(crate, prop, rule="C13.R3"):
    r = Result(rule, "fields, tuple elements and variants are emitted in source order: named(), tuple() and enum_def() (helpers and closures included) walk the syn Punctuated list front to back (a `for`, or an in-order adaptor such as try_for_each / map / fold - never rev(), never a sort), and every collection of generated token streams they hold is a Vec (no hash or tree collection, which would re-order members)")
    want = [("types::named::named", r"punctuated::Iter<'_, syn::Field>"),
            ("types::tuple::tuple", r"punctuated::Iter<'_, syn::Field>"),
            ("types::r#enum::enum_def", r"punctuated::Iter<'_, syn::Variant>")]
    INORDER = [r"Iterator>::next$", r"Iterator::next$", r"Iterator::(try_for_each|for_each|map|filter_map|try_fold|fold|enumerate|filter|zip|peekable|by_ref|collect|flat_map|map_while|inspect|cloned|copied)$",
               r"IntoIterator>::into_iter$"]
    REORDER = [r"Iterator::rev$", r"slice::<impl \[T\]>::(sort\w*|reverse)$", r"DoubleEndedIterator::(next_back|rfold|rev)"]
    for fn, it in want:
        b0 = crate.body(fn)
        if b0 is None:
            r.fail(prop, "anchor-missing " + fn, "function not found")
            continue
        group = crate.owned_by(fn)
        bodies = [crate.inlined(b0)] + [x for x in crate.bodies if x.path in group and x.kind == "Closure"]
        bad_coll = sorted({l["ty"][:70] for b in bodies for l in b.locals if re.search(r"collections::(Hash|BTree)(Map|Set)<[^>]*TokenStream", l["ty"])})
        vecs = any(re.search(r"vec::Vec<proc_macro2::TokenStream>", l["ty"]) for b in bodies for l in b.locals)
        walks = [(b, blk, t) for b in bodies for blk, t in b.calls() if not b.is_cleanup(blk) and re.search(it, (t.get("arg_tys") or [""])[0])]
        ok_it = any(fn_matches(t, *INORDER) for _, _, t in walks) and not any(fn_matches(t, *REORDER) for _, _, t in walks)
        r.inst(fn=fn, token_stream_collections="Vec" if vecs and not bad_coll else bad_coll or None, walks=sorted({(M.callee(t) or "?").split("::")[-1] for _, _, t in walks}), iterates=it, ok=vecs and not bad_coll and ok_it)
        if bad_coll or not vecs:
            r.fail(prop, "accumulator-not-vec %s" % fn, "%s keeps generated members in %s (source order would be lost)" % (fn, bad_coll or "no Vec<TokenStream>"), b0.file(), b0.line())
        if not ok_it:
            r.fail(prop, "not-source-order %s" % fn, "%s does not walk %s front to back" % (fn, it), b0.file(), b0.line())
    r.floor = 3
    return r


def ordered_output_rule(crate, prop, rule="C05.R4"):
    r1 = hash_iteration_rule(crate, prop, expect_zero=True, rule=rule + "a")
    r2 = visit_order_rule(crate, prop, rule=rule)
    r2.instances = r1.instances + r2.instances
    r2.findings = r1.findings + r2.findings
    return r2


def dedup_key_rule(syn, prop, rule="C13.R6", crate=None):
    """`T::dependencies()` is in the visit order of the derive's hash set.  generate_imports() puts it into a BTreeMap keyed
    by parts of each Dependency (last insertion wins on equal keys), then reads fields of the surviving values.  The result
    is independent of the order only if equal keys imply equal values as far as those fields go."""
    r = Result(rule, "in generate_imports() (helpers included) every map whose values are dependencies is keyed by both things the import loop reads from a Dependency afterwards - its TypeScript name (String) and its output path (PathBuf) - so that which of two entries with equal keys survives (it depends on the visit order of the derive's hash set) cannot change the output; decided on the key *type* of the map, not on how it is filled")
    gi = crate.ibody("export::generate_imports") if crate is not None else None
    if gi is None:
        r.fail(prop, "anchor-missing generate_imports", "not found")
        return r
    tys = set()
    group = crate.owned_by("export::generate_imports")
    for b in [gi] + [x for x in crate.bodies if x.path in group and x.kind == "Closure"]:
        for l in b.locals:
            for m in re.finditer(r"BTreeMap<(.*), &?(?:'\w+ )?Dependency>", l["ty"]):
                tys.add(m.group(1))
    for k in sorted(tys):
        has_name, has_path = "String" in k or "str" in k, "PathBuf" in k or "Path" in k
        r.inst(fn=gi.path, dedup_key_type=k, contains_name=has_name, contains_output_path=has_path)
        if not (has_name and has_path):
            r.fail(prop, "dedup-key-incomplete generate_imports missing=%s" % ("output_path" if has_name else "ts_name"),
                   "dependencies are de-duplicated under a key of type `%s`, but the import loop reads both the name and the output path: two dependencies with the same name in different files (`api::Item`, `db::Item`) collapse to whichever was visited last, and the visit order of the derive's HashSet differs from one compilation to the next" % k,
                   gi.file(), gi.line())
    if not tys:
        r.inst(fn=gi.path, dedup_key_type=None, note="no map from a key to a Dependency: nothing is de-duplicated by key (the import table is a map of sets)")
    r.floor = 1
    return r
