"""C14 — inline, flatten and `as` change presentation, never meaning (routing/selector clauses)."""
from rules import templates as T
from rules import text_rules as X
from rules import field_rules as F
from rules import libimpls as L

ASSUMPTIONS = ["denotational equality of two bindings is NOT decided; only that every presentation choice is routed consistently"]


def run(ctx):
    return [T.type_as_rule(ctx.syn, "C14"), F.variant_rule(ctx.mir("default")["ts_rs_macros"], "C14", rule="C14.R2"), F.selector_rule(ctx.mir("default")["ts_rs_macros"], "C14"), T.decl_rule(ctx.syn, "C14", rule="C14.R4", crate=ctx.mir("default")["ts_rs_macros"]),
            F.pairing_rule(ctx.mir("default")["ts_rs_macros"], "C14", rule="C14.R5"), T.enum_flatten_parens_rule(ctx.syn, "C14"), F.named_composition_rule(ctx.mir("default")["ts_rs_macros"], "C14"), X.underscore_walker_rule(ctx.mir("default")["ts_rs_macros"], "C14"), T.object_merge_rule(ctx.syn, "C14", "C14.R9"), T.paren_strip_rule(ctx.syn, "C14", "C14.R10"), F.intersection_operand_rule(ctx.mir("default")["ts_rs_macros"], "C14", "C14.R12"),
            L.class_table_rule(ctx.syn, ctx.mir("default")["ts_rs"], "C14", rule="C14.R11"), L.forwarding_rule(ctx.mir("default")["ts_rs"], "C14", rule="C14.R14"), L.totality_rule(ctx.mir("default")["ts_rs"], "C14", rule="C14.R13"), T.generated_state_rule(ctx.syn, "C14", "C14.R14"), T.enum_override_order_rule(ctx.syn, "C14", "C14.R15", crate=ctx.mir("default")["ts_rs_macros"]), T.operand_scanner_rule(ctx.syn, "C14", rule="C14.R16"), L.units_rule(ctx.mir("default")["ts_rs"], "C14")]
