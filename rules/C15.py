"""C15 — doc comments are carried over, contained, and never alter the type."""
from rules import templates as T
from rules import text_rules as X
from rules import field_rules as F

ASSUMPTIONS = ["that the comment contains the documentation text verbatim is NOT decided"]


def run(ctx):
    m = ctx.mir("default")
    out = [F.docs_operations_rule(m["ts_rs_macros"], "C15"), F.docs_slot_rule(m["ts_rs_macros"], "C15"), T.layout_rule(m["ts_rs"], "C15", rule="C15.R2b"),
           X.docs_containment_rule(m["ts_rs_macros"], "C15"), X.docs_separator_rule(m["ts_rs_macros"], m["ts_rs"], "C15")]
    out.append(F.docs_init_rule(ctx.mir("default")["ts_rs_macros"], "C15"))
    out.append(T.impl_assembly_rule(ctx.syn, "C15", "C15.R8"))
    from rules import libimpls as L
    out.append(L.units_rule(m["ts_rs"], "C15", rule="C15.R10"))
    out.append(T.operand_scanner_rule(ctx.syn, "C15", rule="C15.R11"))
    from rules import merge_rules as MR
    out.append(MR.merge_verbatim_rule(m["ts_rs"], "C15", rule="C15.R6"))
    from rules import export_rules as E
    out.append(E.write_path_verbatim_rule(m["ts_rs"], "C15", rule="C15.R9"))
    for fs in ctx.featuresets():
        r = T.docs_unconditional_rule(ctx.mir(fs)["ts_rs_macros"], "C15")
        if fs != "default":
            r.rule += "@" + fs
        out.append(r)
    return out
