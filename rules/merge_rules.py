"""C05.R6–R8 (also used by C04): agreement between the writers of an exported file (export_to_string,
generate_imports, generate_decl, the derive's decl templates) and its reader/re-writer (merge),
plus two rules on how merge() may treat existing declaration blocks."""
import json
import re

from vlib.common import Result
from vlib import mirlib as M
from vlib import synlib as S
from vlib.mirlib import fn_matches, op_const, op_local, op_place, origins


def _fmt_unescape(lit):
    return lit.replace("{{", "{").replace("}}", "}")


def _import_line(ems):
    """canonical text of the import statement a function emits: literal pieces in control-flow order, one ARG per
    interpolated value, the name separator taken out (it is reported separately)"""
    pieces = [t for _, t in ems]
    seps = [t for t in pieces if t in (", ", "<join:, >")]
    txt = "".join(t for t in pieces if t not in (", ", "<join:, >") and not t.startswith("<join:"))
    txt = re.sub(M.ARG + "+", M.ARG, txt)
    m = re.search(r"import type \{.*?\";\n?", txt, re.S)
    if not m:
        # an import statement is written, but not one that ends in `";`: kept as it is, so that the two sides differ
        m = re.search(r"import type \{.*?;\n?", txt, re.S) or re.search(r"import type \{.*", txt, re.S)
    return (m.group(0) if m else None), bool(seps)


def writer_reader_rule(syn, prop, rule="C05.R6", crate=None):
    r = Result(rule, "writer/reader agreement for shared files, read off the literal text the two functions append (MIR, helpers spliced in, control-flow order): the import statement re-emitted by merge() is character for character the one generate_imports() writes, both separate names by `, `; every literal merge() parses import lines with occurs in that statement; DECLARATION_START equals generate_decl's `export ` followed by the `type ` that every decl template starts with; the header ends with the blank line merge() splits on")
    gi = crate.ibody("export::generate_imports") if crate else None
    mg = crate.ibody("export::merge") if crate else None
    gd = syn.fn("export::generate_decl", "export.rs")
    if not (gi and mg and gd):
        r.fail(prop, "anchor-missing writer/reader", "generate_imports / merge / generate_decl not found")
        return r
    w_ems, m_ems = M.group_emissions(crate, "export::generate_imports"), M.group_emissions(crate, "export::merge")
    w_line, w_sep = _import_line(w_ems)
    m_line, m_sep = _import_line(m_ems)
    show = lambda x: None if x is None else x.replace(M.ARG, "<..>")
    ok = w_line is not None and w_line == m_line and w_sep == m_sep
    r.inst(writer_import_line=show(w_line), merge_import_line=show(m_line), names_separated_by_comma=(w_sep, m_sep), same_shape=ok)
    if w_line is None or m_line is None:
        # no import statement could be read off one of the two sides (it is assembled in a way the text reader does not follow)
        r.fail(prop, "anchor-missing import statement of %s" % ("generate_imports" if w_line is None else "merge"), "the text of the import statement could not be read", (gi if w_line is None else mg).file(), (gi if w_line is None else mg).line())
        r.floor = 6
        return r
    if not ok:
        r.fail(prop, "import-line-shape generate_imports/merge", "generate_imports writes %r but merge() re-emits %r: after a merge the file's imports have a different shape than freshly written ones" % (show(w_line), show(m_line)),
               mg.file(), mg.line())
    # merge's parse markers must occur in the writer's line
    sample = (w_line or "").replace(M.ARG, "X, X", 1).replace(M.ARG, "P")
    group = crate.owned_by("export::merge")
    markers = []
    for b in crate.bodies:
        if b.path not in group:
            continue
        for blk, t in b.calls():
            if b.is_cleanup(blk) or not fn_matches(t, r"str::<impl str>::(split_once|rsplit_once|trim_start_matches|trim_end_matches|split|strip_prefix|strip_suffix|starts_with|ends_with|find)$"):
                continue
            c = op_const(t["args"][1]) if len(t["args"]) > 1 else None
            v = (c or {}).get("str")
            if v is None or not v.strip() or v == "\n\n" or "DECLARATION_START" in json.dumps(c) or v == "export type ":
                continue
            markers.append(v)
    for mk in sorted(set(markers)):
        ok = mk in sample
        r.inst(merge_marker=mk, occurs_in_written_import_line=ok)
        if not ok:
            r.fail(prop, "import-marker-mismatch %r" % mk, "merge() parses import lines with marker %r, which does not occur in the line generate_imports writes (%r)" % (mk, sample), mg.file(), mg.line())
    # DECLARATION_START
    ds = [it for it in syn.items if it["kind"] == "const" and it["name"] == "DECLARATION_START" and it["file"].endswith("export.rs")]
    # the literal the file text has directly in front of what comes from T::decl() (symbolic reading of export_to_string)
    from vlib import symstr as SS
    ets = crate.body("export::export_to_string")
    atoms = SS.expand(crate, SS.Sym(crate, ets).returned(), stop=[r"generate_imports$"]) if ets is not None else []
    exp = []
    for k, a in enumerate(atoms):
        if a[0] != "lit" and SS.mentions(a, r"TS::decl$"):
            exp = [atoms[k - 1][1]] if k and atoms[k - 1][0] == "lit" else ["<no literal>"]
    decl_prefixes = set()
    gdf = syn.fn("DerivedTS::generate_decl_fn", "macros/src/lib.rs")
    if gdf:
        for f2 in [gdf] + [f for f in syn.fns if f["file"] == gdf["file"] and f is not gdf and any(S.squash(e.get("func", "")).endswith(f["name"]) for e in S.events(gdf, "call"))]:
            for e in S.events(f2, "macro"):
                if e["name"] in ("quote",):
                    for lit, _ in S.format_calls(e["tokens"]):
                        v = S.unquote(lit) or ""
                        if v.startswith("type "):
                            decl_prefixes.add("type ")
                        elif v:
                            decl_prefixes.add(v[:5])
    val = S.unquote(ds[0]["value"].strip()) if ds else None
    ok = bool(ds) and len(exp) == 1 and decl_prefixes == {"type "} and val == exp[0] + "type "
    r.inst(DECLARATION_START=val, generate_decl_literal=exp, decl_template_prefixes=sorted(decl_prefixes), agree=ok)
    if not ok:
        r.fail(prop, "declaration-start-mismatch", "merge() looks for %r but declarations are written as %r + %s" % (val, exp, sorted(decl_prefixes)), mg.file(), mg.line())
    # header terminated by a blank line: the last text generate_imports appends on its way to `Ok` is a lone line feed
    # (every import statement ends in one), and merge() cuts the header off at the first empty line
    rets = [b for b in gi.returns()]
    last = [(b, t) for b, t in w_ems if all(gi.dominates(b, x) or x in M.error_blocks(gi) for x in rets)]
    plain = crate.body("export::generate_imports")
    own = [(b, t) for b, t in w_ems if b is not None]
    tail = own[-1][1] if own else None
    ok = tail == "\n" and bool(w_line) and w_line.endswith("\n") and gi.all_paths_pass(0, {own[-1][0]} | M.error_blocks(gi), rets)
    seps = []
    for b in crate.bodies:
        if b.path in group:
            for blk, t in b.calls():
                if not b.is_cleanup(blk) and fn_matches(t, r"str::<impl str>::split_once$") and len(t["args"]) > 1 and (op_const(t["args"][1]) or {}).get("str") is not None:
                    v = op_const(t["args"][1])["str"]
                    if not v.strip(" "):
                        continue
                    if set(v) == {"\n"}:
                        seps.append(v)
    r.inst(header_blank_line_written=ok, merge_splits_header_on=sorted(set(seps)))
    if not ok or set(seps) != {"\n\n"}:
        r.fail(prop, "header-separator-mismatch", "generate_imports does not end the header with an empty line, or merge() splits the header on %r" % seps, gi.file(), gi.line())
    r.floor = 6
    return r


def merge_blocks_rule(crate, prop, rule="C05.R7"):
    r = Result(rule, "in merge(), an existing declaration block only ever flows to the output buffer (push_str), to the name extraction and to comparisons: it is never stored as a value of a keyed map/set (key collisions would drop declarations), and the declaration marker is never matched with a start-anchored operation against a raw block (blocks may start with a doc comment)")
    scope = [b for b in crate.bodies if re.match(r"^export::(merge|decl_name|declared_name|\w*name\w*)(::|$)", b.path)]
    mg = crate.body("export::merge")
    if mg is None:
        r.fail(prop, "anchor-missing export::merge", "not found")
        return r
    # callees of merge inside the crate
    reach, _ = crate.reachable_bodies(["export::merge"], no_impls_of=("TS",))
    n_push = 0
    for b in crate.bodies:
        if b.path not in reach:
            continue
        marker_consts = set()
        for blk, t in b.calls():
            if b.is_cleanup(blk):
                continue
            # (a) start-anchored match of the declaration marker
            if fn_matches(t, r"str::<impl str>::(strip_prefix|trim_start_matches|starts_with)") and len(t["args"]) >= 2:
                c = op_const(t["args"][1]) or {}
                lit = c.get("str")
                if lit is None and "DECLARATION_START" in (c.get("uneval") or c.get("dbg") or ""):
                    lit = "export type "
                if lit is None:
                    for o in origins(b, op_local(t["args"][1]), identity=[]):
                        if o["kind"] == "const" and o["c"]:
                            lit = o["c"].get("str") or ("export type " if "DECLARATION_START" in (o["c"].get("uneval") or o["c"].get("dbg") or "") else None)
                if lit == "export type ":
                    f, l = M.user_span(t["span"])
                    r.inst(fn=b.path, callee=t["fn"]["path"], marker=lit, where="%s:%s" % (f, l), anchored=True)
                    r.fail(prop, "anchored-declaration-marker %s" % re.sub(r"::\{closure#\d+\}", "", b.path),
                           "%s(\"export type \") is anchored at the start of the block, but generate_decl writes the type's doc comment before `export type`: every documented declaration gets the same sort key" % t["fn"]["path"].split("::")[-1],
                           f, l)
            # (b) blocks stored in keyed collections
            if fn_matches(t, r"collections::(BTreeMap|HashMap)::<K, V(, S)?(, A)?>::insert$", r"collections::btree_map::Entry.*::or_insert", r"collections::(BTreeSet|HashSet)::<T(, S)?(, A)?>::insert$") \
                    and b.path.startswith("export::merge"):
                vals = t["args"][2:] if "Map" in t["fn"]["path"] else t["args"][1:]
                for a in vals:
                    l0 = op_local(a)
                    if l0 is None:
                        continue
                    org = origins(b, l0, identity=M.IDENTITY_CALLS + [r"str::<impl str>::trim", r"Option::<T>::unwrap"])
                    from_blocks = False
                    for o in org:
                        if o["kind"] == "call" and fn_matches(o["t"], r"Iterator>::next$"):
                            it_org = origins(b, op_local(o["t"]["args"][0]), identity=M.IDENTITY_CALLS + [r"Iterator::(map|peekable|by_ref)$", r"IntoIterator>::into_iter$"])
                            for x in it_org:
                                if x["kind"] == "call" and fn_matches(x["t"], r"str::<impl str>::split$") and len(x["t"]["args"]) > 1:
                                    cc = op_const(x["t"]["args"][1]) or {}
                                    if cc.get("str") == "\n\n":
                                        from_blocks = True
                    is_decl_param = any(o["kind"] == "arg" for o in org) and not any(o["kind"] == "call" for o in org)
                    f, l = M.user_span(t["span"])
                    r.inst(fn=b.path, callee=t["fn"]["path"].split("::")[-2] + "::insert", value_is_declaration_block=from_blocks, where="%s:%s" % (f, l))
                    if from_blocks:
                        r.fail(prop, "declaration-stored-in-keyed-collection export::merge", "an existing declaration block is stored as a value in a keyed collection: two blocks with the same derived key overwrite each other and a declaration is lost", f, l)
            if fn_matches(t, r"Iterator::collect$", r"FromIterator", r"iter::Extend::extend$") and b.path.startswith("export::merge") \
                    and re.search(r"collections::(BTreeMap|HashMap)<", t.get("dst_ty", "") + " " + " ".join((t.get("arg_tys") or [])[:1] if fn_matches(t, r"extend$") else [])):
                src = t["args"][-1] if fn_matches(t, r"extend$") else t["args"][0]
                it_org = origins(b, op_local(src), identity=M.IDENTITY_CALLS + [r"Iterator::(map|peekable|by_ref|chain|filter|skip|rev)$", r"IntoIterator>::into_iter$"])
                blocks = any(x["kind"] == "call" and fn_matches(x["t"], r"str::<impl str>::split$") and len(x["t"]["args"]) > 1 and
                             (op_const(x["t"]["args"][1]) or {}).get("str") == "\n\n" for x in it_org)
                f, l = M.user_span(t["span"])
                r.inst(fn=b.path, callee="collect into " + t.get("dst_ty", "")[:50], source_is_declaration_blocks=blocks, where="%s:%s" % (f, l))
                if blocks:
                    r.fail(prop, "declaration-stored-in-keyed-collection export::merge", "the existing declaration blocks are collected into a keyed map: two blocks with the same derived key overwrite each other and a declaration is lost", f, l)
            if fn_matches(t, r"string::String::push_str$") and b.path == "export::merge":
                n_push += 1
    r.inst(fn="export::merge", push_str_calls=n_push)
    r.floor = 2
    return r


def sort_key_agreement_rule(crate, prop, rule="C05.R8"):
    """sibling agreement: both operands of the ordering comparison in merge() are derived the same way"""
    r = Result(rule, "in merge() the sort key of the incoming declaration and the sort key of each existing declaration are computed by the same chain of operations (sibling agreement), so that the insertion point does not depend on which side a declaration is on")
    reach, _ = crate.reachable_bodies(["export::merge"], no_impls_of=("TS",))
    n = 0
    for b in crate.bodies:
        if b.path not in reach or not b.path.startswith("export::"):
            continue
        for blk, t in b.calls():
            if b.is_cleanup(blk):
                continue
            if not fn_matches(t, r"PartialOrd for &str>::(lt|le|gt|ge)$", r"cmp::Ord for str>::cmp$", r"PartialOrd<str>.*::partial_cmp$", r"cmp::Ord::cmp$") or len(t["args"]) != 2:
                continue
            if "str" not in (t.get("arg_tys") or [""])[0]:
                continue
            sigs = []
            for a in t["args"]:
                l0 = op_local(a)
                chain = []
                cur, steps = l0, 0
                while cur is not None and steps < 60:
                    steps += 1
                    ds = M.def_sites(b, cur)
                    ds = [d for d in ds if not b.is_cleanup(d[0])]
                    if len(ds) != 1:
                        chain.append("arg" if 1 <= cur <= b.raw["arg_count"] else "join(%d)" % len(ds))
                        break
                    db, i, d = ds[0]
                    if i == "term":
                        nm = (d.get("fn") or {}).get("path", "?")
                        chain.append(nm.split("::")[-1] if "::" in nm else nm)
                        if (d.get("fn") or {}).get("krate") == crate.name and d["fn"]["path"] in crate.by_path:
                            chain[-1] = "local:" + d["fn"]["path"]
                            break
                        cur = op_local(d["args"][0]) if d["args"] else None
                    else:
                        rv = d["rv"]
                        if rv["k"] in ("use", "cast"):
                            p = op_place(rv["op"])
                            cur = p["l"] if p else None
                        elif rv["k"] in ("ref",):
                            cur = rv["pl"]["l"]
                        else:
                            chain.append(rv["k"])
                            break
                sigs.append(chain)
            n += 1
            f, l = M.user_span(t["span"])
            # compare up to the point where the two derivations reach their (different) source blocks
            def norm(c):
                return [x for x in c if x not in ("deref", "as_ref", "borrow")]
            a, c = norm(sigs[0]), norm(sigs[1])
            k = 0
            while k < min(len(a), len(c)) and a[k] == c[k]:
                k += 1
            # the shared prefix is the key extraction; the tails are the two different sources of text
            same = k >= 4 or (k >= 1 and any(x.startswith("local:") for x in a[:k]))
            # inside a closure the operands are the closure's parameter / captured variables: their derivation lies in the
            # enclosing function (elements of a collection built elsewhere) and is not followed - undecided, not a disagreement
            undecided = (not same) and b.kind == "Closure" and (a[-1:] == ["arg"] or c[-1:] == ["arg"])
            r.inst(fn=b.path, where="%s:%s" % (f, l), left_key=a[:8], right_key=c[:8], same_derivation=same, undecided=undecided)
            if not same and not undecided:
                r.fail(prop, "sort-key-derivation-differs %s" % re.sub(r"::\{closure#\d+\}", "", b.path),
                       "the two sides of the ordering comparison are derived differently (%s vs %s): e.g. a name with generic parameters is compared with one without, and the result depends on export order" % (a[:6], c[:6]), f, l)
    if n == 0:
        r.fail(prop, "anchor-missing ordering comparison", "merge() has no string ordering comparison (declarations must be placed in name order)")
    r.floor = 1
    return r


def import_union_rule(crate, prop, rule="C05.R10"):
    """the header of a shared file imports what *either* side imports: per module path the names are unioned"""
    r = Result(rule, "in merge() the per-path import table (a map from module path to a set of names) only ever accumulates: it is filled through `entry(path).or_default()` followed by insertion into the set, never by collecting/inserting whole sets under a path (a repeated path - the file's header and the new type both importing from one module - would replace the earlier names)")
    mg = crate.body("export::merge")
    if mg is None:
        r.fail(prop, "anchor-missing export::merge", "not found")
        return r
    MAPOFSETS = r"(collections::(BTreeMap|HashMap)|_map::Entry)<[^<>]*, std::(collections::(BTreeSet|HashSet)|vec::Vec)<"
    acc = 0
    bodies = [b for b in crate.bodies if b.path == "export::merge" or b.path.startswith("export::merge::")]
    for b in bodies:
        for blk, t in b.calls():
            if b.is_cleanup(blk):
                continue
            tys = " ".join([t.get("dst_ty") or ""] + (t.get("arg_tys") or []))
            if not re.search(MAPOFSETS, tys):
                continue
            f, l = M.user_span(t["span"])
            p = t["fn"]["path"] if t.get("fn") else "?"
            if re.search(r"<[^<>]*, std::vec::Vec<", tys) and fn_matches(t, r"::entry$"):
                r.fail(prop, "import-names-in-arrival-order export::merge",
                       "the names imported from one module are kept in a Vec: inside `import type { .. }` they appear in the order in which the types reached the file, which depends on the export schedule",
                       f, l)
            if fn_matches(t, r"::entry$"):
                acc += 1
                r.inst(fn=b.path, op="entry", where="%s:%s" % (f, l), accumulates=True)
            elif fn_matches(t, r"Entry::<.*>::(or_default|or_insert_with|or_insert)$"):
                r.inst(fn=b.path, op=p.split("::")[-1], where="%s:%s" % (f, l), accumulates=True)
            elif fn_matches(t, r"Iterator::collect$", r"FromIterator", r"iter::Extend::extend$", r"collections::(BTreeMap|HashMap)::<K, V(, S)?(, A)?>::insert$", r"Iterator::(unzip|try_collect)$"):
                r.inst(fn=b.path, op=p.split("::")[-1], where="%s:%s" % (f, l), accumulates=False)
                r.fail(prop, "import-table-replaces-repeated-path export::merge",
                       "%s builds the path -> names table by replacing the entry of a repeated path: when the file's header and the incoming type import from the same module, the names of one side are dropped and the file depends on the export order" % p.split("::", 2)[-1],
                       f, l)
    if not acc and not r.findings:
        r.fail(prop, "anchor-missing import table", "no map from path to a set of names is accumulated in merge()", mg.file(), mg.line())
    r.floor = 2
    return r


def merge_verbatim_rule(crate, prop, rule="C05.R11"):
    """merge() cuts its two inputs into slices and appends slices to the output: it never rewrites text"""
    r = Result(rule, "merge() and its closures contain no text-rewriting operation (replace, replacen, case conversion, repeat, escaping): what is already in the file and what the new type contributes are carried over byte for byte, so the blank-line and comment guarantees established when the text was produced still hold after the merge")
    REWRITERS = r"str::<impl str>::(replace|replacen|to_lowercase|to_uppercase|to_ascii_lowercase|to_ascii_uppercase|repeat|escape_\w+)$|String::replace_range$"
    bodies = [b for b in crate.bodies if b.path == "export::merge" or b.path.startswith("export::merge::")]
    if not bodies:
        r.fail(prop, "anchor-missing export::merge", "not found")
        return r
    n = 0
    for b in bodies:
        for blk, t in b.calls():
            if b.is_cleanup(blk) or not t.get("fn"):
                continue
            n += 1
            if fn_matches(t, REWRITERS):
                f, l = M.user_span(t["span"])
                r.fail(prop, "merge-rewrites-text %s" % t["fn"]["path"].split("::")[-1],
                       "%s in %s: text that was produced free of blank lines (doc comments) or with a fixed layout is altered while the file is merged, e.g. `\\r\\n\\r\\n` inside a doc comment becomes an empty line and the comment is split" % (t["fn"]["path"], b.path), f, l)
    r.inst(fn="export::merge", bodies=len(bodies), calls_examined=n, rewriting_calls=len(r.findings))
    r.floor = 1
    return r


def declaration_blank_line_rule(crate, prop, rule="C05.R13"):
    """merge() finds the declarations of a file by cutting at empty lines.  Whatever produces the text of one declaration -
    the derive, a `#[ts(type = "..")]` override copied verbatim, a hand-written `impl TS` - the place where that text enters a
    file must make sure it contains none."""
    r = Result(rule, "in generate_decl() the text of `T::decl()` passes a blank-line elimination that runs to a fixpoint (`while s.contains(\"\\n\\n\") { s = s.replace(\"\\n\\n\", ..) }`) before it is appended to the file text, so that no declaration can be cut in two when another type is merged into the same file later")
    b = crate.ibody("export::generate_decl")
    if b is None:
        r.fail(prop, "anchor-missing export::generate_decl", "not found")
        return r
    pushes = [(blk, t) for blk, t in b.calls() if not b.is_cleanup(blk) and fn_matches(t, r"String::push_str$")]
    decl_pushes = []
    for blk, t in pushes:
        org = origins(b, op_local(t["args"][1]), identity=M.IDENTITY_CALLS)
        if any(o["kind"] == "call" and fn_matches(o["t"], r"TS::decl$", r"TS::decl_concrete$") for o in org):
            decl_pushes.append((blk, t, org))
    if not decl_pushes:
        r.fail(prop, "anchor-missing decl push", "generate_decl() does not append T::decl()", b.file(), b.line())
    # the type's doc comment was made free of empty lines where it was produced (parse_docs): it is appended as it is.
    # Any rewriting here (trimming lines, normalising line ends) happens *after* that guarantee was established.
    REWRITE = r"str::<impl str>::(replace|replacen|trim|trim_end|trim_start|trim_matches|trim_end_matches|trim_start_matches|lines|split|to_lowercase|to_uppercase)$"
    for blk, t in pushes:
        org = origins(b, op_local(t["args"][1]), identity=M.IDENTITY_CALLS)
        from_docs = any(o["kind"] == "const" and "DOCS" in json.dumps(o.get("c") or {}) for o in org) or \
            any(o["kind"] in ("local", "other") for o in org) and False
        calls = [o for o in org if o["kind"] == "call"]
        if any(fn_matches(o["t"], r"TS::decl") for o in calls):
            continue
        rewr = [o for o in calls if fn_matches(o["t"], REWRITE)]
        if rewr:
            f, l = M.user_span(t["span"])
            r.inst(fn=b.path, appended_text_from=sorted({M.callee(o["t"]) or "?" for o in calls}), docs_rewritten=True)
            r.fail(prop, "docs-rewritten-when-written export::generate_decl",
                   "the type's doc comment passes %s before it is appended: parse_docs made it free of empty lines, and e.g. trimming a whitespace-only line re-creates one, which a later merge takes for the end of the declaration" % sorted({(M.callee(o["t"]) or "?").split("::")[-1] for o in rewr}),
                   f, l)
    docs_ops = [t for blk, t in b.calls() if not b.is_cleanup(blk) and fn_matches(t, r"str::<impl str>::(lines|trim_end|trim|trim_start|split)$")]
    if docs_ops and not any(f_.key.startswith("docs-rewritten") for f_ in r.findings):
        f, l = M.user_span(docs_ops[0]["span"])
        r.fail(prop, "docs-rewritten-when-written export::generate_decl",
               "generate_decl() takes text apart with %s before appending it: the doc comment's blank-line guarantee from parse_docs no longer holds for what is written" % sorted({t["fn"]["path"].split("::")[-1] for t in docs_ops}), f, l)
    loop_test = any(fn_matches(t, r"str::<impl str>::contains$") and (op_const(t["args"][1]) or {}).get("str") == "\n\n" for blk, t in b.calls() if not b.is_cleanup(blk))
    for blk, t, org in decl_pushes:
        reps = [o for o in org if o["kind"] == "call" and fn_matches(o["t"], r"str::<impl str>::replace$") and (op_const(o["t"]["args"][1]) or {}).get("str") == "\n\n"]
        rep_ok = False
        for o in reps:
            rc = op_const(o["t"]["args"][2]) or {}
            rep = rc.get("str")
            if rep is None and op_local(o["t"]["args"][2]) is not None:
                for oo in origins(b, op_local(o["t"]["args"][2]), identity=M.IDENTITY_CALLS):
                    if oo["kind"] == "const" and (oo.get("c") or {}).get("str") is not None:
                        rep = oo["c"]["str"]
            if rep is not None and "\n\n" not in rep and (loop_test or ("\n\n" not in rep + rep and not (rep.endswith("\n") or rep.startswith("\n")))):
                rep_ok = True
        f, l = M.user_span(t["span"])
        r.inst(fn=b.path, appended_text_from=sorted({M.callee(o["t"]) or "?" for o in org if o["kind"] == "call"}), blank_lines_eliminated=rep_ok, to_fixpoint=loop_test)
        if not rep_ok:
            r.fail(prop, "declaration-may-contain-blank-line export::generate_decl",
                   "T::decl() is appended as it is: a field with `#[ts(type = \"{\\n\\n  a: number }\")]` puts an empty line inside the declaration, and when `Zzz` and `Aaa` are exported into the same file afterwards, merge() cuts it there and inserts `export type Zzz` in the middle (the opposite export order gives a well-formed file)",
                   f, l)
    r.floor = 1
    return r


def declaration_name_occurrence_rule(crate, prop, rule="C05.R17"):
    """a block is `<doc comment>\n<declaration>`: the doc comment comes first and may contain the words `export type`,
    so the name under which a block is sorted has to be read after the LAST occurrence of the declaration start"""
    r = Result(rule, "where merge() (or a helper it reaches) cuts a declaration block at the declaration start `export type `, it takes the text after the last occurrence (split(..).last(), rsplit, rsplit_once, rfind): the doc comment precedes the declaration in the block and may itself contain `export type X`; a first-occurrence cut (split_once, splitn, find, split(..).nth(1)) sorts such a block under the name in its comment and the file depends on export order. Forms that do not cut at the declaration start (line scans, strip_prefix) are not read: undecided")
    reach, _ = crate.reachable_bodies(["export::merge"], no_impls_of=("TS",))
    LAST = r"str::<impl str>::(rsplit|rsplit_once|rfind|rsplitn|rsplit_terminator)(::<.*>)?$"
    FIRST = r"str::<impl str>::(split_once|splitn|find)(::<.*>)?$"
    SPLIT = r"str::<impl str>::split(::<.*>)?$"
    n = 0
    def is_decl_start(op):
        c = op_const(op) or {}
        return c.get("str") == "export type " or "DECLARATION_START" in (c.get("dbg") or "") or "DECLARATION_START" in json.dumps(c)
    for b in crate.bodies:
        if b.path not in reach or not b.path.startswith("export::"):
            continue
        for blk, t in b.calls():
            if b.is_cleanup(blk) or not t.get("fn") or len(t["args"]) < 2:
                continue
            if not fn_matches(t, LAST, FIRST, SPLIT):
                continue
            pat = [a for a in t["args"][1:] if is_decl_start(a)]
            if not pat:
                # the pattern may have been copied into a local first
                for a in t["args"][1:]:
                    l = op_local(a)
                    if l is None:
                        continue
                    for o in origins(b, l):
                        if o["kind"] == "const" and is_decl_start({"k": "const", "c": o.get("c") or {}}):
                            pat.append(a)
            if not pat:
                continue
            f, l = M.user_span(t["span"])
            short = t["fn"]["path"].split("::")[-1]
            verdict = None
            if fn_matches(t, LAST):
                verdict = "last"
            elif fn_matches(t, FIRST):
                verdict = "first"
            else:
                # split(..): decided by what is taken from the iterator
                dst = (t.get("dst") or {}).get("l")
                takers = []
                seen, work = set(), [dst]
                while work:
                    cur = work.pop()
                    if cur is None or cur in seen:
                        continue
                    seen.add(cur)
                    for b2, t2 in b.calls():
                        if b.is_cleanup(b2) or not t2.get("args"):
                            continue
                        if op_local(t2["args"][0]) == cur and t2.get("fn"):
                            takers.append(t2["fn"]["path"].split("::")[-1])
                    for b2 in range(b.n):
                        for st in b.stmts(b2):
                            if st["k"] == "assign" and st["rv"]["k"] in ("use", "cast", "ref"):
                                src = op_local(st["rv"]["op"]) if st["rv"]["k"] != "ref" else st["rv"]["pl"]["l"]
                                if src == cur and not st["dst"]["p"]:
                                    work.append(st["dst"]["l"])
                if any(x in ("last", "next_back") for x in takers):
                    verdict = "last"
                elif any(x in ("nth", "skip") for x in takers):
                    verdict = "first"
                short += "(..)." + "/".join(takers[:3])
            n += 1
            r.inst(fn=b.path, where="%s:%s" % (f, l), cut=short, occurrence=verdict or "unread")
            if verdict == "first":
                r.fail(prop, "declaration-name-from-first-occurrence %s" % re.sub(r"::\{closure#\d+\}", "", b.path),
                       "%s cuts the block at the FIRST `export type `: a doc comment `/** see export type Zeta */` above `export type Alpha` makes the block sort as Zeta, so exporting Alpha, Beta, Gamma and Gamma, Beta, Alpha give different files" % short, f, l)
            elif verdict is None:
                r.fail(prop, "anchor-missing occurrence taken from %s in %s" % (short, b.path), "what is taken from the pieces could not be read", f, l)
    if n == 0:
        r.fail(prop, "anchor-missing cut at the declaration start", "merge() and what it reaches contain no split/find on the declaration start: the way the name of a block is read is not one this rule knows")
    r.floor = 2
    return r
