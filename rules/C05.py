"""C05 — several types in one file: order-independent, idempotent, lossless merge (schedule/structure clauses)."""
from rules import export_rules as E
from rules import export_panics as P
from rules import determinism as D
from rules import merge_rules as MR
from rules import templates as T
from rules import text_rules as X

ASSUMPTIONS = ["std::sync::Mutex provides mutual exclusion; a MutexGuard releases the lock only when dropped",
               "the textual confluence of merge() over all declaration texts is NOT decided here"]


def run(ctx):
    out = []
    for fs in ctx.featuresets():
        c = ctx.mir(fs)["ts_rs"]
        res = [E.lock_region_rule(c, "C05"), E.single_writer_rule(c, "C05", ctx.syn), E.idempotence_rule(c, "C05"),
               D.ordered_output_rule(c, "C05", rule="C05.R4"), P.lock_panic_rule(c, "C05"), MR.merge_blocks_rule(c, "C05"), MR.sort_key_agreement_rule(c, "C05"), MR.import_union_rule(c, "C05"), MR.merge_verbatim_rule(c, "C05"), MR.declaration_name_occurrence_rule(c, "C05"), E.normaliser_purity_rule(c, "C05", rule="C05.R12"), MR.declaration_blank_line_rule(c, "C05"), E.fs_query_owner_rule(c, "C05", rule="C05.R14"), E.write_path_verbatim_rule(c, "C05")]
        if fs == "default":
            from rules import libimpls as L
            res.append(L.units_rule(c, "C05", rule="C05.R16"))
        if fs == "default":
            res.append(MR.writer_reader_rule(ctx.syn, "C05", crate=c))
            res.append(X.docs_separator_rule(ctx.mir(fs)["ts_rs_macros"], c, "C05", rule="C05.R9"))
        for r in res:
            if fs != "default":
                r.rule += "@" + fs
        out += res
    return out
