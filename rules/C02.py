"""C02 — every inhabitant of the generated type deserializes (optional-marker and skip clauses)."""
from rules import templates as T
from rules import field_rules as F
from rules import macro_mir as MM

ASSUMPTIONS = ["tag literals, required-ness beyond `?`, tuple lengths and union arms versus serde's deserializer are NOT decided"]


def run(ctx):
    out = [T.optional_marker_rule(ctx.syn, "C02"), F.variant_rule(ctx.mir("default")["ts_rs_macros"], "C02", rule="C02.R3"), T.variant_tag_rule(ctx.syn, "C02", rule="C02.R4"), T.struct_dispatch_rule(ctx.syn, "C02", rule="C02.R5", crate=ctx.mir("default")["ts_rs_macros"]), F.optional_rule(ctx.mir("default")["ts_rs_macros"], "C02"), F.naming_rule(ctx.mir("default")["ts_rs_macros"], "C02", rule="C02.R7"), T.unraw_rule(ctx.syn, "C02", rule="C02.R8"), F.intersection_operand_rule(ctx.mir("default")["ts_rs_macros"], "C02", "C02.R9"), T.operand_scanner_rule(ctx.syn, "C02")]
    for fs in ctx.featuresets():
        m = ctx.mir(fs)
        res = [T.is_option_impl_rule(ctx.syn, m["ts_rs"], "C02"), MM.skip_rule(m["ts_rs_macros"], "C02")]
        for r in res:
            if fs != "default":
                r.rule += "@" + fs
        out += res
    if ctx.tier == "thorough":
        from vlib import witness
        out.append(witness.rule("C02", ['OptionalNeedsOption', 'OptionalNullableNeedsOption', 'WrapperIsNotOption'], "C02.R1c"))
    return out
