"""Type-checked attribute key tables, recovered from the MIR of the `impl Parse` bodies that
`impl_parse!` expands to (crate ts_rs_macros)."""
import re

from vlib import mirlib as M
from vlib.mirlib import fn_matches, op_const, op_local

ATTRS = ["StructAttr", "EnumAttr", "VariantAttr", "FieldAttr"]
EQ_TOKEN = [r"ParseBuffer::<'_>::parse::<syn::token::Eq>$", r"ParseBuffer::parse::<syn::token::Eq>$"]
VALUE_PARSERS = r"^attr::(parse_assign_\w+|parse_bound|parse_concrete|parse_optional)$"


class Table:
    def __init__(self, name, body):
        self.name = name          # "StructAttr" or "Serde<StructAttr>"
        self.body = body
        self.arms = []            # dicts: keys, block, region, parsers, fields, flags
        self.wild = None          # block where all keys mismatched
        self.join = None          # block after the match (is_empty test)
        self.out_local = None


def parse_bodies(crate):
    out = {}
    for b in crate.bodies:
        if b.raw.get("assoc_name") != "parse" or "syn::parse::Parse" not in (b.raw.get("impl_trait") or ""):
            continue
        st = b.raw.get("impl_self") or ""
        m = re.search(r"(Serde<)?(?:[\w#:]+::)?(StructAttr|EnumAttr|VariantAttr|FieldAttr)>?$", st)
        if not m:
            continue
        name = ("Serde<%s>" % m.group(2)) if m.group(1) else m.group(2)
        out[name] = b
    return out


def extract(crate):
    tables = {}
    for name, b in parse_bodies(crate).items():
        t = Table(name, b)
        for i, l in enumerate(b.locals):
            if l["name"] == "out":
                t.out_local = i
        # join block: the block whose terminator calls ParseBuffer::is_empty
        for blk, term in b.calls():
            if fn_matches(term, r"ParseBuffer::<'_>::is_empty$", r"ParseBuffer::is_empty$") and not b.is_cleanup(blk):
                t.join = blk
        eqs = []
        for blk, term in b.calls():
            if b.is_cleanup(blk):
                continue
            if fn_matches(term, r"impl std::cmp::PartialEq for str>::eq$", r"PartialEq<str>.*::eq$") and len(term["args"]) == 2:
                c = op_const(term["args"][1])
                if c and "str" in c:
                    sw = b.term(term["target"])
                    if sw["k"] != "switch":
                        continue
                    f_t = None
                    for v, tg in sw["targets"]:
                        if v == 0:
                            f_t = tg
                    eqs.append({"key": c["str"], "block": blk, "true": sw["otherwise"], "false": f_t, "line": term["span"]["line"],
                                "file": term["span"]["file"]})
        eq_blocks = {e["block"] for e in eqs}
        by_arm = {}
        for e in eqs:
            by_arm.setdefault(e["true"], []).append(e)
            if e["false"] not in eq_blocks:
                t.wild = e["false"]
        stop = {t.join} if t.join is not None else set()
        for arm_block, es in by_arm.items():
            region = b.reachable_from([arm_block], stop=lambda x: x in stop) - stop
            region = {x for x in region if not b.is_cleanup(x)}
            parsers, fields, eq_tokens, peeks = [], [], 0, 0
            for x in sorted(region):
                for st in b.stmts(x):
                    if st["k"] == "assign" and st["dst"]["l"] == t.out_local and st["dst"]["p"]:
                        fields.append("".join(p for p in st["dst"]["p"] if p != ".0"))
                term = b.term(x)
                if term["k"] == "call":
                    f = term.get("fn") or {}
                    p = f.get("path", "")
                    if re.search(VALUE_PARSERS, p):
                        parsers.append(p.split("::")[-1] + ("::<%s>" % ",".join(f["args"]) if f.get("args") else ""))
                    if fn_matches(term, *EQ_TOKEN):
                        eq_tokens += 1
                    if fn_matches(term, r"ParseBuffer::<'_>::peek"):
                        peeks += 1
            t.arms.append({"keys": sorted(e["key"] for e in es), "block": arm_block, "region": region, "parsers": parsers,
                           "fields": sorted(set(fields)), "eq_tokens": eq_tokens, "peeks": peeks,
                           "line": es[0]["line"], "file": es[0]["file"]})
        t.arms.sort(key=lambda a: a["keys"])
        tables[name] = t
    return tables


def max_eq_consumption(table, arm):
    """maximum number of `=` tokens consumed on any path through the arm region (region is a DAG)"""
    b = table.body
    region = arm["region"]

    def cost(x):
        term = b.term(x)
        if term["k"] == "call":
            f = term.get("fn") or {}
            if fn_matches(term, *EQ_TOKEN):
                return 1
            if re.search(r"^attr::(parse_assign_\w+|parse_bound)$", f.get("path", "")):
                return 1
        return 0

    memo = {}

    def go(x, stack):
        if x in memo:
            return memo[x]
        if x in stack:
            return 0
        best = 0
        for s in b.succ(x):
            if s in region:
                best = max(best, go(s, stack | {x}))
        memo[x] = cost(x) + best
        return memo[x]

    return go(arm["block"], frozenset())


def wildcard_summary(table):
    """what happens when no key matches: (reaches_join, returns_err, calls)"""
    b = table.body
    if table.wild is None:
        return None
    stop = {table.join} if table.join is not None else set()
    region = b.reachable_from([table.wild], stop=lambda x: x in stop)
    reaches_join = table.join in region
    region = {x for x in region - stop if not b.is_cleanup(x)}
    calls = []
    err_exit = False
    for x in sorted(region):
        for st in b.stmts(x):
            if st["k"] == "assign" and st["dst"]["l"] == 0 and st["rv"]["k"] == "agg" and st["rv"].get("variant") == "Err":
                err_exit = True
        term = b.term(x)
        if term["k"] == "call":
            f = term.get("fn") or {}
            calls.append(f.get("res") or f.get("path") or "?")
            if fn_matches(term, r"FromResidual") and term["dst"]["l"] == 0:
                err_exit = True
    returns = any(b.term(x)["k"] == "return" for x in b.reachable_from([table.wild], stop=lambda x: x in stop))
    return {"reaches_join": reaches_join, "err_exit": err_exit, "calls": calls, "region": region, "returns_before_join": returns}
