"""Type-checked attribute key tables, recovered from the MIR of the `impl Parse` bodies that
`impl_parse!` expands to (crate ts_rs_macros)."""
import re

from vlib import mirlib as M
from vlib.mirlib import fn_matches, op_const, op_local

ATTRS = ["StructAttr", "EnumAttr", "VariantAttr", "FieldAttr"]
EQ_TOKEN = [r"ParseBuffer::<'_>::parse::<syn::token::Eq>$", r"ParseBuffer::parse::<syn::token::Eq>$"]
VALUE_PARSERS = r"^attr::(parse_assign_\w+|parse_bound|parse_concrete|parse_optional)$"


class Table:
    def __init__(self, name, body):
        self.name = name          # "StructAttr" or "Serde<StructAttr>"
        self.body = body
        self.arms = []            # dicts: keys, block, region, parsers, fields, flags
        self.wild = None          # block where all keys mismatched
        self.join = None          # block after the match (is_empty test)
        self.out_local = None
        self.form = "direct"      # or "closure": the key match lives in a closure called from parse()
        self.parent = None        # parse() body when form == "closure"
        self.capture_fields = {}  # closure capture index -> attr field name
        self.closure_call = None  # block in parent calling the closure


def parse_bodies(crate):
    out = {}
    for b in crate.bodies:
        if b.raw.get("assoc_name") != "parse" or "syn::parse::Parse" not in (b.raw.get("impl_trait") or ""):
            continue
        st = b.raw.get("impl_self") or ""
        m = re.search(r"(Serde<)?(?:[\w#:]+::)?(StructAttr|EnumAttr|VariantAttr|FieldAttr)>?$", st)
        if not m:
            continue
        name = ("Serde<%s>" % m.group(2)) if m.group(1) else m.group(2)
        out[name] = b
    return out


def _closure_effects(crate, pb, cpath, out_local):
    """parsers / assigned attribute fields / `=` tokens / peeks of a closure defined in parse() (one closure per key:
    `"rename" => (|| { out.rename = Some(parse_assign_str(input)?); Ok(()) })()`): captures are mapped back to the
    fields of `out` they borrow"""
    cbs = crate.by_path.get(cpath) or []
    if not cbs:
        return [], [], 0, 0
    cb = cbs[0]
    cap = {}
    for blk in range(pb.n):
        for st in pb.stmts(blk):
            if st["k"] == "assign" and st["rv"]["k"] == "agg" and st["rv"].get("closure") == cpath:
                for idx, o in enumerate(st["rv"]["ops"]):
                    l0 = op_local(o)
                    if l0 is None:
                        continue
                    for db, i, d in M.def_sites(pb, l0):
                        if i != "term" and d["rv"]["k"] == "ref":
                            named = [p for p in d["rv"]["pl"]["p"] if p.startswith(".") and not p[1:].isdigit()]
                            if named:
                                cap[idx] = named[-1]
                            elif d["rv"]["pl"]["l"] == out_local:
                                cap[idx] = "*"
    parsers, fields, eqs, peeks = [], [], 0, 0
    for x in range(cb.n):
        if cb.is_cleanup(x):
            continue
        for st in cb.stmts(x):
            if st["k"] == "assign" and st["dst"]["p"]:
                pl = st["dst"]
                if pl["l"] != 1:
                    ds = M.def_sites(cb, pl["l"])
                    if len(ds) == 1 and ds[0][1] != "term" and ds[0][2]["rv"]["k"] == "use":
                        src = M.op_place(ds[0][2]["rv"]["op"])
                        if src and src["l"] == 1:
                            # `(*_t).field = ..` with `_t = copy (*_1).N`
                            extra = [p for p in pl["p"] if p.startswith(".") and not p[1:].isdigit()]
                            idx = [p for p in src["p"] if p.startswith(".") and p[1:].isdigit()]
                            if idx and int(idx[0][1:]) in cap:
                                fields.append(cap[int(idx[0][1:])] if cap[int(idx[0][1:])] != "*" else (extra[-1] if extra else "*"))
                            continue
                if pl["l"] == 1:
                    idx = [p for p in pl["p"] if p.startswith(".") and p[1:].isdigit()]
                    extra = [p for p in pl["p"] if p.startswith(".") and not p[1:].isdigit()]
                    if idx and int(idx[0][1:]) in cap:
                        fields.append(cap[int(idx[0][1:])] if cap[int(idx[0][1:])] != "*" else (extra[-1] if extra else "*"))
        term = cb.term(x)
        if term["k"] == "call":
            f = term.get("fn") or {}
            p = f.get("path", "")
            if re.search(VALUE_PARSERS, p):
                parsers.append(p.split("::")[-1] + ("::<%s>" % ",".join(f["args"]) if f.get("args") else ""))
            if fn_matches(term, *EQ_TOKEN):
                eqs += 1
            if fn_matches(term, r"ParseBuffer::<'_>::peek"):
                peeks += 1
    return parsers, [f for f in fields if f != "*"], eqs, peeks


_END_OF_LIST_HELPERS = set()


def extract(crate):
    tables = {}
    _END_OF_LIST_HELPERS.clear()
    for hb in crate.bodies:
        if hb.kind == "Fn" and hb.path.startswith("attr::") and any(fn_matches(t, r"ParseBuffer::<'_>::is_empty$", r"ParseBuffer::is_empty$") for _, t in hb.calls()) \
                and "ParseBuffer" in " ".join(l["ty"] for l in hb.locals[1:1 + hb.raw["arg_count"]]) and hb.raw.get("ret_ty", "").endswith("bool, syn::Error>"):
            _END_OF_LIST_HELPERS.add(hb.path)
    siblings = frozenset(b.path for b in parse_bodies(crate).values())
    for name, pb in parse_bodies(crate).items():
        b = pb
        has_eq = lambda x: any(fn_matches(tt, r"impl std::cmp::PartialEq for str>::eq$") for _, tt in x.calls())
        form = "direct"
        if not has_eq(pb):
            for cb in crate.bodies:
                if cb.path.startswith(pb.path + "::{closure") and has_eq(cb):
                    b, form = cb, "closure"
                    break
        t = Table(name, b)
        t.form = form
        # parse() with the shared end-of-list helper spliced in (for rules about the separator / end-of-list protocol)
        if _END_OF_LIST_HELPERS and any(((term.get("fn") or {}).get("res") or (term.get("fn") or {}).get("path")) in _END_OF_LIST_HELPERS for _, term in pb.calls()):
            lb = M.Body(M.inline_raw(crate, pb, 2, ("TS",), only=set(_END_OF_LIST_HELPERS)), crate.name)
            lb.plain = pb
            t.loop_body = lb
        else:
            t.loop_body = None
        t.parent = pb if form == "closure" else None
        for i, l in enumerate(b.locals):
            if l["name"] == "out":
                t.out_local = i
        if form == "direct":
            # join block: the block whose terminator calls ParseBuffer::is_empty
            t.join = first_joins(b, 0)
            t.join = min(t.join) if t.join else None
        else:
            # join: the block that builds Ok(true)
            for blk in range(b.n):
                for st in b.stmts(blk):
                    if st["k"] == "assign" and st["dst"]["l"] == 0 and st["rv"]["k"] == "agg" and st["rv"].get("variant") == "Ok":
                        c = op_const(st["rv"]["ops"][0]) if st["rv"]["ops"] else None
                        if c and c.get("int") == 1:
                            t.join = blk
            # capture index -> field, from the closure aggregate in parse()
            for blk in range(pb.n):
                for st in pb.stmts(blk):
                    if st["k"] == "assign" and st["rv"]["k"] == "agg" and st["rv"].get("closure") == b.path:
                        for idx, o in enumerate(st["rv"]["ops"]):
                            l0 = op_local(o)
                            if l0 is None:
                                continue
                            for db, i, d in M.def_sites(pb, l0):
                                if i != "term" and d["rv"]["k"] == "ref":
                                    named = [p for p in d["rv"]["pl"]["p"] if p.startswith(".") and not p[1:].isdigit()]
                                    if named:
                                        t.capture_fields[idx] = named[-1]
            for blk, term in pb.calls():
                f = term.get("fn") or {}
                if (f.get("path") == b.path or f.get("res") == b.path) and not pb.is_cleanup(blk):
                    t.closure_call = blk
        eqs = []
        for blk, term in b.calls():
            if b.is_cleanup(blk):
                continue
            if fn_matches(term, r"impl std::cmp::PartialEq for str>::eq$", r"PartialEq<str>.*::eq$") and len(term["args"]) == 2:
                c = op_const(term["args"][1])
                if c and "str" in c:
                    sw = b.term(term["target"])
                    if sw["k"] != "switch":
                        continue
                    f_t = None
                    for v, tg in sw["targets"]:
                        if v == 0:
                            f_t = tg
                    eqs.append({"key": c["str"], "block": blk, "true": sw["otherwise"], "false": f_t, "line": term["span"]["line"],
                                "file": term["span"]["file"]})
        eq_blocks = {e["block"] for e in eqs}
        by_arm = {}
        for e in eqs:
            by_arm.setdefault(e["true"], []).append(e)
            if e["false"] not in eq_blocks:
                t.wild = e["false"]
        stop = {t.join} if t.join is not None else set()
        for arm_block, es in by_arm.items():
            region = b.reachable_from([arm_block], stop=lambda x: x in stop) - stop
            region = {x for x in region if not b.is_cleanup(x)}
            parsers, fields, eq_tokens, peeks = [], [], 0, 0
            soft = None
            for x in sorted(region):
                for st in b.stmts(x):
                    if st["k"] == "assign" and t.form == "direct" and st["dst"]["l"] == t.out_local and st["dst"]["p"]:
                        fields.append("".join(p for p in st["dst"]["p"] if p != ".0"))
                    elif st["k"] == "assign" and t.form == "closure" and st["dst"]["p"]:
                        pl = st["dst"]
                        if pl["l"] != 1:
                            # `(*_t) = ..` where `_t = copy (*_1).N` (deref temp)
                            ds = M.def_sites(b, pl["l"])
                            if len(ds) == 1 and ds[0][1] != "term" and ds[0][2]["rv"]["k"] == "use":
                                src = M.op_place(ds[0][2]["rv"]["op"])
                                if src and src["l"] == 1:
                                    pl = src
                        if pl["l"] == 1:
                            idx = [p for p in pl["p"] if p.startswith(".") and p[1:].isdigit()]
                            if idx and int(idx[0][1:]) in t.capture_fields:
                                fields.append(t.capture_fields[int(idx[0][1:])])
                term = b.term(x)
                if term["k"] == "call":
                    f = term.get("fn") or {}
                    p = f.get("path", "")
                    if re.search(VALUE_PARSERS, p):
                        parsers.append(p.split("::")[-1] + ("::<%s>" % ",".join(f["args"]) if f.get("args") else ""))
                    if fn_matches(term, *EQ_TOKEN):
                        eq_tokens += 1
                    if fn_matches(term, r"ParseBuffer::<'_>::peek"):
                        peeks += 1
                    if t.form == "direct" and fn_matches(term, r"ops::Fn(Mut|Once)?::call(_mut|_once)?$", r"ops::function::Fn") and term["args"] and op_local(term["args"][0]) is not None:
                        # the arm's work is done by a closure called on the spot
                        for o in M.origins(b, op_local(term["args"][0])):
                            cl = o["rv"].get("closure") if o["kind"] == "agg" else None
                            if cl and cl.startswith(t.body.path + "::{closure"):
                                cp, cf, ce, ck = _closure_effects(crate, b, cl, t.out_local)
                                # what becomes of a failure inside the closure: `(..)().is_ok()` keeps it local to this key,
                                # `(..)()?` makes it the failure of the whole list
                                cons = M._consumers(b, term["dst"]["l"])
                                is_soft = bool(cons) and all(fn_matches(u, r"Result::<T, E>::(is_ok|is_err|ok|unwrap_or|unwrap_or_default)$") for u in cons)
                                soft = is_soft if soft is None else (soft and is_soft)
                                parsers += cp
                                fields += cf
                                eq_tokens += ce
                                peeks += ck
            t.arms.append({"keys": sorted(e["key"] for e in es), "block": arm_block, "region": region, "parsers": parsers,
                           "fields": sorted(set(fields)), "eq_tokens": eq_tokens, "peeks": peeks, "failure_stays_local": bool(soft),
                           "line": es[0]["line"], "file": es[0]["file"]})
        t.arms.sort(key=lambda a: a["keys"])
        tables[name] = t
    return tables


def max_eq_consumption(table, arm):
    """maximum number of `=` tokens consumed on any path through the arm region (region is a DAG)"""
    b = table.body
    region = arm["region"]

    def cost(x):
        term = b.term(x)
        if term["k"] == "call":
            f = term.get("fn") or {}
            if fn_matches(term, *EQ_TOKEN):
                return 1
            if re.search(r"^attr::(parse_assign_\w+|parse_bound)$", f.get("path", "")):
                return 1
        return 0

    memo = {}

    def go(x, stack):
        if x in memo:
            return memo[x]
        if x in stack:
            return 0
        best = 0
        for s in b.succ(x):
            if s in region:
                best = max(best, go(s, stack | {x}))
        memo[x] = cost(x) + best
        return memo[x]

    return go(arm["block"], frozenset())


def wildcard_summary(table):
    """what happens when no key matches: (reaches_join, returns_err, calls)"""
    b = table.body
    if table.wild is None:
        return None
    stop = {table.join} if table.join is not None else set()
    region = b.reachable_from([table.wild], stop=lambda x: x in stop)
    reaches_join = table.join in region
    region = {x for x in region - stop if not b.is_cleanup(x)}
    calls = []
    err_exit = False
    for x in sorted(region):
        for st in b.stmts(x):
            if st["k"] == "assign" and st["dst"]["l"] == 0 and st["rv"]["k"] == "agg" and st["rv"].get("variant") == "Err":
                err_exit = True
        term = b.term(x)
        if term["k"] == "call":
            f = term.get("fn") or {}
            calls.append(f.get("res") or f.get("path") or "?")
            if re.search(r"(^|::)syn::Error$|^syn::error::Error$", term.get("dst_ty") or ""):
                calls.append("<returns> syn::Error::new")       # a helper of the crate that builds the diagnostic
            if fn_matches(term, r"FromResidual") and term["dst"]["l"] == 0:
                err_exit = True
    returns = any(b.term(x)["k"] == "return" for x in b.reachable_from([table.wild], stop=lambda x: x in stop))
    return {"reaches_join": reaches_join, "err_exit": err_exit, "calls": calls, "region": region, "returns_before_join": returns}


def first_joins(b, start):
    """the end-of-list tests (`ParseBuffer::is_empty`) that are reached first from `start`, i.e. without
    passing another one: the loop's join after a key has been handled"""
    cands = {blk for blk, term in b.calls()
             if fn_matches(term, r"ParseBuffer::<'_>::is_empty$", r"ParseBuffer::is_empty$") and not b.is_cleanup(blk)}
    if not cands and _END_OF_LIST_HELPERS:
        # the end-of-list test may live in a helper shared by the parse bodies (`end_of_list(input)?`)
        cands = {blk for blk, term in b.calls() if not b.is_cleanup(blk) and ((term.get("fn") or {}).get("res") or (term.get("fn") or {}).get("path")) in _END_OF_LIST_HELPERS}
    if not cands:
        return set()
    return b.reachable_from([start], stop=lambda x: x in cands) & cands


def closure_fallback(table):
    """closure form: what parse() does with the closure's result.
    Returns dict(no_error_exit, skip_on_every_non_true_path, has_success_path)."""
    pb = table.parent
    if pb is None or table.closure_call is None:
        return None
    call = pb.term(table.closure_call)
    res = call["dst"]["l"]
    start = call["target"]
    joins = first_joins(pb, start)
    if not joins:
        return None
    region = pb.reachable_from([start], stop=lambda x: x in joins)
    region = {x for x in region if not pb.is_cleanup(x)}
    err_exit = False
    for x in region - joins:
        if pb.term(x)["k"] == "return":
            err_exit = True
        for st in pb.stmts(x):
            if st["k"] == "assign" and st["dst"]["l"] == 0 and st["rv"]["k"] == "agg" and st["rv"].get("variant") == "Err":
                err_exit = True
        tt = pb.term(x)
        if tt["k"] == "call" and fn_matches(tt, r"FromResidual") and tt["dst"]["l"] == 0:
            err_exit = True
    skips = {x for x in region if pb.term(x)["k"] == "call" and fn_matches(pb.term(x), r"attr::skip_until_next_comma$")}
    # path-sensitive walk: track boolean temporaries assigned constants (the lowering of `matches!`)
    # and whether the Ok(true) edge / a skip call was passed
    seen = set()
    work = [(start, frozenset(), False, False)]
    outcomes = set()   # (ok_true, skipped) at the join
    steps = 0
    while work and steps < 20000:
        steps += 1
        blk, env, ok_true, skipped = work.pop()
        key = (blk, env, ok_true, skipped)
        if key in seen:
            continue
        seen.add(key)
        if blk in joins:
            outcomes.add((ok_true, skipped))
            continue
        if pb.is_cleanup(blk):
            continue
        e = dict(env)
        for st in pb.stmts(blk):
            if st["k"] == "assign" and not st["dst"]["p"]:
                l0 = st["dst"]["l"]
                if st["rv"]["k"] == "use":
                    c = op_const(st["rv"]["op"])
                    if c is not None and "int" in c and c.get("ty") == "bool":
                        e[l0] = c["int"]
                        continue
                    src = M.op_place(st["rv"]["op"])
                    if src and not src["p"] and src["l"] in e:
                        e[l0] = e[src["l"]]
                        continue
                elif st["rv"]["k"] == "unop" and st["rv"]["op"] == "Not":
                    src = M.op_place(st["rv"]["a"])
                    if src and not src["p"] and src["l"] in e:
                        e[l0] = 1 - e[src["l"]]
                        continue
                e.pop(l0, None)
        tt = pb.term(blk)
        if blk in skips:
            skipped = True
        env2 = frozenset(e.items())
        if tt["k"] == "switch":
            pl = M.op_place(tt["discr"])
            if pl and not pl["p"] and pl["l"] in e:
                v = e[pl["l"]]
                tg = None
                for val, x in tt["targets"]:
                    if val == v:
                        tg = x
                work.append((tg if tg is not None else tt["otherwise"], env2, ok_true, skipped))
                continue
            if pl and pl["l"] == res and any(p.startswith(".Ok::") for p in pl["p"]):
                for val, x in tt["targets"]:
                    work.append((x, env2, ok_true if val != 1 else True, skipped))
                work.append((tt["otherwise"], env2, True, skipped))
                continue
        for x in pb.succ(blk):
            work.append((x, env2, ok_true, skipped))
    true_edges = {o for o in outcomes if o[0]}
    ok = bool(outcomes) and all(sk for (okt, sk) in outcomes if not okt)
    clean_success = bool(true_edges) and all(not sk for (okt, sk) in outcomes if okt)
    return {"no_error_exit": not err_exit, "skip_on_every_non_true_path": ok, "has_success_path": bool(true_edges), "success_path_does_not_skip": clean_success,
            "skip_calls": len(skips), "outcomes_at_join(ok_true,skipped)": sorted(outcomes)}
