"""C16 — the derive is total: no panics; conflicts are diagnosed (structural clauses)."""
import json
import os
import re

from vlib.common import Result, VERIF
from vlib import mirlib as M
from vlib import synlib as S
from vlib.mirlib import fn_matches, op_local, op_place, try_edges, origins
from rules import panics, tables
from rules import text_rules as X

ASSUMPTIONS = ["justified panic sites in reference/justified_panics.json were judged by reading the code",
               "syn/quote/proc_macro2 themselves do not panic on the token streams the macro builds",
               "that every accepted expansion compiles is NOT decided"]


def fold(p):
    return re.sub(r"::\{closure#\d+\}", "", p)


def _just(crate_name):
    with open(os.path.join(VERIF, "reference/justified_panics.json")) as fh:
        return json.load(fh).get(crate_name, [])


# ------------------------------------------------------------------ R1

def panic_inventory(crate, syn, prop="C16"):
    r = Result("C16.R1", "inventory of panic-capable call sites in every body of the proc-macro crate (unwrap/expect/index/slicing/panic!/parse_quote!/format_ident!/bounds asserts): each must be discharged by a dominating guard found in the MIR / the source, or justified by an entry keyed on the callee, on what it is applied to (`field syn::Field.ident`, `call Path::parent`, ..) and on the function the code belongs to (helpers it was split into included)")
    just = _just(crate.name)
    sites = []
    for b in crate.bodies:
        for s in panics.sites_in(b, crate):
            s["caller"] = fold(s["caller"])
            sites.append(s)
    guards = _syntactic_guards(crate, syn, r, prop)
    from rules.export_panics import site_status
    for (caller, callee), ss in sorted(panics.group(sites).items()):
        where = ", ".join(sorted({"%s:%s" % (s["file"], s["line"]) for s in ss}))
        g = guards.get((caller, callee))
        if g is None:
            # the guarded operation may have moved to a neighbour of the function the guard was written for: same callee,
            # applied to the same kind of value, in the same source file
            for (gc, gcal), gv in guards.items():
                gb = crate.by_path.get(gc) or []
                cb_ = crate.by_path.get(caller) or []
                if gcal == callee and gv.get("origin") and all(re.search(gv["origin"], s.get("origin", "")) for s in ss) and gb and cb_ and gb[0].file() == cb_[0].file():
                    g = gv
        st = [site_status(crate, s, just) for s in ss]
        open_ = [s for s, (k, _) in zip(ss, st) if k == "open"]
        if open_ and g is not None and g["ok"] and g["count"] >= len(open_):
            status, reason, open_ = "discharged-by-guard", g["why"], []
        elif open_ and any(gk[1] == callee and gv.get("unknown") and all(re.search(gv["origin"], s.get("origin", "")) for s in open_) for gk, gv in guards.items()):
            # the argument that discharges this kind of site rests on other code (who calls this function, what another
            # function rejects) which the recogniser can no longer read: undecided, reported as such
            r.fail(prop, "anchor-missing guard for %s on %s" % (callee.split("::")[-1], open_[0].get("origin")),
                   "the code the discharge of this site rests on was restructured and could not be read (site in %s)" % caller, open_[0]["file"], open_[0]["line"])
            status, reason, open_ = "undecided", "guard not readable", []
        elif open_:
            status, reason = "UNJUSTIFIED", None
        else:
            status, reason = "/".join(sorted({k for k, _ in st})), next((w for _, w in st if w), None)
        r.inst(caller=caller, callee=callee, count=len(ss), where=where, applied_to=sorted({s.get("origin", "") for s in ss}), status=status, reason=reason)
        if open_:
            r.fail(prop, panics.key(caller, callee, len(open_)),
                   "%d panic-capable call(s) to %s (applied to: %s) in the derive macro with no discharge or justification: a panic here is reported as `proc-macro derive panicked` instead of a diagnostic" % (len(open_), callee, open_[0].get("origin")),
                   open_[0]["file"], open_[0]["line"])
    r.stats = {"bodies": len(crate.bodies), "sites": len(sites)}
    r.floor = 12
    return r


def _syntactic_guards(crate, syn, r, prop):
    """Guards recognised in the syntax tree for three families of indexing/unwrap sites."""
    out = {}
    # (a) Punctuated indexing `x[0]` inside a match arm guarded by `x.len() == 1`
    fv = syn.fn("format_variant", "types/enum.rs")
    if fv is not None:
        idx = list(S.events(fv, "index"))
        ok = bool(idx)
        for e in idx:
            guarded = S.squash(e["index"]) == "0" and any(
                c["k"] == "match" and c.get("guard") and S.squash(e["expr"]) + ".len()==1" == S.squash(c["guard"]) for c in e["ctx"])
            ok = ok and guarded
        out[("types::r#enum::format_variant", "<syn::punctuated::Punctuated<T, P> as std::ops::Index<usize>>::index")] = {
            "ok": ok, "count": len(idx), "why": "every `unnamed.unnamed[0]` sits in a match arm guarded by `unnamed.unnamed.len() == 1`"}
    # (b) doc_attrs[0] under `match doc_attrs.len() { 1 if ... }`
    pd = syn.fn("parse_docs", "utils.rs")
    if pd is not None:
        idx = list(S.events(pd, "index"))
        ok = bool(idx)
        for e in idx:
            base = S.squash(e["expr"]).lstrip("&")
            guarded = S.squash(e["index"]) == "0" and any(
                c["k"] == "match" and S.squash(c["scrut"]) == base + ".len()" and S.squash(c["pat"]) == "1" for c in e["ctx"])
            ok = ok and guarded
        out[("utils::parse_docs", "<std::vec::Vec<T, A> as std::ops::Index<I>>::index")] = {
            "ok": ok, "count": len(idx), "why": "`doc_attrs[0]` only inside the `1` arm of `match doc_attrs.len()`"}
    # (c) newtype(): fields.unnamed.first().unwrap() — caller dispatches on len() == 1
    td = syn.fn("type_def", "types/mod.rs")
    if td is not None:
        calls = [e for e in S.events(td, "call") if S.squash(e["func"]) == "newtype::newtype"]
        ok = bool(calls) and all(any(c["k"] == "match" and S.squash(c["scrut"]).endswith(".unnamed.len()") and S.squash(c["pat"]) == "1"
                                     for c in e["ctx"]) for e in calls)
        # and nobody else calls newtype::newtype
        others = [f["qual"] for f in syn.fns if f is not td for e in S.events(f, "call") if S.squash(e["func"]).endswith("newtype::newtype")]
        out[("types::newtype::newtype", "std::option::Option::<T>::unwrap")] = {
            "ok": ok and not others, "count": 1, "why": "newtype() is only called from type_def's `1 =>` arm of `match unnamed.unnamed.len()`",
            "unknown": not (ok and not others) and not others, "origin": r"Punctuated::<T, P>::first$"}
    # (d) skip_until_next_comma: the closure given to step() never returns Err
    clos = [b for b in crate.bodies if b.path.startswith("attr::skip_until_next_comma::{closure")]
    ok = bool(clos)
    for b in clos:
        for blk in range(b.n):
            for st in b.stmts(blk):
                if st["k"] == "assign" and st["dst"]["l"] == 0 and st["rv"]["k"] == "agg" and st["rv"].get("variant") == "Err":
                    ok = False
            t = b.term(blk)
            if t["k"] == "call" and t["dst"]["l"] == 0 and not b.is_cleanup(blk):
                ok = False  # result produced by a call (could be Err)
    out[("attr::skip_until_next_comma", "std::result::Result::<T, E>::unwrap")] = {
        "ok": ok, "count": 1, "why": "the closure passed to ParseBuffer::step only ever constructs Ok(..)"}
    # (e) from_variant's expect(): EnumAttr::assert_validity rejects every combination tagged() rejects
    ok, why = _tagged_agreement(syn)
    out[("attr::r#struct::StructAttr::from_variant", "std::result::Result::<T, E>::expect")] = {"ok": ok, "count": 1, "why": why,
                                                                                               "unknown": (not ok) and str(why).startswith(("no `match", "anchor missing")), "origin": r"EnumAttr::tagged$"}
    if not ok:
        r.fail(prop, ("anchor-missing tagged/assert_validity tables" if str(why).startswith(("no `match", "anchor missing")) else "tagged-validity-disagree EnumAttr::tagged vs EnumAttr::assert_validity"),
               "from_variant() calls enum_attr.tagged().expect(..) relying on assert_validity having rejected the same (untagged, tag, content) combinations: " + why)
    return out


def _err_arms(fn, scrut_squashed):
    for e in S.events(fn, "match"):
        if S.squash(e["scrut"]) == scrut_squashed:
            arms = [(a["pat"], ("syn_err" in a["body"])) for a in e["arms"]]
            return arms
    return None


def _tagged_agreement(syn):
    tg = syn.fn("EnumAttr::tagged", "attr/enum.rs")
    av = syn.fn("<EnumAttr as Attr>::assert_validity", "attr/enum.rs")
    if tg is None or av is None:
        return False, "anchor missing (EnumAttr::tagged / EnumAttr::assert_validity)"
    sc = "(self.untagged,&self.tag,&self.content)"
    a1, a2 = _err_arms(tg, sc), _err_arms(av, sc)
    if a1 is None or a2 is None:
        return False, "no `match (self.untagged, &self.tag, &self.content)` in %s" % ("tagged()" if a1 is None else "assert_validity()")
    bad = []
    for u in ("true", "false"):
        for t in ("some", "none"):
            for c in ("some", "none"):
                cell = (u, t, c)
                i1 = S.first_match([p for p, _ in a1], cell)
                i2 = S.first_match([p for p, _ in a2], cell)
                e1 = a1[i1][1] if i1 is not None else False
                e2 = a2[i2][1] if i2 is not None else False
                if e1 and not e2:
                    bad.append(cell)
    if bad:
        return False, "tagged() errors on %s but assert_validity() accepts it" % bad
    return True, "for all 8 (untagged, tag, content) cells: tagged() is Err only where assert_validity() is Err"


# ------------------------------------------------------------------ R2

def validated_rule(crate, prop="C16"):
    r = Result("C16.R2", "every attribute value produced by {Struct,Enum,Variant,Field}Attr::from_attrs / StructAttr::from_variant passes assert_validity (or is handed to type_def, which validates first) on every path to a non-error return")
    # summary of type_def: validates parameter 1 before any non-error return
    td = crate.body("types::type_def")
    td_ok = False
    if td is not None:
        for b, t in td.calls():
            if fn_matches(t, r"Attr>::assert_validity$", r"Attr::assert_validity$") and not td.is_cleanup(b):
                org = origins(td, op_local(t["args"][0]))
                if any(o["kind"] == "arg" and o["local"] == 1 for o in org):
                    valid = _validated_blocks(td, b, t)
                    td_ok = td.all_paths_pass(0, valid | _err_exits(td), td.returns())
    r.inst(fn="types::type_def", summary="validates its attr parameter before any non-error return", ok=td_ok)
    if not td_ok:
        r.fail(prop, "type_def-does-not-validate", "types::type_def no longer validates its StructAttr parameter first", td.file() if td else None, td.line() if td else None)
    n = 0
    for body in crate.bodies:
        for b, t in body.calls():
            if body.is_cleanup(b):
                continue
            f = t.get("fn") or {}
            p = f.get("path", "")
            m = re.search(r"(StructAttr|EnumAttr|VariantAttr|FieldAttr)::(from_attrs|from_variant)$", p)
            if not m:
                continue
            if fold(body.path).endswith("::from_attrs"):
                continue
            n += 1
            fl, ln = M.user_span(t["span"])
            # the attr value: through `?` if Result
            val_locals = _value_locals(body, t)
            start = t["target"]
            through = set(_err_exits(body))
            how = []
            for bb, tt in body.calls():
                if body.is_cleanup(bb):
                    continue
                if fn_matches(tt, r"Attr>::assert_validity$", r"Attr::assert_validity$"):
                    org = {o.get("local") for o in origins(body, op_local(tt["args"][0])) if o["kind"] in ("unknown", "arg")}
                    if _derives(body, op_local(tt["args"][0]), val_locals):
                        through |= _validated_blocks(body, bb, tt)
                        how.append("assert_validity")
                elif fn_matches(tt, r"^types::type_def$") and td_ok and tt["args"] and _derives(body, op_local(tt["args"][0]), val_locals):
                    through.add(bb)
                    how.append("type_def")
            ok = body.all_paths_pass(start, through, body.returns())
            r.inst(fn=fold(body.path), source=p.split("::")[-2] + "::" + p.split("::")[-1], where="%s:%s" % (fl, ln), validated_by=sorted(set(how)), ok=ok)
            if not ok:
                r.fail(prop, "unvalidated-attr %s <- %s" % (fold(body.path), "::".join(p.split("::")[-2:])),
                       "an attribute value parsed here can reach a successful return without assert_validity(): incompatible attribute combinations would silently produce a binding", fl, ln)
    r.floor = 11
    return r


def _value_locals(body, t):
    """locals holding the attr value produced by call t (through `?`, moves and refs)"""
    vals = {t["dst"]["l"]}
    changed = True
    tries = try_edges(body)
    while changed:
        changed = False
        for e in tries:
            if e["arg"] in vals and e["dst"] not in vals:
                vals.add(e["dst"])
                changed = True
        for bb in range(body.n):
            for st in body.stmts(bb):
                if st["k"] != "assign" or st["dst"]["p"]:
                    continue
                rv = st["rv"]
                src = None
                if rv["k"] == "use":
                    pl = op_place(rv["op"])
                    src = pl["l"] if pl else None
                elif rv["k"] == "ref":
                    src = rv["pl"]["l"]
                if src in vals and st["dst"]["l"] not in vals:
                    vals.add(st["dst"]["l"])
                    changed = True
    return vals


def _derives(body, local, vals):
    return local in vals


def _validated_blocks(body, call_block, t):
    """blocks that are only reached after assert_validity succeeded: the `?` continue target"""
    out = set()
    for e in try_edges(body):
        if e["arg"] is not None and e["cont"] is not None:
            if any(o["kind"] == "call" and o["block"] == call_block for o in origins(body, e["arg"], through_try=False)):
                out.add(e["cont"])
    return out


def _err_exits(body):
    out = set()
    for e in try_edges(body):
        if e["brk"] is not None:
            out.add(e["brk"])
    for b in range(body.n):
        for st in body.stmts(b):
            if st["k"] == "assign" and st["dst"]["l"] == 0 and not st["dst"]["p"] and st["rv"]["k"] == "agg" and st["rv"].get("variant") == "Err":
                out.add(b)
    return out


# ------------------------------------------------------------------ R3

def _atoms(ev):
    atoms = set()
    for c in ev["ctx"]:
        if c["k"] == "if" and c["branch"] == "then":
            cond = c["cond"]
            for m in re.finditer(r"self \. (\w+)", cond):
                atoms.add(m.group(1))
            if "Fields :: Named" in cond:
                atoms.add("shape:Named")
            if re.search(r"\. ident \. is_none", cond):
                atoms.add("shape:unnamed-field")
        elif c["k"] == "match":
            for m in re.finditer(r"self \. (\w+)", c["scrut"]):
                atoms.add(m.group(1))
            atoms.add("pat:" + S.squash(c["pat"]))
    return sorted(atoms)


def extract_matrix(syn):
    out = {}
    for kind, q in (("StructAttr", "<StructAttr as Attr>::assert_validity"), ("EnumAttr", "<EnumAttr as Attr>::assert_validity"),
                    ("VariantAttr", "<VariantAttr as Attr>::assert_validity"), ("FieldAttr", "<FieldAttr as Attr>::assert_validity")):
        fn = syn.fn(q)
        if fn is None:
            out[kind] = None
            continue
        rows = []
        for e in S.events(fn, "macro"):
            if e["name"] in ("syn_err", "syn_err_spanned"):
                rows.append({"atoms": _atoms(e), "line": e["line"], "file": fn["file"]})
        out[kind] = rows
    return out


ATOM_WORDS = {"type_override": ["`type`", "ts(type"], "type_as": ["`as`", "ts(as"], "flatten": ["`flatten`"], "inline": ["`inline`"], "optional": ["`optional`"], "rename": ["`rename`", "`flatten` cannot with tuple"],
              "using_serde_with": ["serde(with"], "shape:unnamed-field": ["tuple struct"], "rename_all": ["`rename_all`"], "rename_all_fields": ["`rename_all_fields`"],
              "tag": ["`tag`"], "content": ["`content`"], "untagged": ["`untagged`"], "optional_fields": ["`optional_fields`", "`optional`"], "shape:Named": ["named fields", "struct"]}


def _table_driven_messages(crate, kind):
    """string constants of `<Kind as Attr>::assert_validity` when it reports through a table of (condition, message) rows
    (an array of tuples whose second component is a string): the rows' conditions are data, not branches"""
    if crate is None:
        return None
    out = []
    for b in crate.bodies:
        if not re.search(r"%s as attr::Attr>::assert_validity" % kind, b.path) and not re.search(r"%s.*assert_validity" % kind, b.path):
            continue
        rows = 0
        for blk in range(b.n):
            for st in b.stmts(blk):
                if st["k"] == "assign" and st["rv"]["k"] == "agg" and st["rv"].get("tuple") and len(st["rv"]["ops"]) == 2 and b.local_ty(st["dst"]["l"]).startswith("(bool, &"):
                    rows += 1
                    c = M.op_const(st["rv"]["ops"][1])
                    if c is None and op_local(st["rv"]["ops"][1]) is not None:
                        cs = [o for o in origins(b, op_local(st["rv"]["ops"][1])) if o["kind"] == "const"]
                        c = cs[0]["c"] if cs else None
                    if c and c.get("str"):
                        out.append(c["str"])
        if rows >= 2:
            return out
    return None


def matrix_rule(syn, prop="C16", crate=None):
    r = Result("C16.R3", "every rejected attribute combination of the reference matrix (frozen from the reviewed tree) is still rejected by an error site guarded by exactly those attribute fields / item shapes in the corresponding assert_validity")
    with open(os.path.join(VERIF, "reference/incompat.json")) as fh:
        ref = json.load(fh)["matrix"]
    cur = extract_matrix(syn)

    def data_driven(kind):
        """the validity check (the functions only it uses included) walks a list of keys/conditions with iterator
        adaptors: which combinations it rejects is decided by data and closures, not by one branch per rule"""
        if crate is None:
            return False
        roots = [b.path for b in crate.bodies if re.search(r"%s as attr::Attr>::assert_validity$" % kind, b.path)]
        grp = set()
        for p0 in roots:
            grp |= set(crate.owned_by(p0))
            for blk, t in crate.body(p0).calls():
                for hb in crate.call_targets(crate.body(p0), t, ()):
                    if kind in hb.path or hb.path.startswith("attr::"):
                        grp |= set(crate.owned_by(hb.path)) | {hb.path}
        return any(fn_matches(t, r"iter::Iterator::(find|find_map|filter|any|all|position|next|try_for_each|for_each)$", r"Iterator>::next$")
                   for b in crate.bodies if b.path in grp for blk, t in b.calls() if not b.is_cleanup(blk))
    undecided_kinds = set()
    for kind, rows in ref.items():
        have = cur.get(kind)
        if have is None:
            r.fail(prop, "anchor-missing %s::assert_validity" % kind, "assert_validity for %s not found" % kind)
            continue
        pool = [tuple(x["atoms"]) for x in have]
        for row in rows:
            key = tuple(row["atoms"])
            ok = key in pool
            if ok:
                pool.remove(key)
            if not ok:
                # a validity check written as a table of (condition, message) rows has no branch per rule to look at:
                # if the table has a message that names every attribute of the combination, the rule is there - undecided
                msgs = _table_driven_messages(crate, kind)
                if msgs is not None and any(all(any(w in m_ for w in ATOM_WORDS.get(a, [a])) for a in key) for m_ in msgs):
                    r.inst(attr=kind, rejects=list(key), present=None, note="table-driven check: a row with a message naming these attributes exists; its condition is data and is not evaluated")
                    continue
            if not ok and data_driven(kind):
                r.inst(attr=kind, rejects=list(key), present=None, note="the validity check is driven by a list of keys and closures: this combination is not decided")
                undecided_kinds.add(kind)
                continue
            r.inst(attr=kind, rejects=list(key), present=ok)
            if not ok:
                r.fail(prop, "rejection-missing %s %s" % (kind, "+".join(key)),
                       "%s::assert_validity no longer has an error site guarded by {%s}: the combination documented as incompatible would be accepted" % (kind, ", ".join(key)))
    for kind in sorted(undecided_kinds):
        r.fail(prop, "anchor-missing validity rules of %s" % kind, "%s::assert_validity decides through a list of keys and iterator closures: the rejected combinations are not read off branches" % kind)
    r.floor = 41
    return r


# ------------------------------------------------------------------ R4 / R5

def unknown_key_rule(crate, prop="C16"):
    r = Result("C16.R4", "in each of the four `impl Parse for <X>Attr` bodies, the all-keys-mismatch edge leads only to an Err return (an unknown `ts` key is never ignored)")
    T = tables.extract(crate)
    for name in tables.ATTRS:
        t = T.get(name)
        if t is None or t.wild is None:
            r.fail(prop, "anchor-missing parse table " + name, "could not recover the key table of %s from MIR" % name)
            continue
        w = tables.wildcard_summary(t)
        ok = (not w["reaches_join"]) and w["err_exit"] and any(c.endswith("syn::Error::new") or c.endswith("Error::new_spanned") for c in w["calls"])
        r.inst(table=name, keys=sum(len(a["keys"]) for a in t.arms), unknown_key_reaches_loop_continue=w["reaches_join"], err_exit=w["err_exit"], ok=ok)
        if not ok:
            r.fail(prop, "unknown-key-not-rejected " + name, "after all %d keys mismatch, parsing of %s can continue or return without a syn::Error" % (len(t.arms), name),
                   t.body.file(), t.body.line())
    r.floor = 4
    return r


def diagnostics_rule(crate, syn, prop="C16"):
    r = Result("C16.R5", "`typescript` turns entry()'s Err into to_compile_error(); entry()'s fallback arm for non-struct/enum items is an error")
    b = crate.body("typescript")
    if b is None:
        r.fail(prop, "anchor-missing typescript", "derive entry point not found")
        return r
    group = [x for x in crate.bodies if x.path in crate.owned_by("typescript")]
    calls = [M.callee_res(t) or "" for x in group for _, t in x.calls()]
    has_entry = any(c.endswith("entry") for c in calls)
    has_tce = any(c.endswith("syn::Error::to_compile_error") or c.endswith("Error::into_compile_error") for c in calls)
    r.inst(fn="typescript", calls_entry=has_entry, converts_error=has_tce)
    if not has_entry:
        r.fail(prop, "edge-missing typescript -> entry", "typescript() does not call entry()", b.file(), b.line())
    if not has_tce:
        r.fail(prop, "error-not-diagnosed typescript", "typescript() does not convert the syn::Error with to_compile_error()", b.file(), b.line())
    # entry(): the match on the parsed item has arms for structs and enums; whatever else the item is leads to an error
    en = crate.body("entry")
    ok = False
    if en is not None:
        ITEM_ENUM, ITEM_STRUCT = 1, 9       # syn::Item: Const, Enum, ExternCrate, Fn, ForeignMod, Impl, Macro, Mod, Static, Struct, ..
        for blk in range(en.n):
            sw = en.term(blk)
            if sw["k"] != "switch" or en.is_cleanup(blk) or op_local(sw["discr"]) is None:
                continue
            for bb, i, d in M.def_sites(en, op_local(sw["discr"])):
                if i == "term" or d["rv"]["k"] != "discr" or "syn::Item" not in en.local_ty(d["rv"]["pl"]["l"]):
                    continue
                vals = {v for v, _ in sw["targets"]}
                if not ({ITEM_ENUM, ITEM_STRUCT} <= vals):
                    continue
                other = sw["otherwise"]
                named = {tg for _, tg in sw["targets"]}
                region = en.reachable_from([other], stop=lambda x: x in named)
                errs = M.error_blocks(en) | {x for x, t in en.calls() if fn_matches(t, r"syn::Error::new(_spanned)?$", r"syn::error::Error::new")}
                ok = ok or (bool(region & errs) and not any(fn_matches(en.term(x), r"struct_def$|enum_def$") for x in region if en.term(x)["k"] == "call"))
    r.inst(fn="entry", fallback_arm_is_error=ok)
    if not ok:
        r.fail(prop, "unsupported-item-not-rejected entry", "entry()'s fallback arm is not an error", en.file() if en else None, en.line() if en else None)
    r.floor = 2
    return r


from rules import field_rules as FR


def run(ctx):
    out = []
    for fs in ctx.featuresets():
        c = ctx.mir(fs)["ts_rs_macros"]
        res = [panic_inventory(c, ctx.syn), validated_rule(c), unknown_key_rule(c), diagnostics_rule(c, ctx.syn)]
        if fs == "default":
            res.append(matrix_rule(ctx.syn, crate=c))
            from rules import templates as T
            res.append(T.impl_header_rule(ctx.syn, "C16"))
        for r in res:
            if fs != "default":
                r.rule += "@" + fs
        out += res
    if ctx.tier == "thorough":
        from vlib import witness
        out.append(witness.rule("C16", ['OptionalNeedsOption', 'OptionalNullableNeedsOption', 'UnknownKeysRejected', 'IncompatibleCombinationsRejected', 'UnsupportedItemRejected', 'UnusualIdentifiersExpand', 'DefaultedGenericsExpand', 'AllSkippedExpands', 'EveryMentionedParameterIsBounded', 'UnusualGenericsExpand', 'PreludeNamesNotCaptured'], "C16.R6"))
    out.append(X.type_param_walker_rule(ctx.mir("default")["ts_rs_macros"], "C16"))
    from rules import field_rules as F
    out.append(F.empty_repetition_rule(ctx.mir("default")["ts_rs_macros"], "C16"))
    out.append(T.export_test_params_rule(ctx.syn, "C16"))
    out.append(X.where_clause_rule(ctx.mir("default")["ts_rs_macros"], "C16"))
    out.append(T.template_hygiene_rule(ctx.syn, "C16"))
    out.append(T.crate_path_rule(ctx.syn, "C16"))
    out.append(FR.passthrough_fields_rule(ctx.mir("default")["ts_rs_macros"], "C16", rule="C16.R16"))
    out.append(X.underscore_walker_rule(ctx.mir("default")["ts_rs_macros"], "C16", rule="C16.R14"))
    out.append(T.generics_rule(ctx.syn, "C16", rule="C16.R12", crate=ctx.mir("default")["ts_rs_macros"]))
    return out
