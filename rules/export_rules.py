"""MIR rules over the exporter (crate ts_rs): lock region, single writer, idempotence guard,
record-after-success, error discipline, registry-key normalisation, first-touch truncation,
environment reads, recursion guard, walk completeness, path agreement, exportability check.
Every function takes the analysed crate and returns a common.Result."""
import json
import re

from vlib.common import Result
from vlib import mirlib as M
from vlib.mirlib import fn_matches, op_local, op_place, op_const, origins, try_edges

FILE_OPEN = [r"fs::File::create(_new)?$", r"fs::OpenOptions::open$", r"fs::File::open$", r"fs::File::options$"]
FILE_MUTATE = [r"fs::File::create(_new)?$", r"fs::OpenOptions::open$", r"^std::fs::write$", r"^std::fs::rename$",
               r"^std::fs::remove_(file|dir|dir_all)$", r"^std::fs::copy$", r"^std::fs::hard_link$",
               r"^std::fs::set_permissions$", r"fs::File::set_len$", r"^std::os::unix::fs::symlink$"]
DIR_CREATE = [r"^std::fs::create_dir(_all)?$", r"fs::DirBuilder::create$"]
FILE_IO = [r"io::Write::write_all$", r"io::Write::write$", r"io::Write::write_fmt$", r"io::Write::flush$",
           r"fs::File::sync_all$", r"fs::File::sync_data$", r"io::Read::read_to_string$", r"io::Read::read_to_end$",
           r"fs::File::metadata$", r"io::Seek::seek$", r"io::Seek::rewind$", r"fs::File::set_len$"]
REGISTRY_OPS = [r"collections::HashMap::<K, V, S(, A)?>::(get_mut|get|insert|remove|entry|contains_key)$",
                r"collections::HashSet::<T, S(, A)?>::(contains|insert|remove|get)$"]


REG_IDENTITY = M.IDENTITY_CALLS + [r"Result::<T, E>::(unwrap|expect)$", r"::get_mut$", r"Mutex.*::lock$", r"HashMap::<K, V, S(, A)?>::get$",
                                   # `map.entry(key).or_default()` hands out the same slot as get_mut (and creates it)
                                   r"Map::<K, V(, S)?(, A)?>::entry$", r"_map::Entry::<.*>::(or_default|or_insert|or_insert_with|or_insert_with_key)$"]
ADAPT_IDENTITY = M.IDENTITY_CALLS + [r"Option::<T>::ok_or(_else)?$", r"Result::<T, E>::map_err$", r"export::path::absolute$"]


REGISTRY_TY = r"Mutex<(std::collections::)?(Hash|BTree)Map<(std::path::)?PathBuf,"


def is_registry_ty(ty):
    """the type of the exporter's registry: a Mutex around a map keyed by the path of a file (possibly behind a
    reference and a OnceLock/LazyLock); found by what it is, not by what the static or its accessor is called"""
    return re.search(REGISTRY_TY, re.sub(r"std::sync::|std::collections::|std::path::", "", ty or "").replace(" ", "")) is not None


def derives_from_registry(body, local, getter=None):
    if local is None:
        return False
    for o in origins(body, local, identity=REG_IDENTITY):
        if o["kind"] == "call" and is_registry_ty(o["t"].get("dst_ty")):
            return True            # the accessor function (whatever its name)
        if o["kind"] == "const" and (o.get("c") or {}).get("static") and is_registry_ty((o["c"] or {}).get("ty")):
            return True            # the static itself
    return False


def _loc(body, b):
    sp = body.term(b).get("span") or body.span
    f, l = M.user_span(sp)
    return f, l


def _short(t):
    f = t.get("fn") or {}
    return f.get("res") or f.get("path") or t.get("fn_dbg") or "indirect-call"


def _is_file_local(body, l):
    return body.local_ty(l) in ("std::fs::File", "&std::fs::File", "&mut std::fs::File")


def _writes_to_file(body, t):
    """write_all/seek/... whose receiver is a File"""
    if not t["args"]:
        return False
    ty = t.get("arg_tys", [""])[0]
    return "std::fs::File" in ty


# ------------------------------------------------------------------ C05.R1

def lock_region_rule(crate, prop, fn_path="export::export_and_merge", registry_getter="export::get_export_paths",
                     merge_fn="export::merge"):
    r = Result("C05.R1", "one Mutex guard is live across registry lookup, file open/read/merge/write/sync and registry update in export_and_merge")
    body = crate.ibody(fn_path)
    if body is None:
        r.fail(prop, "anchor-missing " + fn_path, "function %s not found in crate %s" % (fn_path, crate.name))
        return r
    regions = M.lock_regions(body)
    if len(regions) != 1:
        r.fail(prop, "lock-count %s %d" % (fn_path, len(regions)),
               "%s takes the registry lock %d times; exactly one critical section must cover lookup..record" % (fn_path, len(regions)),
               body.file(), body.line())
        if not regions:
            return r
    # the lock must be the one on the registry
    for reg in regions:
        if not derives_from_registry(body, op_local(reg["t"]["args"][0])):
            f, l = _loc(body, reg["lock_block"])
            r.fail(prop, "lock-not-registry " + fn_path, "Mutex::lock receiver does not originate from %s()" % registry_getter, f, l)
    region = set()
    for reg in regions:
        region |= reg["region"]
    for b, t in body.calls():
        if body.is_cleanup(b):
            continue
        kind = None
        if fn_matches(t, *FILE_OPEN):
            kind = "file-open"
        elif fn_matches(t, *FILE_IO) and _writes_to_file(body, t):
            kind = "file-io"
        elif fn_matches(t, re.escape(merge_fn) + "$"):
            kind = "merge"
        elif fn_matches(t, *REGISTRY_OPS):
            # registry data only: receiver derives from the guard or from get_mut
            if t["args"] and derives_from_registry(body, op_local(t["args"][0]), registry_getter):
                kind = "registry"
        if kind is None:
            continue
        f, l = _loc(body, b)
        inside = b in region
        r.inst(fn=fn_path, callee=_short(t), kind=kind, where="%s:%s" % (f, l), in_lock_region=inside)
        if not inside:
            r.fail(prop, "outside-lock %s -> %s" % (fn_path, _short(t)),
                   "%s call %s is not inside the registry lock region (guard dropped or not yet taken on some path)" % (kind, _short(t)), f, l)
    r.floor = 13
    r.stats = {"lock_calls": len(regions), "region_blocks": len(region)}
    return r


# ------------------------------------------------------------------ C05.R2 / C11.R1

def single_writer_rule(crate, prop, syn=None, writer="export::export_and_merge", dir_creator="export::export_to",
                       registry_static="export::EXPORT_PATHS", registry_getter="export::get_export_paths",
                       allowed_statics=("EXPORT_PATHS",)):
    r = Result("C05.R2", "only export_and_merge creates/opens-for-write files, only export_to creates directories, only get_export_paths touches EXPORT_PATHS and only export_and_merge calls it; no other process-wide state")
    seen_writer = seen_dir = seen_static = seen_getter_call = 0
    # helpers the writer was split into are the writer: a function all of whose call sites lie in the writer (or in such helpers)
    writer_parts = {p for p in crate.owned_by(writer) if p.startswith("export::")}
    dir_parts = {p for p in crate.owned_by(dir_creator) if p.startswith("export::")}
    for body in crate.bodies:
        for b, t in body.calls():
            f, l = _loc(body, b)
            owner = body.path.split("::{closure")[0]
            if fn_matches(t, *FILE_MUTATE):
                r.inst(fn=body.path, callee=_short(t), kind="file-mutation", where="%s:%s" % (f, l))
                if owner not in writer_parts:
                    r.fail(prop, "writer-outside-owner %s -> %s" % (owner, _short(t)),
                           "file-system mutation %s outside %s" % (_short(t), writer), f, l)
                else:
                    seen_writer += 1
            elif fn_matches(t, *DIR_CREATE):
                r.inst(fn=body.path, callee=_short(t), kind="dir-creation", where="%s:%s" % (f, l))
                if owner not in dir_parts:
                    r.fail(prop, "mkdir-outside-owner %s -> %s" % (owner, _short(t)),
                           "directory creation %s outside %s" % (_short(t), dir_creator), f, l)
                else:
                    seen_dir += 1
            elif is_registry_ty(t.get("dst_ty")) and (t.get("dst_ty") or "").startswith("&") and body.kind in ("Fn", "AssocFn", "Closure") and not fn_matches(t, r"OnceLock::<T>::get_or_init$", r"LazyLock.*::force$", r"Deref::deref$"):
                r.inst(fn=body.path, callee=_short(t), kind="registry-access", where="%s:%s" % (f, l))
                if owner not in writer_parts:
                    r.fail(prop, "registry-access-outside-owner %s" % owner,
                           "%s() called from %s; only %s may look at the registry (check and write must share one critical section)" % (registry_getter, owner, writer), f, l)
                else:
                    seen_getter_call += 1
        # static references
        for b in range(body.n):
            ops = []
            for st in body.stmts(b):
                if st["k"] == "assign":
                    rv = st["rv"]
                    if rv["k"] in ("use", "cast"):
                        ops.append(rv["op"])
                    elif rv["k"] == "agg":
                        ops.extend(rv["ops"])
            t = body.term(b)
            if t["k"] == "call":
                ops.extend(t["args"])
            for o in ops:
                c = op_const(o)
                if c and c.get("static") and c["static"].startswith(crate_prefix(c["static"])):
                    st_name = c["static"]
                    if is_registry_ty(c.get("ty")):
                        r.inst(fn=body.path, kind="static-ref", static=st_name)
                        ownr = body.path.split("::{closure")[0]
                        is_getter = is_registry_ty(body.local_ty(0)) and body.n <= 6
                        if not is_getter and ownr not in writer_parts:
                            r.fail(prop, "static-outside-owner %s" % body.path, "%s referenced outside %s" % (registry_static, registry_getter), body.file(), body.line())
                        else:
                            seen_static += 1
    if seen_writer == 0:
        r.fail(prop, "anchor-missing writer", "no file creation found in %s" % writer)
    if seen_dir == 0:
        r.fail(prop, "anchor-missing dir-creator", "no create_dir_all found in %s" % dir_creator)
    if seen_static == 0:
        r.fail(prop, "anchor-missing registry static", "%s is not referenced from %s" % (registry_static, registry_getter))
    if seen_getter_call == 0 and not any(is_registry_ty((op_const(o) or {}).get("ty")) for bx in crate.bodies if bx.path in writer_parts for blk in range(bx.n) for st in bx.stmts(blk)
                                         if st["k"] == "assign" and st["rv"]["k"] in ("use", "cast") for o in [st["rv"]["op"]] if (op_const(o) or {}).get("static")):
        r.fail(prop, "anchor-missing registry getter call", "%s neither calls the registry's accessor nor uses the registry static" % writer)
    # inventory of process-wide state (syntax level: every `static` item and thread_local! in the crate)
    if syn is not None:
        for it in syn.items:
            if it["kind"] == "static" and it["file"].startswith("ts-rs/src"):
                r.inst(kind="static-item", name=it["name"], where="%s:%s" % (it["file"], it["line"]))
                is_reg = is_registry_ty(it.get("ty"))
                n_reg = len([x for x in syn.items if x["kind"] == "static" and x["file"].startswith("ts-rs/src") and is_registry_ty(x.get("ty"))])
                if not (is_reg and n_reg == 1):
                    r.fail(prop, "new-global-state static %s" % it["name"],
                           "process-wide state `static %s: %s` is not the exporter's one registry (a Mutex around a map from file path to exported names): export results must depend only on what was exported" % (it["name"], it.get("ty")),
                           it["file"], it["line"])
        for fn in syn.fns:
            if not fn["file"].startswith("ts-rs/src"):
                continue
            for e in fn["events"]:
                if e["kind"] == "macro" and e["name"].split("::")[-1] in ("thread_local", "lazy_static"):
                    r.fail(prop, "new-global-state %s in %s" % (e["name"], fn["qual"]), "process-wide state introduced via %s!" % e["name"], fn["file"], e["line"])
        for m in syn.item_macros:
            if m["file"].startswith("ts-rs/src") and m["name"].split("::")[-1] in ("thread_local", "lazy_static"):
                r.fail(prop, "new-global-state %s" % m["name"], "process-wide state introduced via %s!" % m["name"], m["file"], m["line"])
    r.floor = 6
    return r


def crate_prefix(s):
    return ""


# ------------------------------------------------------------------ helpers on export_and_merge structure

def _registry_lookup(body):
    """(block of get_mut call, some_target, none_target)"""
    for b, t in body.calls():
        if fn_matches(t, r"collections::HashMap::<K, V, S(, A)?>::get_mut$"):
            tgt = t["target"]
            # follow to the switch on the discriminant
            cur = tgt
            for _ in range(4):
                tt = body.term(cur)
                if tt["k"] == "switch":
                    some = none = None
                    for v, tg in tt["targets"]:
                        if v == 1:
                            some = tg
                        elif v == 0:
                            none = tg
                    if none is None:
                        none = tt["otherwise"]
                    if some is None:
                        some = tt["otherwise"]
                    return b, some, none
                if tt["k"] == "goto":
                    cur = tt["target"]
                else:
                    break
    return None


def _bool_switch(body, call_block):
    """for a call returning bool whose value is switched on (directly, through a named local, or negated):
    (false_target, true_target) in terms of the call's result"""
    want = body.term(call_block)
    for blk in range(body.n):
        tt = body.term(blk)
        if tt["k"] != "switch" or body.is_cleanup(blk):
            continue
        pl = op_place(tt["discr"])
        if pl is None or pl["p"]:
            continue
        call, pos = M.flag_polarity(body, pl["l"])
        if call is not want:
            continue
        f = next((tg for v, tg in tt["targets"] if v == 0), None)
        tr = tt["otherwise"]
        if not pos:
            f, tr = tr, f
        return f, tr
    return None


def _bool_switches(body, call_block):
    """like _bool_switch, for a result that is tested more than once (`if is_new {..} if is_new && .. {..}`): every
    (false_target, true_target)"""
    want = body.term(call_block)
    out = []
    for blk in range(body.n):
        tt = body.term(blk)
        if tt["k"] != "switch" or body.is_cleanup(blk):
            continue
        pl = op_place(tt["discr"])
        if pl is None or pl["p"]:
            continue
        call, pos = M.flag_polarity(body, pl["l"])
        if call is not want:
            continue
        f = next((tg for v, tg in tt["targets"] if v == 0), None)
        tr = tt["otherwise"]
        if not pos:
            f, tr = tr, f
        out.append((f, tr))
    return out


def slot_predicate(crate, hb, slot, vname):
    """is `hb` a method of the visitor that only asks its error slot (`fn is_over(&self) -> bool { self.outcome.is_err() }`)?
    -> True if a true result means `an error occurred`, False for the opposite, None if it is something else"""
    if hb is None or hb.raw["arg_count"] != 1 or hb.local_ty(0) != "bool" or vname not in (hb.local_ty(1) or ""):
        return None
    cs = [t for blk, t in hb.calls() if not hb.is_cleanup(blk)]
    if len(cs) != 1 or not fn_matches(cs[0], r"option::Option::<T>::(is_some|is_none)$", r"result::Result::<T, E>::(is_ok|is_err)$") or not cs[0]["args"]:
        return None
    l = op_local(cs[0]["args"][0])
    if not any(i != "term" and d["rv"]["k"] == "ref" and slot in d["rv"]["pl"]["p"] for b2, i, d in (M.def_sites(hb, l) if l is not None else [])):
        return None
    call, pos = M.flag_polarity(hb, 0)
    if call is not cs[0]:
        return None
    says_error = fn_matches(cs[0], r"is_some$", r"is_err$")
    return says_error if pos else not says_error


def slot_tests(body, slot, vname, crate=None):
    """tests of the visitor's error slot in `body`: [(clean_target, error_target)] - through is_some/is_none/is_ok/is_err
    on the field, through a method of the visitor that only asks that, or through a match on its discriminant
    (0 = None / Ok(()) = no error so far)"""
    out = []
    if crate is not None:
        for blk, t in body.calls():
            if body.is_cleanup(blk) or not (t.get("dst_ty") == "bool"):
                continue
            for hb in crate.call_targets(body, t, ()):
                se = slot_predicate(crate, hb, slot, vname)
                if se is None:
                    continue
                for f_t, t_t in _bool_switches(body, blk):
                    out.append((f_t, t_t) if se else (t_t, f_t))

    def is_slot(pl):
        return pl is not None and slot in pl["p"] and vname in body.local_ty(pl["l"])
    for blk, t in body.calls():
        if body.is_cleanup(blk) or not fn_matches(t, r"option::Option::<T>::(is_some|is_none)$", r"result::Result::<T, E>::(is_ok|is_err)$") or not t["args"]:
            continue
        l = op_local(t["args"][0])
        refs = [d for b2, i, d in (M.def_sites(body, l) if l is not None else []) if i != "term" and d["rv"]["k"] == "ref" and is_slot(d["rv"]["pl"])]
        if not refs:
            continue
        for f_t, t_t in _bool_switches(body, blk):
            says_error = fn_matches(t, r"is_some$", r"is_err$")
            out.append((f_t, t_t) if says_error else (t_t, f_t))
    for blk in range(body.n):
        tt = body.term(blk)
        if tt["k"] != "switch" or body.is_cleanup(blk) or op_local(tt["discr"]) is None:
            continue
        for b2, i, d in M.def_sites(body, op_local(tt["discr"])):
            if i != "term" and d["rv"]["k"] == "discr" and is_slot(d["rv"]["pl"]) and not [x for x in d["rv"]["pl"]["p"][d["rv"]["pl"]["p"].index(slot) + 1:] if x.startswith(".")]:
                clean = next((tg for v, tg in tt["targets"] if v == 0), None)
                err = next((tg for v, tg in tt["targets"] if v == 1), None)
                if clean is None:
                    clean = tt["otherwise"]
                elif err is None:
                    err = tt["otherwise"]
                out.append((clean, err))
    return out


# ------------------------------------------------------------------ C05.R3

def idempotence_rule(crate, prop, fn_path="export::export_and_merge", merge_fn="export::merge"):
    r = Result("C05.R3", "on the already-registered-file branch, reopen/read/merge/rewrite/record is dominated by the false edge of `entry.contains(&type_name)`")
    body = crate.ibody(fn_path)
    if body is None:
        r.fail(prop, "anchor-missing " + fn_path, "function not found")
        return r
    look = _registry_lookup(body)
    if not look:
        r.fail(prop, "anchor-missing registry lookup", "no HashMap::get_mut on the registry in %s" % fn_path, body.file(), body.line())
        return r
    _, some_t, none_t = look
    hit = body.reachable_from([some_t]) - body.reachable_from([none_t]) if none_t is not None else body.reachable_from([some_t])
    contains = [(b, t) for b, t in body.calls() if b in hit and fn_matches(t, r"collections::HashSet::<T, S(, A)?>::contains")]
    if not contains:
        r.fail(prop, "idempotence-guard-missing " + fn_path,
               "no `HashSet::contains` test of the type name on the registered-file branch: re-exporting a type would rewrite the file",
               body.file(), body.line())
        return r
    cb, ct = contains[0]
    sw = _bool_switch(body, cb)
    if not sw:
        r.fail(prop, "idempotence-guard-unrecognised " + fn_path, "result of contains() is not branched on", *_loc(body, cb))
        return r
    false_t, true_t = sw
    for b, t in body.calls():
        if b not in hit or body.is_cleanup(b):
            continue
        if fn_matches(t, *FILE_OPEN) or fn_matches(t, re.escape(merge_fn) + "$") or (fn_matches(t, *FILE_IO) and _writes_to_file(body, t)) \
                or fn_matches(t, r"collections::HashSet::<T, S(, A)?>::insert$"):
            f, l = _loc(body, b)
            ok = body.dominates(false_t, b)
            r.inst(fn=fn_path, callee=_short(t), where="%s:%s" % (f, l), dominated_by_not_contains=ok)
            if not ok:
                r.fail(prop, "not-guarded-by-contains %s -> %s" % (fn_path, _short(t)),
                       "%s on the registered-file branch is reachable without passing the `!contains` edge" % _short(t), f, l)
    # the true edge must go to return without touching the file
    tr_reach = body.reachable_from([true_t], stop=lambda x: x == false_t)
    for b in tr_reach:
        t = body.term(b)
        if t["k"] == "call" and not body.is_cleanup(b) and (fn_matches(t, *FILE_OPEN) or fn_matches(t, *FILE_IO) and _writes_to_file(body, t)):
            if not body.dominates(false_t, b):
                f, l = _loc(body, b)
                r.fail(prop, "contains-true-edge-writes %s -> %s" % (fn_path, _short(t)), "file touched although the type is already recorded", f, l)
    r.floor = 7
    return r


# ------------------------------------------------------------------ C17.R2

def record_after_success_rule(crate, prop, fn_path="export::export_and_merge"):
    r = Result("C17.R2", "every registry insertion is dominated by the success edges of write_all? and sync_all? (a failed export is not recorded)")
    body = crate.ibody(fn_path)
    if body is None:
        r.fail(prop, "anchor-missing " + fn_path, "function not found")
        return r
    succ_write = M.success_conts(crate, body, r"io::Write::write_all$", _writes_to_file)
    succ_sync = M.success_conts(crate, body, r"fs::File::sync_all$")
    n = 0
    for b, t in body.calls():
        if body.is_cleanup(b):
            continue
        if not fn_matches(t, r"collections::HashMap::<K, V, S(, A)?>::insert$", r"collections::HashSet::<T, S(, A)?>::insert$"):
            continue
        if not derives_from_registry(body, op_local(t["args"][0])):
            continue
        n += 1
        f, l = _loc(body, b)
        w = any(body.dominates(c, b) for c in succ_write if c is not None)
        s = any(body.dominates(c, b) for c in succ_sync if c is not None)
        r.inst(fn=fn_path, callee=_short(t), where="%s:%s" % (f, l), after_write_ok=w, after_sync_ok=s)
        if not w:
            r.fail(prop, "record-before-write %s -> %s" % (fn_path, _short(t)),
                   "registry insertion is not dominated by a successful `write_all(..)?`: a failed write would still be recorded as exported", f, l)
        if not s:
            r.fail(prop, "record-before-sync %s -> %s" % (fn_path, _short(t)),
                   "registry insertion is not dominated by a successful `sync_all()?`", f, l)
    r.floor = 2
    r.stats = {"write_success_edges": len(succ_write), "sync_success_edges": len(succ_sync)}
    return r


# ------------------------------------------------------------------ C17.R1

ERR_TYS = r"std::result::Result<.*, (std::io::Error|std::fmt::Error|export::error::ExportError|export::ExportError)>$"
PROPAGATORS = [r"Result::<T, E>::(map_err|map|and_then|or_else|inspect_err|inspect)$", r"ops::Try>::branch$", r"ops::Try::branch$",
               r"FromResidual", r"Result::<T, E>::err$", r"convert::Into::into$", r"convert::From::from$"]
SWALLOWERS = [r"Result::<T, E>::(ok|unwrap|expect|unwrap_or|unwrap_or_default|unwrap_or_else|is_ok|is_err|unwrap_err|expect_err|iter|unwrap_unchecked)$",
              r"mem::drop$", r"mem::forget$"]


def export_scope(body):
    p = body.path
    return p.startswith("export::") or re.match(r"^TS::(export|export_all|export_all_to|export_to_string|default_output_path|dependencies)(::|$)", p) \
        or p.startswith("<export::")


def _uses_of(body, local):
    """(block, 'stmt'/'term', thing) that read bare `local` (moves/copies) — one step"""
    out = []
    for b in range(body.n):
        if body.is_cleanup(b):
            continue
        for st in body.stmts(b):
            if st["k"] != "assign":
                continue
            rv = st["rv"]
            ops = []
            if rv["k"] in ("use", "cast"):
                ops = [rv["op"]]
            elif rv["k"] == "agg":
                ops = rv["ops"]
            elif rv["k"] in ("ref", "discr"):
                if rv["pl"]["l"] == local:
                    out.append((b, "stmt", st))
                continue
            for o in ops:
                pl = op_place(o)
                if pl and pl["l"] == local:
                    out.append((b, "stmt", st))
        t = body.term(b)
        if t["k"] == "call":
            for a in t["args"]:
                pl = op_place(a)
                if pl and pl["l"] == local:
                    out.append((b, "term", t))
        elif t["k"] == "switch":
            pl = op_place(t["discr"])
            if pl and pl["l"] == local:
                out.append((b, "switch", t))
    return out


def error_discipline_rule(crate, prop):
    r = Result("C17.R1", "every fallible call (io::Error / fmt::Error / ExportError) on the export path is propagated with `?`, returned, or stored via `.err()` into the visitor; none is unwrapped, `.ok()`-ed or dropped")
    for body in crate.bodies:
        if not export_scope(body) or body.kind not in ("Fn", "AssocFn", "Closure"):
            continue
        for b, t in body.calls():
            if body.is_cleanup(b):
                continue
            dty = t.get("dst_ty", "")
            if not re.search(ERR_TYS, dty):
                continue
            if fn_matches(t, *PROPAGATORS):
                continue
            f, l = _loc(body, b)
            verdict, how = _result_fate(body, t["dst"]["l"], set(), walker_roles(crate)[2] if "TypeVisitor" in body.path else None)
            r.inst(fn=body.path, callee=_short(t), where="%s:%s" % (f, l), fate=how)
            if not verdict:
                r.fail(prop, "error-dropped %s -> %s (%s)" % (body.path, _short(t), how),
                       "Result of %s is %s instead of being propagated" % (_short(t), how), f, l)
    r.floor = 35
    return r


def _result_fate(body, local, seen, slot=None):
    if local in seen:
        return True, "cycle"
    seen.add(local)
    if local == 0:
        return True, "returned"
    uses = _uses_of(body, local)
    if not uses:
        return False, "dropped unused"
    fates = []
    for b, kind, u in uses:
        if kind == "term":
            if fn_matches(u, r"ops::Try>::branch$", r"ops::Try::branch$"):
                fates.append((True, "?-propagated"))
            elif fn_matches(u, *SWALLOWERS):
                fates.append((False, "consumed by " + _short(u)))
            elif fn_matches(u, r"Result::<T, E>::err$"):
                # must end in the visitor's error slot or be returned
                d = u["dst"]["l"]
                ok = False
                for bb in range(body.n):
                    for st in body.stmts(bb):
                        if st["k"] == "assign" and st["rv"]["k"] == "use":
                            pl = op_place(st["rv"]["op"])
                            if pl and pl["l"] == d and any(p == (slot or ".error") or (slot is None and p.startswith(".")) for p in st["dst"]["p"]):
                                ok = True
                fates.append((ok, ".err() stored in visitor.error" if ok else ".err() result not stored"))
            elif fn_matches(u, *PROPAGATORS):
                fates.append(_result_fate(body, u["dst"]["l"], seen, slot))
            else:
                # passed to some other function: treat as handled by callee only if it is a closure/adaptor
                fates.append((True, "passed to " + _short(u)))
        elif kind == "stmt":
            dst = u["dst"]
            if u["rv"]["k"] in ("ref", "discr"):
                fates.append((True, "inspected"))
            elif dst["l"] == 0:
                fates.append((True, "returned"))
            elif not dst["p"]:
                fates.append(_result_fate(body, dst["l"], seen, slot))
            else:
                fates.append((True, "stored"))
        else:
            fates.append((True, "matched"))
    bad = [f for f in fates if not f[0]]
    if bad:
        return bad[0]
    return fates[0]


# ------------------------------------------------------------------ C06.R1

def registry_key_rule(crate, prop, fn_path="export::export_and_merge", normaliser=r"export::path::absolute$"):
    r = Result("C06.R1", "the registry key (argument of get_mut/insert on the registry) originates from a successful path::absolute(..) on every call chain into export_and_merge")
    body = crate.ibody(fn_path)
    if body is None:
        r.fail(prop, "anchor-missing " + fn_path, "function not found")
        return r
    keys = []
    for b, t in body.calls():
        if body.is_cleanup(b):
            continue
        if fn_matches(t, r"collections::HashMap::<K, V, S(, A)?>::(get_mut|get|insert|entry|contains_key|remove)$") and len(t["args"]) >= 2:
            if derives_from_registry(body, op_local(t["args"][0])):
                keys.append((b, t, op_local(t["args"][1])))
    if not keys:
        r.fail(prop, "anchor-missing registry key use", "no keyed access to the registry in %s" % fn_path, body.file(), body.line())
        return r
    cg_callers = _callers(crate)
    for b, t, kl in keys:
        chains = []
        _trace(crate, cg_callers, body, kl, normaliser, [fn_path], chains, 0)
        f, l = _loc(body, b)
        bad = [c for c in chains if not c[0]]
        r.inst(fn=fn_path, callee=_short(t), where="%s:%s" % (f, l), chains=[" <- ".join(c[1]) + (" [normalised]" if c[0] else " [RAW: %s]" % c[2]) for c in chains])
        for ok, chain, why in bad:
            root = chain[-1]
            r.fail(prop, "registry-key-unnormalised %s" % " <- ".join(chain),
                   "key of %s can reach the registry without passing path::absolute: %s" % (_short(t), why), f, l)
    r.floor = 2
    return r


def _callers(crate):
    out = {}
    for body in crate.bodies:
        for b, t in body.calls():
            for tb in crate.call_targets(body, t):
                out.setdefault(tb.path, []).append((body, b, t))
    return out


def _trace(crate, callers, body, local, normaliser, chain, chains, depth):
    org = origins(body, local)
    if not org:
        chains.append((False, list(chain), "value has no visible origin"))
        return
    for o in org:
        if o["kind"] == "call":
            if fn_matches(o["t"], normaliser):
                chains.append((True, list(chain), ""))
            elif fn_matches(o["t"], r"path::Path::join$"):
                continue  # origins() already queued both operands
            else:
                chains.append((False, list(chain), "comes from %s()" % _short(o["t"])))
        elif o["kind"] == "arg":
            idx = o["local"] - 1
            cs = callers.get(body.path, [])
            if not cs or depth > 4:
                chains.append((False, list(chain), "parameter #%d of %s (public entry or too deep)" % (idx, body.path)))
                continue
            for cb, cblk, ct in cs:
                if idx >= len(ct["args"]):
                    continue
                a = ct["args"][idx]
                al = op_local(a)
                if al is None:
                    pl = op_place(a)
                    al = pl["l"] if pl else None
                if al is None:
                    chains.append((False, chain + [cb.path], "constant argument"))
                    continue
                _trace(crate, callers, cb, al, normaliser, chain + [cb.path], chains, depth + 1)
        elif o["kind"] in ("const", "agg", "other", "unknown"):
            if o["kind"] == "agg":
                continue
            chains.append((False, list(chain), "origin kind %s" % o["kind"]))


# ------------------------------------------------------------------ C06.R2

def first_touch_rule(crate, prop, fn_path="export::export_and_merge"):
    r = Result("C06.R2", "on the registry-miss branch the file is opened truncating (File::create or OpenOptions.truncate(true)), so stale content cannot leak")
    body = crate.ibody(fn_path)
    if body is None:
        r.fail(prop, "anchor-missing " + fn_path, "function not found")
        return r
    look = _registry_lookup(body)
    if not look:
        r.fail(prop, "anchor-missing registry lookup", "no get_mut", body.file(), body.line())
        return r
    _, some_t, none_t = look
    miss = body.reachable_from([none_t]) - body.reachable_from([some_t])
    n = 0
    for b, t in body.calls():
        if b not in miss or body.is_cleanup(b):
            continue
        if fn_matches(t, *FILE_OPEN):
            n += 1
            f, l = _loc(body, b)
            trunc = fn_matches(t, r"fs::File::create$")
            if fn_matches(t, r"fs::OpenOptions::open$"):
                org = origins(body, op_local(t["args"][0]), identity=[])
                trunc = any(o["kind"] == "call" and fn_matches(o["t"], r"OpenOptions::truncate$") and
                            (op_const(o["t"]["args"][1]) or {}).get("int") == 1 for o in org)
            r.inst(fn=fn_path, callee=_short(t), where="%s:%s" % (f, l), truncating=trunc)
            if not trunc:
                r.fail(prop, "first-touch-not-truncating %s -> %s" % (fn_path, _short(t)),
                       "first write to a path in this process does not truncate: stale declarations from an earlier run survive", f, l)
    if n == 0:
        r.fail(prop, "anchor-missing first-touch open", "registry-miss branch opens no file", body.file(), body.line())
    r.floor = 1
    return r


# ------------------------------------------------------------------ C06.R3

def env_rule(crate, prop, reader="export::default_out_dir", var="TS_RS_EXPORT_DIR", cwd_reader="export::path::absolute"):
    r = Result("C06.R3", "the base directory is read from the environment in exactly one place (default_out_dir) and the cwd in exactly one place (path::absolute); the public entry points all go through them")
    n = 0
    for body in crate.bodies:
        for b, t in body.calls():
            if fn_matches(t, r"^std::env::(var|var_os|vars|vars_os|args|set_var|remove_var|set_current_dir|home_dir|temp_dir)$", r"^std::env::(var|var_os)::"):
                f, l = _loc(body, b)
                name = None
                if t["args"]:
                    c = op_const(t["args"][0])
                    name = (c or {}).get("str")
                r.inst(fn=body.path, callee=_short(t), var=name, where="%s:%s" % (f, l))
                n += 1
                if body.path != reader or name != var:
                    r.fail(prop, "env-read-outside-owner %s -> %s(%s)" % (body.path, _short(t), name),
                           "environment access outside %s / other than %s" % (reader, var), f, l)
            if fn_matches(t, r"^std::env::current_dir$"):
                f, l = _loc(body, b)
                r.inst(fn=body.path, callee=_short(t), where="%s:%s" % (f, l))
                if body.path != cwd_reader:
                    r.fail(prop, "cwd-read-outside-owner %s" % body.path, "current_dir() read outside %s" % cwd_reader, f, l)
    if n == 0:
        r.fail(prop, "anchor-missing env read", "no read of %s found" % var)
    need = [("TS::export_all", reader), ("TS::default_output_path", reader), ("export::export_to_string", reader),
            ("TS::export", "TS::default_output_path")]
    for caller, cal in need:
        cb = crate.body(caller)
        ok = cb is not None and any(fn_matches(t, re.escape(cal) + "$") for _, t in cb.calls())
        r.inst(edge="%s -> %s" % (caller, cal), present=ok)
        if not ok:
            r.fail(prop, "edge-missing %s -> %s" % (caller, cal), "%s no longer obtains the base directory through %s" % (caller, cal),
                   cb.file() if cb else None, cb.line() if cb else None)
    r.floor = 5
    return r


# ------------------------------------------------------------------ C06.R4 + C11.R2

def walker_roles(crate):
    """(recursive exporter, exporting visitor's visit body, name of the visitor's error slot).  Found by what they do, not
    by what they are called: the exporter is the function of module recursive_export that calls export_into; the visitor
    is the TypeVisitor implemented in that module; its error slot is the field it tests with is_some()/is_none()."""
    rec = [b for b in crate.bodies if b.kind in ("Fn", "AssocFn") and b.path.startswith("export::recursive_export::")
           and any(fn_matches(t, r"^export::export_into$") for blk, t in b.calls() if not b.is_cleanup(blk))]
    vis = [b for b in crate.bodies if b.raw.get("assoc_name") == "visit" and (b.raw.get("impl_trait") or "").split("::")[-1] == "TypeVisitor"
           and "recursive_export::" in (b.raw.get("impl_self") or b.path)]
    er = rec[0] if len(rec) == 1 else None
    v = vis[0] if len(vis) == 1 else None
    slot = None
    if v is not None:
        # the field of the visitor that carries an ExportError (Option<ExportError> or Result<(), ExportError>): read off
        # the place where a visitor is built
        vname = _vis_type(v).split("::")[-1]
        for bx in crate.bodies:
            for blk in range(bx.n):
                for st in bx.stmts(blk):
                    if st["k"] == "assign" and st["rv"]["k"] == "agg" and (st["rv"].get("adt") or "").split("::")[-1] == vname and st["rv"].get("fields"):
                        for fname, o in zip(st["rv"]["fields"], st["rv"]["ops"]):
                            ty = bx.local_ty(op_local(o)) if op_local(o) is not None else (op_const(o) or {}).get("ty", "")
                            if "ExportError" in (ty or ""):
                                slot = "." + fname
    return er, v, slot
    return er, v, slot


def module_visit_types(crate, prefix="export::recursive_export::"):
    """the types whose dependencies the recursive exporter's module walks: first type argument of every call of
    TS::visit_dependencies in the module, with a helper's own type parameter replaced by what its callers (inside the
    module) instantiate it with.  -> [(body, block, term, resolved type argument)]"""
    mod = [b for b in crate.bodies if b.path.startswith(prefix)]
    out = []
    for b in mod:
        for blk, t in b.calls():
            if b.is_cleanup(blk) or not fn_matches(t, r"TS::visit_dependencies$"):
                continue
            a0 = (t["fn"].get("args") or [""])[0]
            gp = b.raw.get("generic_params") or []
            resolved = [a0]
            if a0 in gp:
                k = gp.index(a0)
                inst = []
                for c in mod:
                    for blk2, t2 in c.calls():
                        if c.is_cleanup(blk2) or not t2.get("fn") or t2["fn"].get("path") is None:
                            continue
                        if crate.call_targets(c, t2, ()) and any(x.path == b.path for x in crate.call_targets(c, t2, ())):
                            args = t2["fn"].get("args") or []
                            if k < len(args):
                                inst.append(args[k])
                resolved = inst or [a0]
            for a in resolved:
                out.append((b, blk, t, a))
    return out


def _vis_type(v):
    return re.sub(r"<.*$", "", (v.raw.get("impl_self") or "")) if v is not None else "?"


def walk_rule(crate, prop):
    r = Result("C11.R2", "recursive export: seen-guard dominates the walk; every non-error, non-seen return of export_recursive passes the dependency visit; the visitor recurses through export_recursive, skips non-exportable types, short-circuits after the first error, stores the error, and export_recursive returns it")
    er, vis, slot = walker_roles(crate)
    slot = slot or ".error"
    vty = _vis_type(vis)
    rec_rx = re.escape(er.path) + "$" if er is not None else r"recursive_export::export_recursive$"
    eai = crate.body("export::recursive_export::export_all_into")
    for nm, bd in (("export_recursive", er), ("Visit::visit", vis), ("export_all_into", eai)):
        if bd is None:
            r.fail(prop, "anchor-missing " + nm, "%s not found" % nm)
    if er is None or vis is None or eai is None:
        return r
    # edges
    def has_call(body, rx):
        return [(b, t) for b, t in body.calls() if fn_matches(t, rx) and not body.is_cleanup(b)]
    e1 = has_call(eai, rec_rx)
    r.inst(edge="export_all_into -> export_recursive", present=bool(e1))
    if not e1:
        r.fail(prop, "edge-missing export_all_into -> export_recursive", "export_all_into does not start the recursive walk", eai.file(), eai.line())
    c_into = has_call(er, r"^export::export_into$")
    c_vis = has_call(er, r"TS::visit_dependencies$")
    elsewhere = [x for x in module_visit_types(crate) if x[0].path.split("::{closure")[0] != er.path]
    if not c_vis and elsewhere:
        # the walk is not organised as `exporter -> visit_dependencies(visitor) -> visitor.visit -> exporter` (a work list,
        # a collecting visitor, ..): the clauses below do not describe it
        r.inst(exporter=er.path, visit_dependencies_called_from=sorted({x[0].path for x in elsewhere}), verdict="undecided: the walk has another shape")
        r.fail(prop, "anchor-missing recursive walk shape", "%s does not call visit_dependencies itself; %s does - the recursion is organised in a way this rule does not read" % (er.path, sorted({x[0].path for x in elsewhere})), er.file(), er.line())
        return r
    r.inst(edge="export_recursive -> export_into", present=bool(c_into))
    r.inst(edge="export_recursive -> <T as TS>::visit_dependencies", present=bool(c_vis))
    if not c_into:
        r.fail(prop, "edge-missing export_recursive -> export_into", "the visited type itself is not exported", er.file(), er.line())
    if not c_vis:
        r.fail(prop, "edge-missing export_recursive -> visit_dependencies", "dependencies are not walked", er.file(), er.line())
    for b, t in c_vis:
        if vty.split("::")[-1] not in " ".join(t["fn"].get("args", [])):
            r.fail(prop, "visitor-type export_recursive", "visit_dependencies is not driven with the exporting visitor", *_loc(er, b))
    at_t = [1 for b, t in c_vis if (t["fn"].get("args") or [None])[0] == "T"]
    for b, t in c_into + c_vis:
        a0 = t["fn"]["args"][0] if t["fn"].get("args") else None
        # besides T itself, the dependencies of T::WithoutGenerics (what the written file declares and imports) may be walked *as well*
        also = fn_matches(t, r"TS::visit_dependencies$") and a0 == "<T as TS>::WithoutGenerics" and at_t
        if a0 != "T" and not also:
            r.fail(prop, "walk-type-mismatch export_recursive -> %s" % _short(t), "called at type %s instead of the visited type T" % a0, *_loc(er, b))
    # seen guard
    ins = [(b, t) for b, t in er.calls() if fn_matches(t, r"collections::HashSet::<T, S(, A)?>::insert$") and "TypeId" in (t.get("arg_tys") or ["", ""])[1]]
    if not ins:
        r.fail(prop, "seen-guard-missing export_recursive", "no seen.insert(TypeId::of::<T>()) guard: cyclic type graphs would recurse forever", er.file(), er.line())
        return r
    sws = _bool_switches(er, ins[0][0])
    if not sws:
        r.fail(prop, "seen-guard-unrecognised export_recursive", "result of seen.insert() is not branched on", *_loc(er, ins[0][0]))
        return r
    already_ts = {f_t for f_t, _ in sws if f_t is not None}
    vname = vty.split("::")[-1]
    own_visitor = er.raw["arg_count"] >= 1 and vname in er.local_ty(1)
    for b, t in c_into + c_vis:
        ok = any(fresh_t is not None and er.dominates(fresh_t, b) for _, fresh_t in sws)
        r.inst(fn=er.path, callee=_short(t), dominated_by_fresh_insert=ok)
        if not ok:
            r.fail(prop, "walk-not-guarded export_recursive -> %s" % _short(t), "call is reachable without passing the `seen.insert(..) == true` edge", *_loc(er, b))
    # every path entry -> return passes: already-seen edge, a `?` break edge, or the visit call
    slot_writes = {bb for bb in range(er.n) if not er.is_cleanup(bb) for st in er.stmts(bb)
                   if st["k"] == "assign" and slot in st["dst"]["p"] and vty.split("::")[-1] in er.local_ty(st["dst"]["l"])}
    slot_err_edges = {e_t for _, e_t in slot_tests(er, slot, vname, crate) if e_t is not None}
    through = already_ts | {e["brk"] for e in try_edges(er) if e["brk"] is not None} | {b for b, _ in c_vis} | M.error_blocks(er) | slot_writes | slot_err_edges
    ok = er.all_paths_pass(0, through, er.returns())
    r.inst(fn=er.path, check="all non-error returns pass visit_dependencies", ok=ok)
    if not ok:
        r.fail(prop, "walk-bypass export_recursive", "export_recursive can return without an error, without the type being already seen, and without walking the dependencies",
               er.file(), er.line())
    # after the visit, the visitor's error is inspected before returning
    for b, t in c_vis:
        start = t["target"]
        readers = set()
        for bb in range(er.n):
            for st in er.stmts(bb):
                if st["k"] == "assign" and st["rv"]["k"] in ("discr", "use", "ref"):
                    pl = st["rv"].get("pl") or op_place(st["rv"].get("op", {"k": ""})) if st["rv"]["k"] != "use" else op_place(st["rv"]["op"])
                    if pl and slot in pl["p"] and vty.split("::")[-1] in er.local_ty(pl["l"]):
                        readers.add(bb)
        ok = bool(readers) and er.all_paths_pass(start, readers, er.returns())
        if not ok and (not readers or own_visitor):
            # the exporter is its own visitor (`visit_dependencies(self)`): the slot outlives the call and is looked at by
            # whoever created the exporter - every path of export_all_into from the walk to a return must read it
            rd2 = set()
            for bb in range(eai.n):
                for st in eai.stmts(bb):
                    if st["k"] == "assign" and st["rv"]["k"] in ("discr", "use", "ref"):
                        pl = st["rv"].get("pl") if st["rv"]["k"] != "use" else op_place(st["rv"]["op"])
                        if pl and slot in pl["p"] and vty.split("::")[-1] in eai.local_ty(pl["l"]):
                            rd2.add(bb)
            ok = bool(rd2) and all(eai.all_paths_pass(t1["target"], rd2, eai.returns()) for _, t1 in e1 if t1.get("target") is not None)
        r.inst(fn=er.path, check="visitor.error read on every path from the visit to a return", ok=ok)
        if not ok:
            r.fail(prop, "visitor-error-ignored export_recursive", "a path from visit_dependencies to return does not look at visitor.error: a dependency's export error is swallowed",
                   *_loc(er, b))
    # Visit::visit
    rec = has_call(vis, rec_rx)
    direct = has_call(vis, r"^export::export_(into|to)$")
    r.inst(edge="Visit::visit -> export_recursive", present=bool(rec))
    if not rec and not direct and any(kind == "fn" and isinstance(v, dict) and "recursive_export" in (v.get("path") or "") for kind, v in crate.address_taken(vis)):
        # the visitor collects what is to be done (function pointers on a work list) instead of doing it: the clauses about
        # the recursion do not describe this walk
        r.inst(visitor=vis.path, verdict="undecided: the visitor schedules steps instead of recursing")
        r.fail(prop, "anchor-missing recursive walk shape", "%s does not recurse; it takes the address of functions of the module (a work list)" % vis.path, vis.file(), vis.line())
        return r
    if not rec:
        r.fail(prop, "edge-missing Visit::visit -> export_recursive", "the visitor does not recurse: only direct dependencies would be exported", vis.file(), vis.line())
    if direct:
        r.fail(prop, "visitor-exports-directly Visit::visit", "visitor calls export_into/export_to directly (transitive dependencies lost)", *_loc(vis, direct[0][0]))
    is_some = []
    vtests = slot_tests(vis, slot, vname, crate)
    is_none = [(b, t) for b, t in vis.calls() if fn_matches(t, r"option::Option::<T>::is_none$") and
               any(o["kind"] == "call" and fn_matches(o["t"], r"TS::output_path$") for o in origins(vis, op_local(t["args"][0])))]
    has_path = [(b, t) for b, t in vis.calls() if fn_matches(t, r"option::Option::<T>::is_some$") and
                any(o["kind"] == "call" and fn_matches(o["t"], r"TS::output_path$") for o in origins(vis, op_local(t["args"][0])))]
    if not is_none and has_path:
        # `if output_path().is_some() { recurse }`: the recursion must sit behind the true edge
        sw3 = _bool_switch(vis, has_path[0][0])
        for b, t in rec:
            ok = bool(sw3) and sw3[1] is not None and vis.dominates(sw3[1], b)
            r.inst(fn=vis.path, guard="output_path().is_some()", dominates_recursion=ok)
            if not ok:
                r.fail(prop, "visitor-guard-bypassed output_path().is_some()", "recursive export reachable for a type without an output path", *_loc(vis, b))
    # the error state: the recursion sits behind the `no error so far` outcome of a test of the slot
    if not vtests:
        r.fail(prop, "visitor-guard-missing error.is_some()", "Visit::visit does not test the error slot (%s) before recursing" % slot, vis.file(), vis.line())
    for b, t in (rec if vtests else []):
        ok = any(c_t is not None and vis.dominates(c_t, b) for c_t, _ in vtests)
        r.inst(fn=vis.path, guard="error slot %s says `no error`" % slot, dominates_recursion=ok)
        if not ok:
            r.fail(prop, "visitor-guard-bypassed error.is_some()", "recursive export reachable although an earlier export failed", *_loc(vis, b))
    for nm, lst, want_false in (("output_path().is_none()", is_none, True),):
        if nm.startswith("output_path") and not lst and has_path:
            continue
        if not lst:
            r.fail(prop, "visitor-guard-missing %s" % nm, "Visit::visit does not test %s before recursing" % nm, vis.file(), vis.line())
            continue
        sw2 = _bool_switch(vis, lst[0][0])
        if not sw2:
            r.fail(prop, "visitor-guard-unrecognised %s" % nm, "result of %s is not branched on" % nm, *_loc(vis, lst[0][0]))
            continue
        f_t, t_t = sw2
        for b, t in rec:
            ok = vis.dominates(f_t, b)
            r.inst(fn=vis.path, guard=nm, dominates_recursion=ok)
            if not ok:
                r.fail(prop, "visitor-guard-bypassed %s" % nm, "recursive export reachable although %s" % nm, *_loc(vis, b))
    # result stored
    for b, t in rec:
        if (t.get("dst_ty") or "") == "()":
            r.inst(fn=vis.path, callee=_short(t), fate="returns nothing: errors are written to the slot where they occur (checked above)")
            continue
        verdict, how = _result_fate(vis, t["dst"]["l"], set(), slot)
        r.inst(fn=vis.path, callee=_short(t), fate=how)
        if not verdict or "visitor.error" not in how:
            r.fail(prop, "visitor-error-not-stored Visit::visit", "result of the recursive export is %s" % how, *_loc(vis, b))
    # the store must not overwrite an earlier error: guaranteed by is_some guard dominating (checked above)
    r.floor = 11
    return r


def _arg_mentions_field(body, t, field):
    l = op_local(t["args"][0])
    if l is None:
        return False
    for b, i, d in M.def_sites(body, l):
        if i != "term" and d["rv"]["k"] == "ref" and field in d["rv"]["pl"]["p"]:
            return True
    return False


# ------------------------------------------------------------------ C11.R3 + C17.R4

def call_reaches(crate, body, t, rx, prefix="export::"):
    """does the call `t` in `body` reach (directly or through functions of the exporter) a call matching rx"""
    if fn_matches(t, rx):
        return True
    for hb in crate.call_targets(body, t, ("TS",)):
        if not hb.path.startswith(prefix):
            continue
        reach, _ = crate.reachable_bodies([hb.path], no_impls_of=("TS",))
        if any(fn_matches(t2, rx) for bx in crate.bodies if bx.path in reach and bx.path.startswith(prefix) for _, t2 in bx.calls()):
            return True
    return False


def path_agreement_rule(crate, prop):
    r = Result("C11.R3", "the path handed to export_to::<T> derives from <T as TS>::output_path() of the same T (joined to the base directory) behind its `Some` check; export_to is entered only from export_into and TS::export; imports and Dependency read the same function")
    callers = _callers(crate)
    et = callers.get("export::export_to", [])
    if not et:
        r.fail(prop, "anchor-missing export_to callers", "export_to has no callers")
        return r
    allowed = {"export::export_into": r"TS::output_path$", "TS::export": r"TS::default_output_path$"}
    for cb, blk, t in et:
        f, l = _loc(cb, blk)
        if cb.path not in allowed:
            r.fail(prop, "export_to-new-caller %s" % cb.path, "export_to entered from %s which does not establish exportability/path agreement" % cb.path, f, l)
            continue
        T = t["fn"]["args"][0]
        org = origins(cb, op_local(t["args"][0]), identity=ADAPT_IDENTITY)
        src = [o for o in org if o["kind"] == "call" and fn_matches(o["t"], allowed[cb.path])]
        same = [o for o in src if (o["t"]["fn"].get("args") or [None])[0] == T]
        r.inst(fn=cb.path, callee="export_to::<%s>" % T, where="%s:%s" % (f, l), path_from=[_short(o["t"]) + "::<%s>" % (o["t"]["fn"].get("args") or ["?"])[0] for o in src])
        if not same:
            r.fail(prop, "written-path-not-own %s" % cb.path, "argument of export_to::<%s> does not derive from %s of the same type" % (T, allowed[cb.path]), f, l)
        # exportability: dominated by the success edge of a `?` whose operand derives from that call
        ok = False
        for e in try_edges(cb):
            if e["arg"] is None or e["cont"] is None:
                continue
            o2 = origins(cb, e["arg"], through_try=False, identity=ADAPT_IDENTITY)
            if any(o["kind"] == "call" and fn_matches(o["t"], allowed[cb.path]) for o in o2) and cb.dominates(e["cont"], blk):
                ok = True
        if not ok:
            # `match output_path() { Some(p) => export_to(p), None => Err(..) }`: the call sits behind the `Some` arm
            dom = cb.dominators()
            for w2 in dom.get(blk, ()):
                sw = cb.term(w2)
                if sw["k"] != "switch" or w2 == blk or op_local(sw["discr"]) is None:
                    continue
                for b3, i3, d3 in M.def_sites(cb, op_local(sw["discr"])):
                    if i3 == "term" or d3["rv"]["k"] != "discr":
                        continue
                    o3 = origins(cb, d3["rv"]["pl"]["l"], through_try=False, identity=ADAPT_IDENTITY)
                    if not any(o["kind"] == "call" and fn_matches(o["t"], allowed[cb.path]) for o in o3):
                        continue
                    some_t = next((tg for v, tg in sw["targets"] if v == 1), None)
                    if some_t is None and {v for v, _ in sw["targets"]} == {0}:
                        some_t = sw["otherwise"]
                    if some_t is not None and (some_t == blk or cb.dominates(some_t, blk)):
                        ok = True
        r.inst(fn=cb.path, check="export_to dominated by Some(output_path) success edge", ok=ok)
        if not ok:
            r.fail(prop, "exportability-unchecked %s" % cb.path, "export_to reachable without a successful output_path check (ident()/decl() of non-exportable types panic)", f, l)
    dop = crate.body("TS::default_output_path")
    if dop is None or not any(fn_matches(t, r"TS::output_path$") and (t["fn"].get("args") or [None])[0] == "Self" for _, t in dop.calls()):
        r.fail(prop, "edge-missing default_output_path -> output_path", "default_output_path no longer derives from <Self as TS>::output_path()", dop.file() if dop else None, dop.line() if dop else None)
    else:
        r.inst(edge="TS::default_output_path -> <Self as TS>::output_path", present=True)
    es0 = crate.body("export::export_to_string")
    imp_fns = sorted({hb.path for blk, t in (es0.calls() if es0 is not None else []) if not es0.is_cleanup(blk) and "WithoutGenerics" in ((t.get("fn") or {}).get("args") or [""])[0]
                      for hb in crate.call_targets(es0, t, ("TS",)) if hb.path.startswith("export::")}) or ["export::generate_imports"]
    for nm in ["Dependency::from_ty"] + imp_fns:
        b = crate.body(nm)
        grp = [x for x in crate.bodies if x.path in crate.owned_by(nm)] if b is not None else []
        ok = b is not None and any(fn_matches(t, r"TS::output_path$") and (t["fn"].get("args") or [None])[0] in ("T", (x.raw.get("generic_params") or ["T"])[0]) for x in (grp or [b]) for _, t in x.calls())
        r.inst(edge="%s -> <T as TS>::output_path" % nm, present=ok)
        if not ok:
            r.fail(prop, "edge-missing %s -> output_path" % nm, "%s does not read <T as TS>::output_path()" % nm, b.file() if b else None, b.line() if b else None)
    # file path args in the writer derive from its path parameter
    w = crate.body("export::export_and_merge")
    if w is not None:
        for b, t in w.calls():
            if w.is_cleanup(b) or not fn_matches(t, *FILE_OPEN):
                continue
            idx = 0 if fn_matches(t, r"fs::File::(create|open)") else 1
            if idx >= len(t["args"]):
                continue
            org = origins(w, op_local(t["args"][idx]), identity=M.IDENTITY_CALLS + [r"(Vacant|Occupied)Entry::<.*>::key$", r"Entry::<.*>::key$"])
            # `map.entry(path)`: the entry's key is the second argument
            for _ in range(3):
                more = []
                for o in org:
                    if o["kind"] == "call" and fn_matches(o["t"], r"(Hash|BTree)Map::<K, V(, S)?(, A)?>::entry$") and len(o["t"]["args"]) > 1 and op_local(o["t"]["args"][1]) is not None:
                        more += origins(w, op_local(o["t"]["args"][1]))
                    else:
                        more.append(o)
                org = more
            ok = any(o["kind"] == "arg" and o["local"] == 1 for o in org) and not any(o["kind"] == "call" for o in org)
            f, l = _loc(w, b)
            r.inst(fn=w.path, callee=_short(t), where="%s:%s" % (f, l), path_is_parameter=ok)
            if not ok:
                r.fail(prop, "write-target-not-parameter export_and_merge -> %s" % _short(t), "file opened at a path that is not export_and_merge's `path` parameter", f, l)
    et2 = crate.body("export::export_to")
    if et2 is not None:
        for b, t in et2.calls():
            if fn_matches(t, *DIR_CREATE) and not et2.is_cleanup(b):
                org = origins(et2, op_local(t["args"][0]))
                ok = any(o["kind"] == "call" and fn_matches(o["t"], r"path::Path::parent$") for o in org)
                r.inst(fn=et2.path, callee=_short(t), dir_is_parent_of_target=ok)
                if not ok:
                    r.fail(prop, "mkdir-not-parent export_to", "create_dir_all argument is not `path.parent()`", *_loc(et2, b))
    # export_to_string: declaration generated only after imports succeeded (which checks exportability of WithoutGenerics)
    es = crate.body("export::export_to_string")
    if es is not None:
        is_imports = lambda t: fn_matches(t, r"export::generate_imports$") or ("WithoutGenerics" in ((t.get("fn") or {}).get("args") or [""])[0] and "Result<" in (t.get("dst_ty") or "") and (t.get("fn") or {}).get("path", "").startswith("export::"))
        gi = [(b, t) for b, t in es.calls() if is_imports(t)]
        # the calls through which T::decl() is reached (directly, or inside a helper of the exporter)
        def reaches_decl(t):
            if fn_matches(t, r"TS::decl$"):
                return True
            for hb in crate.call_targets(es, t, ("TS",)):
                if not hb.path.startswith("export::"):
                    continue
                reach, _ = crate.reachable_bodies([hb.path], no_impls_of=("TS",))
                if any(fn_matches(t2, r"TS::decl$") for bx in crate.bodies if bx.path in reach and bx.path.startswith("export::") for _, t2 in bx.calls()):
                    return True
            return False
        gd = [(b, t) for b, t in es.calls() if not es.is_cleanup(b) and not is_imports(t) and reaches_decl(t)]
        if not gd:
            r.fail(prop, "anchor-missing declaration call in export_to_string", "no call in export_to_string reaches T::decl()", es.file(), es.line())
        ok = not gd
        for e in try_edges(es):
            if e["arg"] is not None and any(o["kind"] == "call" and is_imports(o["t"]) for o in origins(es, e["arg"], through_try=False)):
                if gd and all(es.dominates(e["cont"], b) for b, _ in gd):
                    ok = True
        r.inst(fn=es.path, check="generate_decl dominated by generate_imports success", ok=ok)
        if not ok:
            r.fail(prop, "decl-before-exportability export_to_string", "generate_decl (which calls T::decl(), panicking for non-exportable types) is not dominated by the success edge of generate_imports(..)?", es.file(), es.line())
    r.floor = 10
    return r


def normaliser_rule(syn, prop, rule="C17.R7", crate=None):
    """`..` may cancel a directory name; it may not cancel the root.  `/a/../../x` has no meaning below the root and C17 asks
    for an error; popping the RootDir component instead leaves the relative path `x`, which export_to re-anchors at the cwd."""
    r = Result(rule, "in path::absolute (helpers and closures included) every removal of a component from the cleaned stack is tied to a test that the removed component is a directory name (Component::Normal): either the test on `last()` dominates the removal, or the removed value itself is tested and every other outcome ends in an error; at the root or a prefix `..` is an error, so a path that climbs above the root by any number of levels is rejected")
    if crate is None or crate.body("export::path::absolute") is None:
        r.fail(prop, "anchor-missing path::absolute", "not found")
        return r
    NORMAL = 4   # std::path::Component: Prefix, RootDir, CurDir, ParentDir, Normal
    group = crate.owned_by("export::path::absolute")
    n = 0
    for b in crate.bodies:
        if b.path not in group:
            continue
        pops = [(blk, t) for blk, t in b.calls() if not b.is_cleanup(blk) and fn_matches(t, r"vec::Vec::<T, A>::(pop|truncate|remove|swap_remove)$")
                and "Component" in (t.get("arg_tys") or [""])[0]]
        if not pops:
            continue
        tests = []
        for blk in range(b.n):
            sw = b.term(blk)
            if sw["k"] != "switch" or b.is_cleanup(blk) or op_local(sw["discr"]) is None:
                continue
            for bb, i, d in M.def_sites(b, op_local(sw["discr"])):
                if i == "term" or d["rv"]["k"] != "discr":
                    continue
                pl = d["rv"]["pl"]
                if "Component" not in b.local_ty(pl["l"]):
                    continue
                normal_t = next((tg for v, tg in sw["targets"] if v == NORMAL), None)
                if normal_t is None:
                    continue
                vis = set()
                org = origins(b, pl["l"], visited=vis)
                src = [o for o in org if o["kind"] == "call" and fn_matches(o["t"], r"::last$", r"::last_mut$", r"vec::Vec::<T, A>::pop$")]
                tests.append((blk, normal_t, src))
        errs = M.error_blocks(b)

        def flag_edges(normal_t):
            """`matches!(last(), Some(Normal(_)))`: blocks entered only when a bool that is set to true nowhere but behind the
            Normal edge is true"""
            out = []
            for wb in range(b.n):
                sw = b.term(wb)
                if sw["k"] != "switch" or b.is_cleanup(wb):
                    continue
                cur = op_local(sw["discr"])
                dpl = op_place(sw["discr"])
                if cur is None and dpl is not None and len(dpl["p"]) == 1 and re.match(r"^\.\d+$", dpl["p"][0]):
                    # `match (comp, flag) { .. }`: the flag is a component of the scrutinee tuple
                    tds = [d for d in M.real_defs(b, dpl["l"]) if not b.is_cleanup(d[0])]
                    if len(tds) == 1 and tds[0][1] != "term" and tds[0][2]["rv"]["k"] == "agg" and tds[0][2]["rv"].get("tuple"):
                        cur = op_local(tds[0][2]["rv"]["ops"][int(dpl["p"][0][1:])])
                if cur is None:
                    continue
                pos = True
                ds = [d for d in M.def_sites(b, cur) if not b.is_cleanup(d[0])]
                for _ in range(3):      # through plain copies of the flag
                    if len(ds) == 1 and ds[0][1] != "term" and ds[0][2]["rv"]["k"] == "use" and op_local(ds[0][2]["rv"]["op"]) is not None:
                        cur = op_local(ds[0][2]["rv"]["op"])
                        ds = [d for d in M.def_sites(b, cur) if not b.is_cleanup(d[0])]
                if len(ds) == 1 and ds[0][1] != "term" and ds[0][2]["rv"]["k"] == "unop" and ds[0][2]["rv"]["op"] == "Not" and op_local(ds[0][2]["rv"]["a"]) is not None:
                    cur, pos = op_local(ds[0][2]["rv"]["a"]), False
                    ds = [d for d in M.def_sites(b, cur) if not b.is_cleanup(d[0])]
                if b.local_ty(cur) != "bool" or not ds:
                    continue
                vals = []
                for db, i, d in ds:
                    c = op_const(d["rv"]["op"]) if i != "term" and d["rv"]["k"] == "use" else None
                    vals.append((db, (c or {}).get("int") if c is not None else None, c))
                if any(c is None for _, _, c in vals):
                    continue
                trues = [db for db, v, c in vals if v == 1 or (c or {}).get("bool") is True or "true" in str((c or {}).get("dbg"))]
                if not trues or not all(b.dominates(normal_t, db) for db in trues):
                    continue
                zero = next((tg for v, tg in sw["targets"] if v == 0), None)
                out.append(sw["otherwise"] if pos else zero)
            return [x for x in out if x is not None]

        for blk, t in pops:
            n += 1
            guarded = False
            for sblk, normal_t, src in tests:
                if any(fn_matches(o["t"], r"::last(_mut)?$") for o in src) and (b.dominates(normal_t, blk) or any(b.dominates(e, blk) for e in flag_edges(normal_t))):
                    guarded = True
                if any(o["t"] is t for o in src) and t.get("target") is not None and b.all_paths_pass(t["target"], {normal_t} | errs, b.returns()):
                    guarded = True
            f, l = M.user_span(t["span"])
            r.inst(fn=b.path, where="%s:%s" % (f, l), removal=t["fn"]["path"].split("::")[-1], only_directory_names=guarded)
            if not guarded:
                r.fail(prop, "parent-dir-pops-root export::path::absolute",
                       "`..` pops whatever component is last, the root included: with an output directory two levels deep, `#[ts(export_to = \"../../../x.ts\")]` normalises to the relative path `x.ts`; export_all_to returns Ok and the file is written under the working directory",
                       f, l)
    if n == 0:
        ab = crate.body("export::path::absolute")
        r.fail(prop, "anchor-missing parent-dir handling", "no component is removed for `..` in absolute()", ab.file(), ab.line())
    r.floor = 1
    return r


def normaliser_purity_rule(crate, prop, rule="C06.R7"):
    """path::absolute() gives the registry key of a file.  Two spellings of one location must give one key, in every state
    of the file system: the function is `cwd.join(path)` cleaned lexically, nothing else."""
    r = Result(rule, "path::absolute is a function of the working directory and the path text alone: (a) it does not consult the file system (canonicalize/exists/metadata/read_link: the answer changes once the file has been written), (b) every Ok value is collected from the cleaned component stack (or is `.`), never the input itself or something the OS resolved")
    b = crate.ibody("export::path::absolute")
    if b is None:
        r.fail(prop, "anchor-missing path::absolute", "not found")
        return r
    FS = r"(Path|PathBuf)::(canonicalize|exists|try_exists|metadata|symlink_metadata|read_link|is_file|is_dir|is_symlink|read_dir)$|std::fs::"
    fs_calls = [(blk, t) for blk, t in b.calls() if not b.is_cleanup(blk) and fn_matches(t, FS)]
    for blk, t in fs_calls:
        f, l = M.user_span(t["span"])
        r.fail(prop, "normaliser-consults-filesystem export::path::absolute -> %s" % t["fn"]["path"].split("::")[-1],
               "%s inside absolute(): the key of a file changes once the file (or a symlink on the way) exists, so the first and the second export of one file use different registry keys and the second one truncates the file" % t["fn"]["path"], f, l)
    # (b) Ok payloads
    oks = []
    for blk in range(b.n):
        if b.is_cleanup(blk):
            continue
        for st in b.stmts(blk):
            if st["k"] == "assign" and st["dst"]["l"] == 0 and st["rv"]["k"] == "agg" and st["rv"].get("variant") == "Ok":
                pl = M.op_place(st["rv"]["ops"][0]) if st["rv"]["ops"] else None
                oks.append((blk, pl["l"] if pl else None))
    stack_locals = {i for i, l in enumerate(b.locals) if re.search(r"^std::vec::Vec<std::path::Component", l["ty"])}
    for blk, l0 in oks:
        srcs = origins(b, l0, identity=M.IDENTITY_CALLS) if l0 is not None else []
        kinds = []
        good = bool(srcs)
        for o in srcs:
            if o["kind"] == "call" and fn_matches(o["t"], r"Iterator::collect$", r"FromIterator"):
                # collected from the stack?
                vis_l = set()
                it = origins(b, op_local(o["t"]["args"][0]), identity=M.IDENTITY_CALLS + [r"slice::<impl \[T\]>::iter$", r"IntoIterator>::into_iter$", r"Iterator::(map|cloned|copied)$", r"Deref::deref$"], visited=vis_l)
                from_stack = any(x["kind"] == "call" and x["t"]["dst"]["l"] in stack_locals for x in it) or bool(vis_l & stack_locals)
                kinds.append("collect(stack)" if from_stack else "collect(?)")
                good = good and from_stack
            elif o["kind"] == "call" and fn_matches(o["t"], r"path::PathBuf::(new|with_capacity)$"):
                # an empty path that the components of the stack are pushed onto, one by one
                buf = o["t"]["dst"]["l"]
                holders = {buf}
                for bb in range(b.n):
                    for st in b.stmts(bb):
                        if st["k"] == "assign" and st["rv"]["k"] == "ref" and st["rv"]["pl"]["l"] in holders and not st["dst"]["p"]:
                            holders.add(st["dst"]["l"])
                pushes = [t2 for bb, t2 in b.calls() if not b.is_cleanup(bb) and fn_matches(t2, r"path::PathBuf::push$") and t2["args"] and op_local(t2["args"][0]) in holders]
                other = [t2 for bb, t2 in b.calls() if not b.is_cleanup(bb) and not fn_matches(t2, r"path::PathBuf::push$", r"Deref", r"AsRef", r"path::PathBuf::(as_path|capacity|reserve)$")
                         and t2["args"] and op_local(t2["args"][0]) in holders and "&mut" in ((t2.get("arg_tys") or [""])[0])]
                from_stack = bool(pushes) and not other
                for t2 in pushes:
                    vis_l = set()
                    origins(b, op_local(t2["args"][1]), identity=M.IDENTITY_CALLS + [r"slice::<impl \[T\]>::iter$", r"IntoIterator>::into_iter$", r"Iterator::(map|cloned|copied)$", r"Iterator>::next$", r"Iterator::next$", r"Deref::deref$", r"AsRef.*::as_ref$", r"Component::<'_>::as_os_str$", r"Component::as_os_str$"], visited=vis_l)
                    if not (vis_l & stack_locals):
                        from_stack = False
                kinds.append("push each(stack)" if from_stack else "push(?)")
                good = good and from_stack
            elif o["kind"] == "call" and fn_matches(o["t"], r"convert::From::from$", r"PathBuf::from$") and (op_const(o["t"]["args"][0]) or {}).get("str") == ".":
                kinds.append('"."')
            elif o["kind"] == "const" and (o.get("c") or {}).get("str") == ".":
                kinds.append('"."')
            else:
                kinds.append(o["kind"] + ":" + (M.callee(o["t"]) or "?" if o["kind"] == "call" else ""))
                good = False
        r.inst(fn=b.path, ok_value_from=kinds, cleaned=good)
        if not good:
            f, l = b.file(), b.line()
            r.fail(prop, "normaliser-returns-uncleaned export::path::absolute",
                   "a success value of absolute() does not come from the cleaned component stack (%s): `/x/out` and `/x/sibling/../out` stay two different registry keys, the second export of the shared file is taken for the first and truncates it" % kinds, f, l)
    if not oks:
        r.fail(prop, "anchor-missing Ok value", "absolute() builds no Ok(..)", b.file(), b.line())
    r.floor = 1
    return r


def written_text_rule(crate, prop, rule="C04.R9"):
    """what export_to() hands to the writer is the generated module, possibly re-formatted - on every path"""
    r = Result(rule, "the text export_to() passes to export_and_merge() originates, on every path, from export_to_string() or from the formatter's output for it; no default, empty or constant string can take its place (with the `format` feature, dprint answers `None` for text that is already formatted)")
    b = crate.body("export::export_to")
    if b is None:
        r.fail(prop, "anchor-missing export_to", "not found")
        return r
    ALLOWED = [r"export::export_to_string$", r"dprint_plugin_typescript::format_text$"]
    ADAPT = M.IDENTITY_CALLS + [r"Result::<T, E>::map_err$", r"Try::branch$", r"Option::<T>::(unwrap|expect)$"]
    SUBST = r"unwrap_or_default$|unwrap_or$|unwrap_or_else$|Default::default$|String::new$|String::with_capacity$"

    def classify(body, local, depth=0):
        out = []
        for o in origins(body, local, identity=ADAPT):
            if o["kind"] == "call":
                c = M.callee(o["t"]) or "?"
                if any(re.search(a, c) for a in ALLOWED):
                    out.append(("generated", c))
                elif re.search(r"Option::<T>::unwrap_or$", c) and len(o["t"]["args"]) == 2 and all(op_place(a) is not None for a in o["t"]["args"]):
                    # `x.unwrap_or(y)`: the text is x's or y's - both must be the generated module
                    for a in o["t"]["args"]:
                        out += classify(body, op_place(a)["l"], depth) or [("other", "operand of unwrap_or")]
                elif re.search(SUBST, c):
                    out.append(("substitute", c))
                elif c.startswith("export::") and depth < 3 and crate.body(c) is not None:
                    cb = crate.body(c)
                    inner = []
                    for blk in range(cb.n):
                        if cb.is_cleanup(blk):
                            continue
                        for st in cb.stmts(blk):
                            if st["k"] == "assign" and st["dst"]["l"] == 0 and st["rv"]["k"] == "agg" and st["rv"].get("variant") in ("Ok", "Some") and st["rv"]["ops"]:
                                pl = M.op_place(st["rv"]["ops"][0])
                                if pl:
                                    inner += classify(cb, pl["l"], depth + 1)
                    out += inner or [("opaque", c)]
                else:
                    out.append(("other", c))
            elif o["kind"] == "const":
                out.append(("substitute", "constant %r" % ((o.get("c") or {}).get("str"),)))
            elif o["kind"] == "arg":
                out.append(("generated", "parameter (caller's text)") if depth else ("other", "parameter"))
        return out

    sinks = [(blk, t) for blk, t in b.calls() if not b.is_cleanup(blk) and fn_matches(t, r"export::export_and_merge$")]
    if not sinks:
        r.fail(prop, "anchor-missing writer call", "export_to does not call export_and_merge", b.file(), b.line())
    for blk, t in sinks:
        cl = classify(b, op_local(t["args"][2]))
        bad = [c for k, c in cl if k != "generated"]
        f, l = M.user_span(t["span"])
        r.inst(fn=b.path, written_text_from=sorted(set(c for _, c in cl)), ok=not bad and bool(cl))
        if bad or not cl:
            r.fail(prop, "written-text-substituted export::export_to",
                   "the text written to the file can come from %s instead of the generated module: when the formatter reports `no change` the file is written empty (no notice, no declaration)" % sorted(set(bad)), f, l)
    r.floor = 1
    return r


def type_arg_discipline_rule(crate, prop, rule="C11.R8"):
    """the exporter is generic code about *one* type: whoever is asked about `T` asks its helpers about `T`"""
    r = Result(rule, "inside the TS default methods, the exporter's generic functions, the dependency visitors and Dependency::from_ty, every call to another generic function of the crate, to a TS method or to TypeId::of passes the caller's own type parameter unchanged; the one projection is export_to_string's `generate_imports::<T::WithoutGenerics>` (imports are computed on the erased type, C03.R3)")
    EXC = {("export::export_to_string", "export::generate_imports"): "<T as TS>::WithoutGenerics"}
    _er = walker_roles(crate)[0]
    ALSO = {((_er.path if _er is not None else "export::recursive_export::export_recursive"), "TS::visit_dependencies"): "<T as TS>::WithoutGenerics"}   # walked in addition to T (C03.R4)
    n = 0
    for b in crate.bodies:
        p0 = b.path
        if not (p0.startswith("TS::") or p0.startswith("export::") or p0.startswith("Dependency::") or "as TypeVisitor>::visit" in p0):
            continue
        own = {"Self"} if p0.startswith("TS::") else set()
        own |= set(re.findall(r"\b([A-Z]\w?)\b", " ".join(b.raw.get("generics", []) or []))) if b.raw.get("generics") else set()
        for blk, t in b.calls():
            if b.is_cleanup(blk) or not t.get("fn"):
                continue
            f = t["fn"]
            p = f.get("path", "")
            if not (p.startswith("export::") or p.startswith("TS::") or p.startswith("Dependency::") or p.endswith("TypeId::of") or "TypeVisitor::visit" in p):
                continue
            args = f.get("args") or []
            if not args:
                continue
            a0 = args[1] if "TypeVisitor::visit" in p and len(args) > 1 else args[0]
            if a0.startswith("'"):
                continue
            n += 1
            plain = re.match(r"^(Self|[A-Z]\w?)$", a0) is not None
            concrete = re.match(r"^(&)?std::", a0) is not None or a0.startswith("&")
            exc = EXC.get((re.sub(r"::\{closure#\d+\}", "", p0), p))
            if exc is None and p0 == "export::export_to_string" and p.startswith("export::") and call_reaches(crate, b, t, r"TS::dependencies$") and not call_reaches(crate, b, t, r"TS::decl$"):
                exc = "<T as TS>::WithoutGenerics"       # whatever the function that computes the imports is called
            ok = plain or concrete or (exc is not None and a0 == exc) or ALSO.get((re.sub(r"::\{closure#\d+\}", "", p0), p)) == a0
            r.inst(fn=p0, callee=p, type_argument=a0, ok=ok, exception=bool(exc))
            if not ok:
                fl, l = M.user_span(t["span"])
                r.fail(prop, "type-argument-changed %s -> %s" % (p0, p.split("::")[-1]),
                       "%s asks %s about `%s` instead of its own type parameter: files, names, identities or dependencies of one type would be computed from another (e.g. from the erased or the concrete instantiation)" % (p0, p, a0), fl, l)
            if exc is not None and a0 != exc:
                fl, l = M.user_span(t["span"])
                r.fail(prop, "type-argument-changed %s -> %s" % (p0, p.split("::")[-1]),
                       "%s calls %s with `%s`; imports are computed on `%s`" % (p0, p, a0, exc), fl, l)
    r.floor = 20
    return r


FS_QUERY = r"(Path|PathBuf)::(canonicalize|exists|try_exists|metadata|symlink_metadata|read_link|is_file|is_dir|is_symlink|read_dir)$|std::fs::(canonicalize|metadata|symlink_metadata|read_link|read_dir|read_to_string|read|exists)$"


def fs_query_owner_rule(crate, prop, rule="C06.R9"):
    """who may look at the file system: the writer, under the lock.  Everything that *computes* a path or decides *whether* to
    write must be a function of its arguments, the environment variable and the working directory."""
    r = Result(rule, "no function of the exporter or TS default method queries the file system (canonicalize, exists, metadata, read_link, read_to_string, ..) except export_and_merge, which reads the file it is about to merge into under the registry lock: paths and the decision to write do not depend on what is already on disk")
    OWNERS = {"export::export_and_merge"}
    n = 0
    for b in crate.bodies:
        p0 = re.sub(r"::\{closure#\d+\}", "", b.path)
        if not (p0.startswith("export::") or p0.startswith("TS::")):
            continue
        for blk, t in b.calls():
            if b.is_cleanup(blk) or not t.get("fn"):
                continue
            if fn_matches(t, FS_QUERY):
                n += 1
                ok = p0 in OWNERS
                f, l = M.user_span(t["span"])
                r.inst(fn=b.path, callee=t["fn"]["path"], where="%s:%s" % (f, l), owner=ok)
                if not ok:
                    r.fail(prop, "filesystem-queried-outside-writer %s -> %s" % (p0, t["fn"]["path"].split("::")[-1]),
                           "%s calls %s: a path, a registry key or the decision to write now depends on what exists on disk (e.g. a symlinked directory that is created by the first export resolves differently from the second export on; a stale file makes the first export a no-op that is never registered)" % (p0, t["fn"]["path"]),
                           f, l)
    r.stats["fs_queries"] = n
    r.inst(bodies_examined=sum(1 for b in crate.bodies if b.path.startswith("export::") or b.path.startswith("TS::")), filesystem_queries=n,
           note="expected count is zero; the positive examples are seeds C05_g, C05_i, C06_j, C13_i in the self-test corpus")
    r.floor = 1
    return r


def entry_reaches_writer_rule(crate, prop, rule="C11.R10"):
    """an export request is carried out or fails: there is no third outcome"""
    r = Result(rule, "every non-error path through TS::export, export_into and export_to reaches the next stage (export_to / export_to / export_and_merge), and export_all_into reaches export_recursive: no condition can turn an export request into a silent `Ok(())`")
    STAGES = [("TS::export", r"export::export_to$"), ("export::export_into", r"export::export_to$"), ("export::export_to", r"export::export_and_merge$"),
              ("export::recursive_export::export_all_into", (re.escape(walker_roles(crate)[0].path) + "$") if walker_roles(crate)[0] is not None else r"export::recursive_export::export_recursive$"), ("TS::export_all", r"export_all_into$"), ("TS::export_all_to", r"export_all_into$")]
    for path, nxt in STAGES:
        b = crate.body(path)
        if b is None:
            r.fail(prop, "anchor-missing " + path, "not found")
            continue
        stage = {blk for blk, t in b.calls() if not b.is_cleanup(blk) and fn_matches(t, nxt)}
        errs = {blk for blk, t in b.calls() if not b.is_cleanup(blk) and fn_matches(t, r"FromResidual")} | M.error_blocks(b)
        rets = [blk for blk in range(b.n) if not b.is_cleanup(blk) and b.term(blk)["k"] == "return"]
        ok = bool(stage) and b.all_paths_pass(0, stage | errs, rets)
        r.inst(fn=path, next_stage=nxt.strip("$"), on_every_success_path=ok)
        if not ok:
            r.fail(prop, "export-request-dropped %s" % path,
                   "a path through %s returns without reaching %s and without an error: the type is reported as exported although nothing was written or recorded" % (path, nxt.strip("$").split("::")[-1]),
                   b.file(), b.line())
    r.floor = 6
    return r


def normalisation_owner_rule(crate, prop, rule="C17.R9"):
    """`..` is resolved in one place, which also rejects a path that climbs above the root"""
    r = Result(rule, "path components are taken apart (components / pop / push of single components) only inside export::path and import_path: no other function resolves `.`/`..` on its own, so every path reaches path::absolute with its `..` still in it and the root check cannot be bypassed")
    OWNERS = ("export::path::", "export::import_path") + tuple(sorted(crate.owned_by("export::import_path")))      # and what import_path was split into
    n = 0
    for b in crate.bodies:
        p0 = re.sub(r"::\{closure#\d+\}", "", b.path)
        if not (p0.startswith("export::") or p0.startswith("TS::") or p0.startswith("Dependency::")):
            continue
        for blk, t in b.calls():
            if b.is_cleanup(blk) or not t.get("fn"):
                continue
            if fn_matches(t, r"Path::components$", r"PathBuf::pop$", r"Path::ancestors$", r"Path::strip_prefix$", r"Path::iter$"):
                n += 1
                ok = p0.startswith(OWNERS)
                f, l = M.user_span(t["span"])
                r.inst(fn=b.path, callee=t["fn"]["path"], owner=ok)
                if not ok:
                    r.fail(prop, "path-taken-apart-outside-normaliser %s -> %s" % (p0, t["fn"]["path"].split("::")[-1]),
                           "%s manipulates path components itself (%s): a `..` it resolves or clamps never reaches path::absolute, which is where a path climbing above the root is rejected" % (p0, t["fn"]["path"]),
                           f, l)
    r.stats["component_operations"] = n
    r.floor = 1
    return r


def import_prefix_rule(crate, prop, rule="C03.R9"):
    """`./x` and `.x` differ by more than a character: the second is a bare module specifier"""
    r = Result(rule, "import_path decides on the `./` prefix by looking at the first *component* of the relative path (a normal component gets `./`, `..` does not), not at the first character of its text: a directory called `.internal` is a normal component")
    b = crate.ibody("export::import_path")
    if b is None:
        r.fail(prop, "anchor-missing import_path", "not found")
        return r
    comp = [blk for blk, t in b.calls() if not b.is_cleanup(blk) and fn_matches(t, r"Path::components$")]
    textual = [(blk, t) for blk, t in b.calls() if not b.is_cleanup(blk) and fn_matches(t, r"str::<impl str>::starts_with$", r"str::<impl str>::strip_prefix$")
               and ((op_const(t["args"][1]) or {}).get("str") in (".", "..", "../") or (op_const(t["args"][1]) or {}).get("char") == "." or "'.'" in json.dumps(t["args"][1]))]
    r.inst(fn=b.path, inspects_first_component=bool(comp), textual_dot_tests=len(textual))
    if not comp and not textual:
        r.fail(prop, "anchor-missing prefix decision in import_path", "neither a look at the first component nor a test of the text found", b.file(), b.line())
    elif textual:
        f, l = M.user_span(textual[0][1]["span"]) if textual else (b.file(), b.line())
        r.fail(prop, "import-prefix-by-text export::import_path",
               "the `./` prefix is decided from the text of the path (starts with `.`): a dependency in a dot-named directory (`.internal/Hidden.ts`) is imported as `\".internal/Hidden\"`, a bare specifier that names no file the export wrote", f, l)
    r.floor = 1
    return r


def visitor_predicates_rule(crate, prop, rule="C11.R12"):
    """a visitor decides per visited type from two facts only: has an error occurred, does the type have a file.
    (TS::dependencies' collector: is there a Dependency for the type.)  Anything else - comparing paths, names, earlier
    entries - makes what is exported/imported depend on more than the dependency relation."""
    r = Result(rule, "the bodies of the two dependency visitors (`recursive_export::Visit::visit`, `TS::dependencies::Visit::visit`) consult nothing but the error flag, `T::output_path().is_none()` resp. `Dependency::from_ty::<T>()`: no comparison of paths or names, no look-up in what was collected before")
    _er = walker_roles(crate)[0]
    ALLOWED = [r"TS::output_path$", r"Option::<T>::(is_some|is_none)$", (re.escape(_er.path) + "$") if _er is not None else r"export_recursive$", r"Result::<T, E>::err$", r"Dependency::from_ty$", r"Vec::<T, A>::push$", r"Vec::<T>::push$",
               r"Deref::deref$", r"DerefMut::deref_mut$", r"AsRef.*::as_ref$"]
    n = 0
    for b in crate.bodies:
        if "as TypeVisitor>::visit" not in b.path or "{closure" in b.path:
            continue
        closures = [c for c in crate.bodies if c.path.startswith(b.path + "::{closure")]
        n += 1
        extra = []
        for body in [b] + closures:
            for blk, t in body.calls():
                if body.is_cleanup(blk) or not t.get("fn"):
                    continue
                if fn_matches(t, r"Result::<T, E>::(is_ok|is_err)$") and "ExportError" in (t.get("arg_tys") or [""])[0]:
                    continue              # the error state kept as a Result: the same question as `error.is_some()`
                if not fn_matches(t, *ALLOWED):
                    _, _v, _slot = walker_roles(crate)
                    if _slot and any(slot_predicate(crate, hb, _slot, _vis_type(_v).split("::")[-1]) is not None for hb in crate.call_targets(body, t, ())):
                        continue          # a method of the visitor that only asks its error slot
                    extra.append((t["fn"]["path"], M.user_span(t["span"])))
        r.inst(visitor=b.path, other_calls=sorted({p for p, _ in extra}))
        if extra or closures:
            p, (f, l) = extra[0] if extra else (closures[0].path, (b.file(), b.line()))
            r.fail(prop, "visitor-extra-predicate %s" % re.sub(r"<|>|'_", "", b.path.split(" as ")[0])[-40:],
                   "%s consults %s: whether a dependency is exported / recorded now depends on more than `has it a file` (e.g. on its path being equal to the parent's, or on a name recorded earlier), so types sharing a file or a name are silently dropped" % (b.path, sorted({x for x, _ in extra}) or "a closure"),
                   f, l)
    if n < 2:
        r.fail(prop, "anchor-missing visitors", "expected two TypeVisitor::visit bodies, found %d" % n)
    r.floor = 2
    return r


def mkdir_origin_rule(crate, prop, rule="C11.R13"):
    """directories are created for the *normalised* path: the file system resolves `a/b/../c` physically (through symlinks, and
    by creating `a/b`), the library resolves it lexically"""
    r = Result(rule, "the argument of create_dir_all in export_to is the parent of the path that path::absolute returned, the same path that is handed to the writer: no directory is created from a path that still contains `..`")
    b = crate.body("export::export_to")
    if b is None:
        r.fail(prop, "anchor-missing export_to", "not found")
        return r
    mk = [(blk, t) for blk, t in b.calls() if not b.is_cleanup(blk) and fn_matches(t, r"fs::create_dir_all$")]
    if not mk:
        r.fail(prop, "anchor-missing create_dir_all", "export_to creates no directory", b.file(), b.line())
    for blk, t in mk:
        org = origins(b, op_local(t["args"][0]), identity=M.IDENTITY_CALLS + [r"Path::parent$", r"Option::<T>::unwrap$", r"Try::branch$", r"Result::<T, E>::(map_err|ok_or_else)$"])
        from_abs = any(o["kind"] == "call" and fn_matches(o["t"], r"export::path::absolute$") for o in org)
        raw = [o for o in org if o["kind"] == "arg"]
        f, l = M.user_span(t["span"])
        r.inst(fn=b.path, create_dir_all_argument_from=sorted({(M.callee(o["t"]) or "?") if o["kind"] == "call" else o["kind"] for o in org}), normalised=from_abs and not raw)
        if not from_abs or raw:
            r.fail(prop, "mkdir-unnormalised-path export::export_to",
                   "create_dir_all receives a path that did not go through path::absolute: with `#[ts(export_to = \"../api/\")]` it creates the directory the `..` starts from (a spurious empty directory), and through a symlinked base directory the physical and the lexical resolution name different places", f, l)
    r.floor = 1
    return r


def write_path_verbatim_rule(crate, prop, rule="C05.R15"):
    """from export_to_string() to the bytes on disk and back into merge(), text is moved, cut and joined - never rewritten"""
    r = Result(rule, "no function on the write path (export_to_string, export_to, export_and_merge, merge and their closures) calls a text-rewriting operation (replace, replacen, case conversion, repeat, escape_*) on what is written or read back; the single exception is generate_decl's blank-line elimination of T::decl() (C05.R13)")
    REWRITERS = r"str::<impl str>::(replace|replacen|to_lowercase|to_uppercase|to_ascii_lowercase|to_ascii_uppercase|repeat|escape_\w+)$|String::replace_range$"
    SCOPE = ("export::export_to_string", "export::export_to", "export::export_and_merge", "export::merge")
    n = 0
    for b in crate.bodies:
        p0 = re.sub(r"::\{closure#\d+\}", "", b.path)
        if p0 not in SCOPE:
            continue
        for blk, t in b.calls():
            if b.is_cleanup(blk) or not t.get("fn"):
                continue
            n += 1
            if fn_matches(t, REWRITERS):
                f, l = M.user_span(t["span"])
                r.fail(prop, "write-path-rewrites-text %s -> %s" % (p0, t["fn"]["path"].split("::")[-1]),
                       "%s in %s: text whose blank-line / comment guarantees were established where it was produced is altered on its way to or from the file (`\\r\\n\\r\\n` inside a doc comment becomes an empty line; a declaration read back differs from the one that was generated)" % (t["fn"]["path"], p0), f, l)
    r.inst(functions=list(SCOPE), calls_examined=n, rewriting_calls=len(r.findings))
    r.floor = 1
    return r
