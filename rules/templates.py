"""Engine A rules over the generator's quote! templates (crate ts_rs_macros): reference/dependency
pairing, selector agreement, payload routing, optional-marker guard, property-name quoting,
un-raw'ed identifiers, quoted sinks, generic-parameter emitters, naming precedence, doc handling."""
import re

from vlib.common import Result
from vlib import synlib as S

QUOTES = ("quote", "quote_spanned", "parse_quote")
EMIT = ("name", "inline", "inline_flattened")
DEP_FOR = {"name": "push", "inline": "append_from", "inline_flattened": "append_from"}


def templates(fn):
    for e in fn["events"]:
        if e["kind"] == "macro" and e["name"] in QUOTES:
            yield e


def dep_calls(fn):
    """mcalls push/append_from on a Dependencies receiver"""
    recvs = set()
    for p in fn["params"]:
        if "Dependencies" in p["ty"]:
            recvs.add(S.squash(p["name"]).replace("mut", "", 1) if S.squash(p["name"]).startswith("mut") else S.squash(p["name"]))
    for e in S.events(fn, "let"):
        if "Dependencies :: new" in e["init"]:
            recvs.add(S.squash(e["pat"]).replace("mut", "", 1))
    out = []
    for e in S.events(fn, "mcall"):
        if e["method"] in ("push", "append_from", "append") and S.squash(e["recv"]) in recvs:
            out.append(e)
    return out, recvs


def _argvar(a):
    a = S.squash(a)
    return a[1:] if a.startswith("&") else a


# ------------------------------------------------------------------ C03.R1

PAIRING_SCOPE = ("macros/src/types/", "macros/src/utils.rs")


def pairing_rule(syn, prop, rule="C03.R1"):
    r = Result(rule, "in every generator function, a template that refers to a type by `<#V as TS>::name()` is paired with `deps.push(&V)` and one that inlines it (`inline()`/`inline_flattened()`) with `deps.append_from(&V)` in the same function")
    for fn in syn.fns:
        if not fn["file"].startswith(PAIRING_SCOPE):
            continue
        deps, recvs = dep_calls(fn)
        have = {(e["method"], _argvar(e["args"][0])) for e in deps if e["args"]}
        for e in templates(fn):
            for v, m in S.ts_refs(e["tokens"]):
                if m not in EMIT or not v.startswith("#"):
                    continue
                var = v[1:]
                need = (DEP_FOR[m], var)
                ok = need in have
                r.inst(fn=fn["qual"], template="<%s as TS>::%s()" % (v, m), where="%s:%s" % (fn["file"], e["line"]), needs="%s(&%s)" % need, paired=ok)
                if not ok:
                    other = [h for h in have if h[1] == var]
                    r.fail(prop, "unpaired-reference %s %s::%s" % (fn["qual"], v, m),
                           "template emits <%s as TS>::%s() but the function never calls %s(&%s)%s: the binding would mention a type whose import/file is not produced (or import one it does not use)"
                           % (v, m, need[0], var, (" (it calls %s instead)" % other[0][0]) if other else ""), fn["file"], e["line"])
    r.floor = 11
    return r


def deps_record_rule(crate, prop, rule="C03.R5"):
    """MIR: Dependencies::push / append_from record their entries on every path."""
    from vlib import mirlib as M
    r = Result(rule, "Dependencies::push inserts Dependency::Type and Dependency::Generics, and append_from inserts Dependency::Transitive, on every path (no early return that skips recording, e.g. for an already interned type)")
    want = {"deps::Dependencies::push": ["Type", "Generics"], "deps::Dependencies::append_from": ["Transitive"]}
    for path, variants in want.items():
        b = crate.body(path)
        if b is None:
            r.fail(prop, "anchor-missing " + path, "function not found")
            continue
        for var in variants:
            # blocks that build the aggregate, and insert calls fed by it
            ins_blocks = set()
            for blk, t in b.calls():
                if b.is_cleanup(blk) or not M.fn_matches(t, r"collections::HashSet::<T, S(, A)?>::insert$"):
                    continue
                for o in M.origins(b, M.op_local(t["args"][1]), identity=[]):
                    if o["kind"] == "agg" and o["rv"].get("adt", "").endswith("deps::Dependency") and o["rv"].get("variant") == var:
                        ins_blocks.add(blk)
            ok = bool(ins_blocks) and b.all_paths_pass(0, ins_blocks, b.returns())
            r.inst(fn=path, records="Dependency::" + var, on_every_path=ok)
            if not ok:
                r.fail(prop, "dependency-not-recorded %s Dependency::%s" % (path, var),
                       "%s can return without inserting Dependency::%s: a type used by name after being inlined/flattened (or seen before) loses its import and its file" % (path, var),
                       b.file(), b.line())
    r.floor = 3
    return r


# ------------------------------------------------------------------ decision evaluator (C14.R3)

VARS = ("type_override", "flatten", "inline")


def _atom(expr):
    """map a squashed expression to ('var', polarity) if it is a test of one selector variable"""
    x = S.squash(expr)
    x = x.lstrip("&")
    m = re.match(r"^(!?)field_attr\.(flatten|inline)$", x)
    if m:
        return m.group(2), (m.group(1) == "")
    m = re.match(r"^letSome\(.*\)=&?field_attr\.type_override(\.as_ref\(\))?$", x)
    if m:
        return "type_override", True
    m = re.match(r"^(!?)field_attr\.type_override\.is_(some|none)\(\)$", x)
    if m:
        pol = (m.group(2) == "some")
        return "type_override", pol if m.group(1) == "" else (not pol)
    return None


def _cell_val(cell, var):
    v = cell[VARS.index(var)]
    return v


def _eval_cond(cond, cell):
    """True/False/None(unknown) of an `if` condition in a cell (cell = (type_override some?, flatten, inline) booleans)"""
    a = _atom(cond)
    if a is None:
        return None
    var, pol = a
    return _cell_val(cell, var) == pol


def _scrut_vars(scrut):
    el = S.tuple_elems(scrut)
    out = []
    for e in el:
        x = S.squash(e).lstrip("&")
        m = re.match(r"^field_attr\.(type_override|flatten|inline)(\.as_ref\(\))?$", x)
        out.append(m.group(1) if m else None)
    return out


def _arm_active(match_ev, arm_idx, cell):
    """does arm `arm_idx` of this match fire in `cell`? None if the match is not over selector vars"""
    vars_ = _scrut_vars(match_ev["scrut"])
    if not any(vars_):
        return None
    vals = []
    for v in vars_:
        if v is None:
            vals.append(None)
        elif v == "type_override":
            vals.append("some" if cell[0] else "none")
        else:
            vals.append("true" if _cell_val(cell, v) else "false")
    # first-match semantics with guards
    for idx, arm in enumerate(match_ev["arms"]):
        matches = False
        for alt in S.split_top(arm["pat"], "|"):
            elems = S.tuple_elems(alt)
            if len(elems) != len(vals):
                continue
            ok = True
            for pe, cv in zip(elems, vals):
                pc = S.pat_class(pe)
                if pc == "any" or cv is None:
                    continue
                if pc != cv:
                    ok = False
                    break
            if ok:
                matches = True
        if matches and arm.get("guard"):
            g = _eval_cond(arm["guard"], cell)
            if g is False:
                matches = False
        if matches:
            return idx == arm_idx
    return False


def _early_return_guards(fn):
    """`if c { ...; return ..; }` without else: (if_event, last_seq_inside)"""
    out = []
    evs = fn["events"]
    for e in evs:
        if e["kind"] != "if" or e.get("has_else"):
            continue
        depth = len(e["ctx"])
        inside = [x for x in evs if len(x["ctx"]) > depth and x["ctx"][:depth] == e["ctx"] and x["ctx"][depth].get("id") == e["id"]
                  and x["ctx"][depth]["k"] == "if" and x["ctx"][depth]["branch"] == "then"]
        rets = [x for x in inside if x["kind"] == "return" and len(x["ctx"]) == depth + 1]
        if rets:
            out.append((e, max(x["seq"] for x in inside)))
    return out


def active_in(fn, ev, cell, match_by_id, guards):
    for c in ev["ctx"]:
        if c["k"] == "if":
            v = _eval_cond(c["cond"], cell)
            if v is None:
                continue
            if (c["branch"] == "then") != v:
                return False
        elif c["k"] == "match":
            me = match_by_id.get(c["id"])
            if me is None:
                continue
            a = _arm_active(me, c["arm"], cell)
            if a is False:
                return False
    for g, last in guards:
        depth = len(g["ctx"])
        if ev["seq"] > last and ev["ctx"][:depth] == g["ctx"]:
            v = _eval_cond(g["cond"], cell)
            if v is True:
                return False
    return True


VALID_CELLS = {"named": [(True, False, False), (False, True, False), (False, False, True), (False, False, False)],
               "unnamed": [(True, False, False), (False, False, True), (False, False, False)]}
CELL_NAME = {(True, False, False): "type=..", (False, True, False): "flatten", (False, False, True): "inline", (False, False, False): "plain"}
EXPECT = {"type=..": ("literal", None), "flatten": ("inline_flattened", "append_from"), "inline": ("inline", "append_from"), "plain": ("name", "push")}


def selector_rule(syn, prop, rule="C14.R3"):
    r = Result(rule, "for each field formatter (named, tuple, newtype) and each valid (type override, flatten, inline) cell: the emitted form is literal / inline_flattened() / inline() / name() respectively, and the dependency operation active in the same cell is none / append_from / append_from / push on the same type variable (path-sensitive complement of C03.R1; siblings agree)")
    sites = [("types::named::format_field", "named.rs", "named"), ("types::tuple::format_field", "tuple.rs", "unnamed"), ("types::newtype::newtype", "newtype.rs", "unnamed")]
    for qual, fsuf, shape in sites:
        fn = syn.fn(qual, fsuf)
        if fn is None:
            r.fail(prop, "anchor-missing " + qual, "formatter not found")
            continue
        match_by_id = {e["id"]: e for e in S.events(fn, "match")}
        guards = _early_return_guards(fn)
        deps, _ = dep_calls(fn)
        for cell in VALID_CELLS[shape]:
            cname = CELL_NAME[cell]
            emis = set()
            for e in templates(fn):
                refs = [(v, m) for v, m in S.ts_refs(e["tokens"]) if m in EMIT and v.startswith("#")]
                if not active_in(fn, e, cell, match_by_id, guards):
                    continue
                for v, m in refs:
                    emis.add((m, v[1:]))
                if not refs:
                    # literal override template: interpolates the override string only
                    ints = S.interpolations(e["tokens"])
                    if any(i in ("type_override", "o") for i in ints) and any(c["k"] in ("arg", "let", "match", "if") for c in e["ctx"]):
                        emis.add(("literal", None))
            dops = {(d["method"], _argvar(d["args"][0])) for d in deps if d["args"] and active_in(fn, d, cell, match_by_id, guards)}
            want_em, want_dep = EXPECT[cname]
            em_kinds = {m for m, _ in emis}
            ok_em = em_kinds == {want_em}
            vars_em = {v for m, v in emis if v}
            if want_dep is None:
                ok_dep = not dops
            else:
                ok_dep = bool(dops) and all(d[0] == want_dep for d in dops) and {d[1] for d in dops} == vars_em
            r.inst(fn=qual, cell=cname, emits=sorted("%s(%s)" % (m, v) for m, v in emis), deps=sorted("%s(%s)" % d for d in dops), ok=ok_em and ok_dep)
            if not ok_em:
                r.fail(prop, "selector-emission %s [%s]" % (qual, cname), "for a `%s` field the formatter emits %s, expected %s" % (cname, sorted(em_kinds), want_em), fn["file"], fn["line"])
            if not ok_dep:
                r.fail(prop, "selector-dependency %s [%s]" % (qual, cname),
                       "for a `%s` field the formatter emits %s but records %s (expected %s on the same type)" % (cname, sorted(emis, key=str), sorted(dops), want_dep), fn["file"], fn["line"])
    r.floor = 10
    return r


# ------------------------------------------------------------------ C14.R1 / R2 / R4

def type_as_rule(syn, prop, rule="C14.R1"):
    r = Result(rule, "in the type formatters a field's raw `.ty` is read only as the argument of FieldAttr::type_as (so `#[ts(as = ..)]` is honoured wherever a field type is used)")
    for fn in syn.fns:
        if not fn["file"].startswith("macros/src/types/"):
            continue
        for e in S.events(fn, "field"):
            if e["member"] != "ty":
                continue
            ok = any(c["k"] == "arg" and S.squash(c["of"]).endswith(".type_as") for c in e["ctx"])
            r.inst(fn=fn["qual"], read=S.squash(e["base"]) + ".ty", where="%s:%s" % (fn["file"], e["line"]), through_type_as=ok)
            if not ok:
                r.fail(prop, "raw-field-type %s" % fn["qual"], "`%s.ty` is used without going through field_attr.type_as(..): `#[ts(as = \"..\")]` on that field would be ignored here" % S.squash(e["base"]),
                       fn["file"], e["line"])
    r.floor = 3
    return r


def payload_rule(syn, prop, rule="C14.R2"):
    r = Result(rule, "in format_variant every representation arm interpolates only the tag, the content key, the variant name and the payload resolved from the variant attributes (`parsed_ty`); no arm re-derives the payload from the field")
    fn = syn.fn("types::enum::format_variant", "enum.rs")
    if fn is None:
        r.fail(prop, "anchor-missing format_variant", "not found")
        return r
    lets = [e for e in S.events(fn, "let") if S.squash(e["pat"]) == "formatted"]
    if not lets:
        r.fail(prop, "anchor-missing format_variant.formatted", "no `let formatted = match ..`", fn["file"], fn["line"])
        return r
    lid = lets[0]["id"]
    # the payload variable: the `let` whose init matches on (variant_attr.type_as, variant_attr.type_override)
    pv = [e for e in S.events(fn, "let") if "variant_attr . type_as" in e["init"] and "variant_attr . type_override" in e["init"] and e["init"].lstrip().startswith("match")]
    if not pv:
        r.fail(prop, "anchor-missing variant payload", "no value computed from (variant_attr.type_as, variant_attr.type_override)", fn["file"], fn["line"])
        return r
    payload = S.squash(pv[0]["pat"])
    allowed = {"tag", "content", "ts_name", payload}
    n = 0
    for e in templates(fn):
        if not any(c["k"] == "let" and c["id"] == lid for c in e["ctx"]):
            continue
        ints = set(S.interpolations(e["tokens"]))
        extra = ints - allowed
        has_payload = payload in ints
        n += has_payload
        r.inst(fn=fn["qual"], where="%s:%s" % (fn["file"], e["line"]), interpolates=sorted(ints), payload=has_payload)
        if extra:
            r.fail(prop, "payload-bypasses-variant-override format_variant #%s" % "+#".join(sorted(extra)),
                   "a representation arm interpolates %s instead of the payload resolved from the variant attributes (#%s): variant-level #[ts(as/type)] and field-level inline would be ignored in this arm" % (sorted(extra), payload),
                   fn["file"], e["line"])
    if n < 8:
        r.fail(prop, "payload-arms %d" % n, "only %d representation arms interpolate the payload (8 confirmed)" % n, fn["file"], fn["line"])
    r.floor = 13
    return r


def _fn_groups(tokens):
    """in a template: {fn name: brace group tokens}"""
    out = {}
    for toks in S.walk_groups(tokens):
        for i, t in enumerate(toks):
            if t == "fn" and i + 1 < len(toks) and isinstance(toks[i + 1], str):
                for j in range(i + 2, min(i + 12, len(toks))):
                    if isinstance(toks[j], dict) and toks[j]["d"] == "{":
                        out[toks[i + 1]] = toks[j]["ts"]
                        break
    return out


def decl_rule(syn, prop, rule="C07.R2"):
    r = Result(rule, "decl_concrete() is `type N = <Self as TS>::inline()`; decl() instantiates the item at the placeholder types (never through Self) and renders its generic header inside the scope of those placeholders")
    fn = syn.fn("DerivedTS::generate_decl_fn", "macros/src/lib.rs")
    if fn is None:
        r.fail(prop, "anchor-missing generate_decl_fn", "not found")
        return r
    done = False
    for e in templates(fn):
        g = _fn_groups(e["tokens"])
        if "decl" not in g or "decl_concrete" not in g:
            continue
        done = True
        rc = S.ts_refs(g["decl_concrete"])
        ok_c = ("Self", "inline") in rc
        r.inst(template="fn decl_concrete", refs=rc, ok=ok_c)
        if not ok_c:
            r.fail(prop, "decl_concrete-shape", "decl_concrete() does not take <Self as TS>::inline()", fn["file"], e["line"])
        rd = S.ts_refs(g["decl"])
        self_refs = [x for x in rd if x[0] == "Self" and x[1] in EMIT]
        inst = [x for x in rd if x[0].startswith("#rust_ty<") and x[1] == "inline"]
        r.inst(template="fn decl", refs=rd, through_self=bool(self_refs), instantiated_at_placeholders=bool(inst))
        if self_refs:
            r.fail(prop, "decl-through-Self", "decl() uses <Self as TS>::%s(): the declaration would depend on the type arguments" % self_refs[0][1], fn["file"], e["line"])
        if not inst:
            r.fail(prop, "decl-not-reinstantiated", "decl() does not re-instantiate the item at the placeholder parameters", fn["file"], e["line"])
        # scope: #generic_types, #ts_generics and the inline() call in one block, placeholders first
        def depth_of(tokens, pred, d=0):
            res = []
            for i, t in enumerate(tokens):
                if isinstance(t, dict):
                    res += depth_of(t["ts"], pred, d + 1 if t["d"] == "{" else d)
                elif pred(tokens, i):
                    res.append(d)
            return res
        d_gt = depth_of(g["decl"], lambda ts, i: ts[i] == "#" and i + 1 < len(ts) and ts[i + 1] == "generic_types")
        d_tg = depth_of(g["decl"], lambda ts, i: ts[i] == "#" and i + 1 < len(ts) and ts[i + 1] == "ts_generics")
        d_in = depth_of(g["decl"], lambda ts, i: ts[i] == "#" and i + 1 < len(ts) and ts[i + 1] == "rust_ty")
        ok_scope = bool(d_gt) and bool(d_tg) and bool(d_in) and min(d_tg) >= min(d_gt) and min(d_in) >= min(d_gt)
        r.inst(template="fn decl", placeholder_scope_depth=d_gt, header_depth=d_tg, instantiation_depth=d_in, ok=ok_scope)
        if not ok_scope:
            r.fail(prop, "decl-placeholder-scope", "in decl() the generic header (#ts_generics) or the instantiation is outside the block that defines the placeholder types (#generic_types): defaults that mention a parameter would resolve to the real argument",
                   fn["file"], e["line"])
    if not done:
        r.fail(prop, "anchor-missing decl template", "no template defining fn decl / fn decl_concrete", fn["file"], fn["line"])
    r.floor = 3
    return r


# ------------------------------------------------------------------ C07.R1

def generics_rule(syn, prop, rule="C07.R1"):
    r = Result(rule, "all emitters of the item's type parameters iterate the parameter list in source order; the list/visit emitters drop `concrete` parameters (contains_key filter) and the instantiating emitters replace them by the concrete type (get → None/Some arms); concrete maps of several #[ts] attributes are unioned")
    droppers = [("DerivedTS::name_with_generics", "macros/src/lib.rs"), ("DerivedTS::generate_generic_types", "macros/src/lib.rs"),
                ("DerivedTS::generate_generics_fn", "macros/src/lib.rs"), ("utils::format_generics", "macros/src/utils.rs")]
    replacers = [("DerivedTS::generate_decl_fn", "macros/src/lib.rs"), ("generate_assoc_type", "macros/src/lib.rs"), ("DerivedTS::generate_export_test", "macros/src/lib.rs")]
    for qual, f in droppers + replacers:
        fn = syn.fn(qual, f)
        if fn is None:
            r.fail(prop, "anchor-missing " + qual, "emitter not found")
            continue
        src = [e for e in S.events(fn, "mcall") if (e["method"] == "type_params" and S.squash(e["recv"]) == "generics") or
               (e["method"] == "iter" and S.squash(e["recv"]) == "generics.params")]
        hashy = [e for e in S.events(fn, "mcall") if e["method"] == "collect" and e.get("turbofish") and re.search(r"Hash(Map|Set)", e["turbofish"])]
        ck = [e for e in S.events(fn, "mcall") if e["method"] == "contains_key" and "concrete" in e["recv"]]
        gt = [e for e in S.events(fn, "mcall") if e["method"] == "get" and "concrete" in e["recv"]]
        is_drop = (qual, f) in droppers
        ok = bool(src) and not hashy
        if is_drop:
            # contains_key must be negated inside a filter, or lead to `return None`
            neg = False
            for e in ck:
                in_filter = any(c["k"] == "arg" and c["of"].endswith(".filter") for c in e["ctx"])
                unary = any(u["op"] == "!" and "contains_key" in u["expr"] for u in S.events(fn, "unary"))
                cond_ret = any(i for i in S.events(fn, "if") if "contains_key" in i["cond"])
                if (in_filter and unary) or cond_ret:
                    neg = True
            ok = ok and neg
            treat = "drops concrete params" if neg else "NO concrete filter"
        else:
            arms_ok = False
            for m in S.events(fn, "match"):
                if "concrete . get" in m["scrut"] or (S.squash(m["scrut"]).endswith(".concrete.get(ident)")):
                    pats = [S.pat_class(a["pat"]) for a in m["arms"]]
                    if "none" in pats and "some" in pats:
                        some_arm = [a for a in m["arms"] if S.pat_class(a["pat"]) == "some"][0]
                        bound = re.search(r"Some \((\w+)\)", some_arm["pat"])
                        if bound and re.search(r"# ?%s\b" % bound.group(1), some_arm["body"]):
                            arms_ok = True
            ok = ok and bool(gt) and arms_ok
            treat = "replaces concrete params" if arms_ok else "NO concrete replacement"
        r.inst(fn=qual, source=[S.squash(e["recv"]) + "." + e["method"] for e in src], treatment=treat, ok=ok)
        if not ok:
            r.fail(prop, "generic-emitter %s" % qual,
                   "%s does not treat the parameter list like its siblings (source %s, %s): the declared parameters, the referenced arguments and the visited generics would disagree"
                   % (qual, [S.squash(e["recv"]) + "." + e["method"] for e in src] or "not found", treat), fn["file"], fn["line"])
    for x, f in (("StructAttr", "attr/struct.rs"), ("EnumAttr", "attr/enum.rs")):
        fn = syn.fn("<%s as Attr>::merge" % x, f)
        st = [e for e in S.events(fn, "struct") if S.squash(e["path"]) == "Self"] if fn else []
        val = None
        for fld in (st[0]["fields"] if st else []):
            if fld["name"] == "concrete":
                val = S.squash(fld["value"])
        ok = val is not None and "self.concrete" in val and "other.concrete" in val and re.search(r"\.(chain|extend)\(", val) and not re.match(r"^(if|match)\b", val)
        r.inst(fn="%s::merge" % x, field="concrete", value=val, unioned=bool(ok))
        if not ok:
            r.fail(prop, "concrete-not-unioned %s::merge" % x, "`concrete` of several #[ts(..)] attributes is not the union of both maps (%s): parameters named in a later attribute would stay generic" % val,
                   fn["file"] if fn else None, fn["line"] if fn else None)
    r.floor = 9
    return r


# ------------------------------------------------------------------ C02.R1 (template part)

def optional_marker_rule(syn, prop, rule="C02.R1a"):
    r = Result(rule, "every template that can emit the optional marker `?` either instantiates a function bounded by IsOption on PhantomData<#ty> (compile-time check) or sits in the then-branch of `if <#ty as TS>::IS_OPTION`")
    for fn in syn.fns_in("macros/src"):
        for e in templates(fn):
            fl = S.flat(e["tokens"])
            if '"?"' not in fl:
                continue
            txt = " ".join(fl)
            guard1 = bool(re.search(r"< T : # crate_rename :: IsOption >", txt)) and bool(re.search(r"PhantomData < # (\w+) >", txt)) and "check_that_field_is_option ( x )" in txt.replace("  ", " ")
            m = re.search(r'if < # (\w+) as # crate_rename :: TS > :: IS_OPTION \{ "\?" \} else \{ "" \}', txt)
            guard2 = bool(m)
            r.inst(fn=fn["qual"], where="%s:%s" % (fn["file"], e["line"]), guard="IsOption bound" if guard1 else ("IS_OPTION test" if guard2 else None))
            if not (guard1 or guard2):
                r.fail(prop, "unguarded-optional-marker %s" % fn["qual"], "a template emits \"?\" without the IsOption bound / IS_OPTION test: a required field could be declared optional", fn["file"], e["line"])
    r.floor = 2
    return r


def is_option_impl_rule(syn, crate, prop, rule="C02.R1b"):
    r = Result(rule, "IsOption is implemented only for Option<T>; IS_OPTION is overridden only by `impl TS for Option<T>` (= true); the wrapper/shadow macros do not forward it")
    impls = [im for im in crate.impls if (im.get("trait") or "").split("::")[-1] == "IsOption"]
    for im in impls:
        ok = re.match(r"^std::option::Option<\w+>$", im["self_ty"]) is not None
        r.inst(impl="IsOption for " + im["self_ty"], ok=ok)
        if not ok:
            r.fail(prop, "IsOption-impl %s" % im["self_ty"], "IsOption implemented for %s: #[ts(optional)] would be accepted on a non-Option field" % im["self_ty"], im["span"]["file"], im["span"]["line"])
    if not impls:
        r.fail(prop, "anchor-missing IsOption impl", "no impl of IsOption found")
    n = 0
    for it in syn.items:
        if it["kind"] == "impl" and (it["trait"] or "").endswith("TS"):
            for a in it["assoc"]:
                if a["name"] == "IS_OPTION":
                    n += 1
                    ok = S.squash(it["self_ty"]) == "Option<T>" and S.squash(a["value"]) == "true"
                    r.inst(impl="TS for " + it["self_ty"], IS_OPTION=a["value"], ok=ok)
                    if not ok:
                        r.fail(prop, "IS_OPTION-override %s" % S.squash(it["self_ty"]), "IS_OPTION overridden by impl TS for %s" % it["self_ty"], it["file"], it["line"])
    if n == 0:
        r.fail(prop, "anchor-missing IS_OPTION", "Option<T> does not set IS_OPTION = true")
    for m in syn.item_macros:
        if m["name"] == "macro_rules" and m.get("ident") in ("impl_wrapper", "impl_shadow", "impl_primitives", "impl_tuples"):
            has = "IS_OPTION" in S.flat(m["tokens"])
            r.inst(macro=m["ident"], forwards_IS_OPTION=has)
            if has:
                r.fail(prop, "IS_OPTION-forwarded %s" % m["ident"], "%s! forwards IS_OPTION: a wrapper around Option would be treated as Option while its OptionInnerType is Self" % m["ident"], m["file"], m["line"])
    r.floor = 5
    return r
