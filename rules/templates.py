"""Engine A rules over the generator's quote! templates (crate ts_rs_macros): reference/dependency
pairing, selector agreement, payload routing, optional-marker guard, property-name quoting,
un-raw'ed identifiers, quoted sinks, generic-parameter emitters, naming precedence, doc handling."""
import json
import re

from vlib.common import Result
from vlib import synlib as S

QUOTES = ("quote", "quote_spanned", "parse_quote")
EMIT = ("name", "inline", "inline_flattened")
DEP_FOR = {"name": "push", "inline": "append_from", "inline_flattened": "append_from"}


def templates(fn):
    for e in fn["events"]:
        if e["kind"] == "macro" and e["name"] in QUOTES:
            yield e


def dep_calls(fn):
    """mcalls push/append_from on a Dependencies receiver"""
    recvs = set()
    for p in fn["params"]:
        if "Dependencies" in p["ty"]:
            recvs.add(S.squash(p["name"]).replace("mut", "", 1) if S.squash(p["name"]).startswith("mut") else S.squash(p["name"]))
    for e in S.events(fn, "let"):
        if "Dependencies :: new" in e["init"]:
            recvs.add(S.squash(e["pat"]).replace("mut", "", 1))
    out = []
    for e in S.events(fn, "mcall"):
        if e["method"] in ("push", "append_from", "append") and S.squash(e["recv"]) in recvs:
            out.append(e)
    return out, recvs


def _argvar(a):
    a = S.squash(a)
    return a[1:] if a.startswith("&") else a


# ------------------------------------------------------------------ C03.R1

PAIRING_SCOPE = ("macros/src/types/", "macros/src/utils.rs")


def pairing_rule(syn, prop, rule="C03.R1"):
    r = Result(rule, "in every generator function, a template that refers to a type by `<#V as TS>::name()` is paired with `deps.push(&V)` and one that inlines it (`inline()`/`inline_flattened()`) with `deps.append_from(&V)` in the same function")
    for fn in syn.fns:
        if not fn["file"].startswith(PAIRING_SCOPE):
            continue
        deps, recvs = dep_calls(fn)
        have = {(e["method"], _argvar(e["args"][0])) for e in deps if e["args"]}
        for e in templates(fn):
            for v, m in S.ts_refs(e["tokens"]):
                if m not in EMIT or not v.startswith("#"):
                    continue
                var = v[1:]
                need = (DEP_FOR[m], var)
                ok = need in have
                r.inst(fn=fn["qual"], template="<%s as TS>::%s()" % (v, m), where="%s:%s" % (fn["file"], e["line"]), needs="%s(&%s)" % need, paired=ok)
                if not ok:
                    other = [h for h in have if h[1] == var]
                    r.fail(prop, "unpaired-reference %s %s::%s" % (fn["qual"], v, m),
                           "template emits <%s as TS>::%s() but the function never calls %s(&%s)%s: the binding would mention a type whose import/file is not produced (or import one it does not use)"
                           % (v, m, need[0], var, (" (it calls %s instead)" % other[0][0]) if other else ""), fn["file"], e["line"])
    r.floor = 11
    return r


def deps_record_rule(crate, prop, rule="C03.R5"):
    """MIR: Dependencies::push / append_from record their entries on every path."""
    from vlib import mirlib as M
    r = Result(rule, "Dependencies::push inserts Dependency::Type and Dependency::Generics, and append_from inserts Dependency::Transitive, on every path (no early return that skips recording, e.g. for an already interned type)")
    want = {"deps::Dependencies::push": ["Type", "Generics"], "deps::Dependencies::append_from": ["Transitive"]}
    for path, variants in want.items():
        b = crate.ibody(path)
        if b is None:
            r.fail(prop, "anchor-missing " + path, "function not found")
            continue
        for var in variants:
            # blocks that build the aggregate, and insert calls fed by it
            ins_blocks = set()
            for blk, t in b.calls():
                if b.is_cleanup(blk) or not M.fn_matches(t, r"collections::HashSet::<T, S(, A)?>::insert$"):
                    continue
                for o in M.origins(b, M.op_local(t["args"][1]), identity=[]):
                    if o["kind"] == "agg" and o["rv"].get("adt", "").endswith("deps::Dependency") and o["rv"].get("variant") == var:
                        ins_blocks.add(blk)
            ok = bool(ins_blocks) and b.all_paths_pass(0, ins_blocks, b.returns())
            r.inst(fn=path, records="Dependency::" + var, on_every_path=ok)
            if not ins_blocks and not any(st["k"] == "assign" and st["rv"]["k"] == "agg" and (st["rv"].get("adt") or "").endswith("deps::Dependency") and st["rv"].get("variant") == var
                                          for bx in crate.bodies for blk in range(bx.n) for st in bx.stmts(blk)):
                # the kinds of entry are no longer the variants Type / Generics / Transitive: what is recorded is not read
                r.fail(prop, "anchor-missing Dependency::%s" % var, "no value `Dependency::%s` is built anywhere: the entries are represented another way" % var, b.file(), b.line())
                continue
            if not ok:
                r.fail(prop, "dependency-not-recorded %s Dependency::%s" % (path, var),
                       "%s can return without inserting Dependency::%s: a type used by name after being inlined/flattened (or seen before) loses its import and its file" % (path, var),
                       b.file(), b.line())
    r.floor = 3
    return r


# ------------------------------------------------------------------ decision evaluator (C14.R3)

VARS = ("type_override", "flatten", "inline")


def _atom(expr):
    """map a squashed expression to ('var', polarity) if it is a test of one selector variable"""
    x = S.squash(expr)
    x = x.lstrip("&")
    m = re.match(r"^(!?)field_attr\.(flatten|inline)$", x)
    if m:
        return m.group(2), (m.group(1) == "")
    m = re.match(r"^letSome\(.*\)=&?field_attr\.type_override(\.as_ref\(\))?$", x)
    if m:
        return "type_override", True
    m = re.match(r"^(!?)field_attr\.type_override\.is_(some|none)\(\)$", x)
    if m:
        pol = (m.group(2) == "some")
        return "type_override", pol if m.group(1) == "" else (not pol)
    return None


def _cell_val(cell, var):
    v = cell[VARS.index(var)]
    return v


def _eval_cond(cond, cell):
    """True/False/None(unknown) of an `if` condition in a cell (cell = (type_override some?, flatten, inline) booleans)"""
    a = _atom(cond)
    if a is None:
        return None
    var, pol = a
    return _cell_val(cell, var) == pol


def _scrut_vars(scrut):
    el = S.tuple_elems(scrut)
    out = []
    for e in el:
        x = S.squash(e).lstrip("&")
        m = re.match(r"^field_attr\.(type_override|flatten|inline)(\.as_ref\(\))?$", x)
        out.append(m.group(1) if m else None)
    return out


def _arm_active(match_ev, arm_idx, cell):
    """does arm `arm_idx` of this match fire in `cell`? None if the match is not over selector vars"""
    vars_ = _scrut_vars(match_ev["scrut"])
    if not any(vars_):
        return None
    vals = []
    for v in vars_:
        if v is None:
            vals.append(None)
        elif v == "type_override":
            vals.append("some" if cell[0] else "none")
        else:
            vals.append("true" if _cell_val(cell, v) else "false")
    # first-match semantics with guards
    for idx, arm in enumerate(match_ev["arms"]):
        matches = False
        for alt in S.split_top(arm["pat"], "|"):
            elems = S.tuple_elems(alt)
            if len(elems) != len(vals):
                continue
            ok = True
            for pe, cv in zip(elems, vals):
                pc = S.pat_class(pe)
                if pc == "any" or cv is None:
                    continue
                if pc != cv:
                    ok = False
                    break
            if ok:
                matches = True
        if matches and arm.get("guard"):
            g = _eval_cond(arm["guard"], cell)
            if g is False:
                matches = False
        if matches:
            return idx == arm_idx
    return False


def _early_return_guards(fn):
    """`if c { ...; return ..; }` without else: (if_event, last_seq_inside)"""
    out = []
    evs = fn["events"]
    for e in evs:
        if e["kind"] != "if" or e.get("has_else"):
            continue
        depth = len(e["ctx"])
        inside = [x for x in evs if len(x["ctx"]) > depth and x["ctx"][:depth] == e["ctx"] and x["ctx"][depth].get("id") == e["id"]
                  and x["ctx"][depth]["k"] == "if" and x["ctx"][depth]["branch"] == "then"]
        rets = [x for x in inside if x["kind"] == "return" and len(x["ctx"]) == depth + 1]
        if rets:
            out.append((e, max(x["seq"] for x in inside)))
    return out


def active_in(fn, ev, cell, match_by_id, guards):
    for c in ev["ctx"]:
        if c["k"] == "if":
            v = _eval_cond(c["cond"], cell)
            if v is None:
                continue
            if (c["branch"] == "then") != v:
                return False
        elif c["k"] == "match":
            me = match_by_id.get(c["id"])
            if me is None:
                continue
            a = _arm_active(me, c["arm"], cell)
            if a is False:
                return False
    for g, last in guards:
        depth = len(g["ctx"])
        if ev["seq"] > last and ev["ctx"][:depth] == g["ctx"]:
            v = _eval_cond(g["cond"], cell)
            if v is True:
                return False
    return True


VALID_CELLS = {"named": [(True, False, False), (False, True, False), (False, False, True), (False, False, False)],
               "unnamed": [(True, False, False), (False, False, True), (False, False, False)]}
CELL_NAME = {(True, False, False): "type=..", (False, True, False): "flatten", (False, False, True): "inline", (False, False, False): "plain"}
EXPECT = {"type=..": ("literal", None), "flatten": ("inline_flattened", "append_from"), "inline": ("inline", "append_from"), "plain": ("name", "push")}


def selector_rule(syn, prop, rule="C14.R3"):
    r = Result(rule, "for each field formatter (named, tuple, newtype) and each valid (type override, flatten, inline) cell: the emitted form is literal / inline_flattened() / inline() / name() respectively, and the dependency operation active in the same cell is none / append_from / append_from / push on the same type variable (path-sensitive complement of C03.R1; siblings agree)")
    sites = [("types::named::format_field", "named.rs", "named"), ("types::tuple::format_field", "tuple.rs", "unnamed"), ("types::newtype::newtype", "newtype.rs", "unnamed")]
    for qual, fsuf, shape in sites:
        fn = syn.fn(qual, fsuf)
        if fn is None:
            r.fail(prop, "anchor-missing " + qual, "formatter not found")
            continue
        match_by_id = {e["id"]: e for e in S.events(fn, "match")}
        guards = _early_return_guards(fn)
        deps, _ = dep_calls(fn)
        for cell in VALID_CELLS[shape]:
            cname = CELL_NAME[cell]
            emis = set()
            for e in templates(fn):
                refs = [(v, m) for v, m in S.ts_refs(e["tokens"]) if m in EMIT and v.startswith("#")]
                if not active_in(fn, e, cell, match_by_id, guards):
                    continue
                for v, m in refs:
                    emis.add((m, v[1:]))
                if not refs:
                    # literal override template: interpolates the override string only
                    ints = S.interpolations(e["tokens"])
                    if any(i in ("type_override", "o") for i in ints) and any(c["k"] in ("arg", "let", "match", "if") for c in e["ctx"]):
                        emis.add(("literal", None))
            dops = {(d["method"], _argvar(d["args"][0])) for d in deps if d["args"] and active_in(fn, d, cell, match_by_id, guards)}
            want_em, want_dep = EXPECT[cname]
            em_kinds = {m for m, _ in emis}
            ok_em = em_kinds == {want_em}
            vars_em = {v for m, v in emis if v}
            if want_dep is None:
                ok_dep = not dops
            else:
                ok_dep = bool(dops) and all(d[0] == want_dep for d in dops) and {d[1] for d in dops} == vars_em
            r.inst(fn=qual, cell=cname, emits=sorted("%s(%s)" % (m, v) for m, v in emis), deps=sorted("%s(%s)" % d for d in dops), ok=ok_em and ok_dep)
            if not ok_em:
                r.fail(prop, "selector-emission %s [%s]" % (qual, cname), "for a `%s` field the formatter emits %s, expected %s" % (cname, sorted(em_kinds), want_em), fn["file"], fn["line"])
            if not ok_dep:
                r.fail(prop, "selector-dependency %s [%s]" % (qual, cname),
                       "for a `%s` field the formatter emits %s but records %s (expected %s on the same type)" % (cname, sorted(emis, key=str), sorted(dops), want_dep), fn["file"], fn["line"])
    r.floor = 10
    return r


# ------------------------------------------------------------------ C14.R1 / R2 / R4

def type_as_rule(syn, prop, rule="C14.R1"):
    r = Result(rule, "in the type formatters a field's raw `.ty` is read only as the argument of FieldAttr::type_as (so `#[ts(as = ..)]` is honoured wherever a field type is used)")
    for fn in syn.fns:
        if not fn["file"].startswith("macros/src/types/"):
            continue
        for e in S.events(fn, "field"):
            if e["member"] != "ty":
                continue
            ok = any(c["k"] == "arg" and S.squash(c["of"]).endswith(".type_as") for c in e["ctx"])
            r.inst(fn=fn["qual"], read=S.squash(e["base"]) + ".ty", where="%s:%s" % (fn["file"], e["line"]), through_type_as=ok)
            if not ok:
                r.fail(prop, "raw-field-type %s" % fn["qual"], "`%s.ty` is used without going through field_attr.type_as(..): `#[ts(as = \"..\")]` on that field would be ignored here" % S.squash(e["base"]),
                       fn["file"], e["line"])
    r.floor = 3
    return r


def payload_rule(syn, prop, rule="C14.R2"):
    r = Result(rule, "in format_variant every representation arm interpolates only the tag, the content key, the variant name and the payload resolved from the variant attributes (`parsed_ty`); no arm re-derives the payload from the field")
    fn = syn.fn("types::enum::format_variant", "enum.rs")
    if fn is None:
        r.fail(prop, "anchor-missing format_variant", "not found")
        return r
    lets = [e for e in S.events(fn, "let") if S.squash(e["pat"]) == "formatted"]
    if not lets:
        r.fail(prop, "anchor-missing format_variant.formatted", "no `let formatted = match ..`", fn["file"], fn["line"])
        return r
    lid = lets[0]["id"]
    # the payload variable: the `let` whose init matches on (variant_attr.type_as, variant_attr.type_override)
    pv = [e for e in S.events(fn, "let") if "variant_attr . type_as" in e["init"] and "variant_attr . type_override" in e["init"] and e["init"].lstrip().startswith("match")]
    if not pv:
        r.fail(prop, "anchor-missing variant payload", "no value computed from (variant_attr.type_as, variant_attr.type_override)", fn["file"], fn["line"])
        return r
    payload = S.squash(pv[0]["pat"])
    allowed = {"tag", "content", "ts_name", payload}
    n = 0
    for e in templates(fn):
        if not any(c["k"] == "let" and c["id"] == lid for c in e["ctx"]):
            continue
        ints = set(S.interpolations(S.strip_wrappers(e["tokens"])))
        extra = ints - allowed
        has_payload = payload in ints
        n += has_payload
        r.inst(fn=fn["qual"], where="%s:%s" % (fn["file"], e["line"]), interpolates=sorted(ints), payload=has_payload)
        if extra:
            r.fail(prop, "payload-bypasses-variant-override format_variant #%s" % "+#".join(sorted(extra)),
                   "a representation arm interpolates %s instead of the payload resolved from the variant attributes (#%s): variant-level #[ts(as/type)] and field-level inline would be ignored in this arm" % (sorted(extra), payload),
                   fn["file"], e["line"])
    if n < 8:
        r.fail(prop, "payload-arms %d" % n, "only %d representation arms interpolate the payload (8 confirmed)" % n, fn["file"], fn["line"])
    r.floor = 13
    return r


def _fn_groups(tokens):
    """in a template: {fn name: brace group tokens}"""
    out = {}
    for toks in S.walk_groups(tokens):
        for i, t in enumerate(toks):
            if t == "fn" and i + 1 < len(toks) and isinstance(toks[i + 1], str):
                for j in range(i + 2, min(i + 12, len(toks))):
                    if isinstance(toks[j], dict) and toks[j]["d"] == "{":
                        out[toks[i + 1]] = toks[j]["ts"]
                        break
    return out


def decl_rule(syn, prop, rule="C07.R2", crate=None):
    r = Result(rule, "decl_concrete() is `type N = <Self as TS>::inline()`; decl() instantiates the item at the placeholder types (never through Self) and renders its generic header inside the scope of those placeholders")
    fn = syn.fn("DerivedTS::generate_decl_fn", "macros/src/lib.rs")
    if fn is None:
        r.fail(prop, "anchor-missing generate_decl_fn", "not found")
        return r
    done = False
    evs = list(templates(fn))
    if crate is not None and not any("decl" in _fn_groups(e["tokens"]) and "decl_concrete" in _fn_groups(e["tokens"]) for e in evs):
        # the template was assembled from parts: read it from the MIR, parts spliced in, and call the interpolated values by
        # what they are (the result of generate_generic_types / format_generics, the item's identifier)
        from vlib import quotelib as Q2, mirlib as M2
        ib = crate.ibody("DerivedTS::generate_decl_fn")
        if ib is not None:
            tpls = Q2.templates(ib)

            def canon(nm, loc, ty):
                if loc is None:
                    return None
                org = M2.origins(ib, loc, stop=[r"generate_generic_types$", r"utils::format_generics$"])
                if any(o["kind"] == "call" and M2.fn_matches(o["t"], r"generate_generic_types$") for o in org):
                    return "generic_types"
                if any(o["kind"] == "call" and M2.fn_matches(o["t"], r"utils::format_generics$") for o in org):
                    return "ts_generics"
                if "syn::Ident" in (ty or "") and all(o["kind"] == "arg" for o in org) and org:
                    return "rust_ty"
                return None
            for t in tpls:
                if re.search(r"generate_generic_types$", ib.blocks[t.block].get("inl") or ""):
                    continue        # the placeholder types have a decl() of their own; they are examined below
                ex = Q2.expanded(ib, t, tpls, rename=canon)
                if "decl" in _fn_groups(ex) and "decl_concrete" in _fn_groups(ex):
                    evs.append({"tokens": ex, "line": t.line, "ctx": [], "seq": 0})
    for e in evs:
        g = _fn_groups(e["tokens"])
        if "decl" not in g or "decl_concrete" not in g:
            continue
        done = True
        rc = S.ts_refs(g["decl_concrete"])
        ok_c = ("Self", "inline") in rc
        r.inst(template="fn decl_concrete", refs=rc, ok=ok_c)
        if not ok_c:
            r.fail(prop, "decl_concrete-shape", "decl_concrete() does not take <Self as TS>::inline()", fn["file"], e["line"])
        rd = S.ts_refs(g["decl"])
        self_refs = [x for x in rd if x[0] == "Self" and x[1] in EMIT]
        inst = [x for x in rd if x[0].startswith("#rust_ty<") and x[1] == "inline"]
        r.inst(template="fn decl", refs=rd, through_self=bool(self_refs), instantiated_at_placeholders=bool(inst))
        if self_refs:
            r.fail(prop, "decl-through-Self", "decl() uses <Self as TS>::%s(): the declaration would depend on the type arguments" % self_refs[0][1], fn["file"], e["line"])
        if not inst:
            r.fail(prop, "decl-not-reinstantiated", "decl() does not re-instantiate the item at the placeholder parameters", fn["file"], e["line"])
        # scope: #generic_types, #ts_generics and the inline() call in one block, placeholders first
        def depth_of(tokens, pred, d=0):
            res = []
            for i, t in enumerate(tokens):
                if isinstance(t, dict):
                    res += depth_of(t["ts"], pred, d + 1 if t["d"] == "{" else d)
                elif pred(tokens, i):
                    res.append(d)
            return res
        d_gt = depth_of(g["decl"], lambda ts, i: ts[i] == "#" and i + 1 < len(ts) and ts[i + 1] == "generic_types")
        d_tg = depth_of(g["decl"], lambda ts, i: ts[i] == "#" and i + 1 < len(ts) and ts[i + 1] == "ts_generics")
        d_in = depth_of(g["decl"], lambda ts, i: ts[i] == "#" and i + 1 < len(ts) and ts[i + 1] == "rust_ty")
        ok_scope = bool(d_gt) and bool(d_tg) and bool(d_in) and min(d_tg) >= min(d_gt) and min(d_in) >= min(d_gt)
        r.inst(template="fn decl", placeholder_scope_depth=d_gt, header_depth=d_tg, instantiation_depth=d_in, ok=ok_scope)
        if not ok_scope:
            r.fail(prop, "decl-placeholder-scope", "in decl() the generic header (#ts_generics) or the instantiation is outside the block that defines the placeholder types (#generic_types): defaults that mention a parameter would resolve to the real argument",
                   fn["file"], e["line"])
    if not done:
        r.fail(prop, "anchor-missing decl template", "no template defining fn decl / fn decl_concrete", fn["file"], fn["line"])
    # the placeholder types themselves: decl() renders the item at them, so every rendering a field can ask for
    # (name, inline, inline_flattened) must answer with the parameter's name - a panic there makes decl() of
    # `struct G<T> { #[ts(inline)] v: Vec<T> }` panic although G::<i32>::inline() works
    gf = syn.fn("DerivedTS::generate_generic_types", "macros/src/lib.rs")
    for e in (templates(gf) if gf else []):
        g = _fn_groups(e["tokens"])
        if "name" not in g:
            continue
        for m in ("name", "inline", "inline_flattened"):
            body = " ".join(t for t in S.flat(g.get(m, [])) if isinstance(t, str))
            total = bool(body) and "panic !" not in body and "unimplemented !" not in body and "todo !" not in body
            r.inst(template="placeholder fn " + m, body=body[-60:], total=total)
            if not total:
                r.fail(prop, "placeholder-rendering-partial %s" % m,
                       "the placeholder type of a generic parameter %s in %s(): decl() of a generic item that renders a parameter that way panics" % ("panics" if body else "has no body", m),
                       gf["file"], e["line"])
    r.floor = 3
    return r


# ------------------------------------------------------------------ C07.R1

def impl_header_rule(syn, prop, rule="C16.R7"):
    r = Result(rule, "the generated `impl<..>` header rebuilds every generic parameter from its parts (ident, bounds, lifetime, const type): no template interpolates a whole syn::GenericParam, whose tokens include `= default` (defaults are not allowed in impl headers, so the expansion would not compile)")
    fn = syn.fn("generate_impl_block_header", "macros/src/lib.rs")
    if fn is None:
        r.fail(prop, "anchor-missing generate_impl_block_header", "not found")
        return r
    allowed = {"ident", "colon_token", "bounds", "lifetime", "const_token", "ty", "params", "type_args", "crate_rename", "where_bound"}
    n = 0
    for e in templates(fn):
        ints = set(S.interpolations(e["tokens"]))
        in_params = any(c["k"] == "let" and S.squash(c["pat"]) == "params" for c in e["ctx"])
        if not in_params:
            continue
        n += 1
        extra = ints - allowed
        r.inst(fn=fn["qual"], where="%s:%s" % (fn["file"], e["line"]), interpolates=sorted(ints), ok=not extra)
        if extra:
            r.fail(prop, "impl-header-whole-param #%s" % "+#".join(sorted(extra)), "the impl header interpolates %s as a whole: a parameter default (`const N: usize = 4`, `T = i32`) would be copied into `impl<..>`, which rustc rejects" % sorted(extra),
                   fn["file"], e["line"])
    # defaults must not be destructured into the header either
    for e in S.events(fn, "match"):
        for a in e["arms"]:
            if re.search(r"\bdefault\b", a["pat"]) and "params" in " ".join(S.squash(c.get("pat", "")) for c in e["ctx"] if c["k"] == "let"):
                r.fail(prop, "impl-header-default", "a parameter default is bound while building the impl header", fn["file"], a["line"])
    r.floor = 3
    return r


def _generic_emitters_mir(crate, prop, r, droppers, replacers):
    """the emitters of the item's type parameters, decided on the MIR of each emitter together with its closures and the
    helpers it shares with nobody but other emitters"""
    from vlib import mirlib as M2
    from vlib import quotelib as Q
    anchors = set(droppers) | set(replacers)
    cg = crate.callgraph(("TS",))
    by_path = {b.path: b for b in crate.bodies}
    unclosure = lambda q: re.sub(r"::\{closure#\d+\}", "", q)
    for name in droppers + replacers:
        cands = [b for b in crate.bodies if b.kind in ("Fn", "AssocFn") and b.path.split("::")[-1] == name]
        if len(cands) != 1:
            r.fail(prop, "anchor-missing " + name, "emitter not found (or not unique)")
            continue
        root = cands[0]
        seen_p, todo = set(), [root.path]
        while todo:
            pth = todo.pop()
            if pth in seen_p or len(seen_p) > 40:
                continue
            seen_p.add(pth)
            for q in cg.get(pth, ()):
                base = unclosure(q)
                if q.startswith("<") or q not in by_path:
                    continue
                if base.split("::")[-1] in anchors and base != unclosure(root.path):
                    continue                   # a sibling emitter is judged on its own
                todo.append(q)
        reach = [by_path[p] for p in sorted(seen_p)]
        calls = [(b, blk, t) for b in reach for blk, t in b.calls() if not b.is_cleanup(blk)]
        walks = [M2.callee(t).split("::")[-1] for b, blk, t in calls if M2.fn_matches(t, r"Generics::type_params$") or
                 (M2.fn_matches(t, r"Punctuated::<T, P>::iter$", r"IntoIterator>::into_iter$", r"IntoIterator::into_iter$") and "GenericParam" in (t.get("arg_tys") or [""])[0])]
        by_kind = [M2.callee(t).split("::")[-1] for b, blk, t in calls if M2.fn_matches(t, r"Generics::(lifetimes|type_params|const_params)$")]
        reorder = [M2.callee(t).split("::")[-1] for b, blk, t in calls if M2.fn_matches(t, r"Iterator::(chain|partition|rev)$", r"::sort(_by|_by_key|_unstable\w*)?$")]
        looks = [(b, blk, t) for b, blk, t in calls if M2.fn_matches(t, r"HashMap::<K, V, S(, A)?>::(contains_key|get)$") and "Ident" in (t.get("arg_tys") or [""])[0]]
        hashed = any(re.search(r"(Hash|BTree)(Map|Set)<[^>]*(TypeParam|GenericParam)", l["ty"]) for b in reach for l in b.locals)
        is_drop = name in droppers
        if not walks:
            r.inst(fn=root.path, examined=sorted(seen_p), verdict="undecided: no walk over the parameter list found")
            r.fail(prop, "anchor-missing parameter walk of " + name, "no iteration over Generics::type_params()/generics.params found in %s or its helpers" % root.path, root.file(), root.line())
            continue
        ok, treat = True, "drops concrete params" if is_drop else "replaces concrete params"
        if hashed:
            ok, treat = False, "collects the parameters into a hash/tree container: the declaration order is lost"
        elif not looks:
            ok, treat = False, "NO concrete " + ("filter" if is_drop else "replacement") + ": the `concrete` map is never consulted"
        elif is_drop:
            for bx, blk, t in looks:
                if bx.kind != "Closure" or not M2.fn_matches(t, r"contains_key$"):
                    continue
                # a closure that decides about one parameter: every way out that keeps the parameter passes the test
                cks = [b2 for b2, t2 in bx.calls() if not bx.is_cleanup(b2) and M2.fn_matches(t2, r"HashMap::<K, V, S(, A)?>::contains_key$")]
                drops = {b2 for b2 in range(bx.n) if not bx.is_cleanup(b2) for st in bx.stmts(b2)
                         if st["k"] == "assign" and st["dst"]["l"] == 0 and ((st["rv"]["k"] == "agg" and st["rv"].get("variant") == "None") or
                                                                             (st["rv"]["k"] == "use" and (M2.op_const(st["rv"]["op"]) or {}).get("int") == 0))}
                if not bx.all_paths_pass(0, set(cks) | drops, bx.returns()):
                    ok, treat = False, "the `concrete` test in %s does not cover every arm that keeps a parameter" % bx.path
        else:
            # what stands in for a type parameter: the mapped type when `concrete` has one; the stand-in otherwise
            for bx, blk, t in looks:
                if not M2.fn_matches(t, r"::get$"):
                    continue
                tpls = Q.templates(bx)
                kinds = []
                for tpl in tpls:
                    toks = [x for x in tpl.tokens if x != "#"]
                    from_map = any(any(c2 is t for _, c2 in M2.deep_slice(bx, l)[0]) for _, l, _ in tpl.interps)
                    after = t.get("target") if t.get("target") is not None else blk
                    if "Dummy" in toks:
                        kinds.append(("stand-in", tpl))
                    elif from_map:
                        kinds.append(("mapped", tpl))
                    elif any(re.search(r"Ident$", ty) for _, _, ty in tpl.interps) and (after == tpl.block or bx.dominates(after, tpl.block)):
                        kinds.append(("parameter kept", tpl))
                r.inst(fn=bx.path, lookup="concrete.get", outcomes=sorted({k for k, _ in kinds}))
                if name in ("generate_assoc_type", "generate_export_test"):
                    kept = [tpl for k, tpl in kinds if k == "parameter kept"]
                    if kept and any(k == "stand-in" for k, _ in kinds):
                        r.fail(prop, "generic-erasure-conditional %s" % name,
                               "%s does not replace every non-concrete type parameter by Dummy (a template after the lookup keeps the parameter's own identifier): `WithoutGenerics` then keeps an argument, and the imports of the type's file depend on which instantiation is exported first" % bx.path,
                               kept[0].file, kept[0].line)
                returned = any(c2 is t for _, c2 in M2.deep_slice(bx, 0)[0])        # `concrete.get(..)` flows into what the function returns
                if tpls and not returned and not any(k == "mapped" for k, _ in kinds):
                    ok, treat = False, "the type found in `concrete` is never emitted"
        if name == "generate_assoc_type":
            in_order = not by_kind and not reorder
            r.inst(fn=root.path, argument_order="declaration order (single pass over generics.params)" if in_order else "regrouped (%s)" % ", ".join(by_kind + reorder), ok=in_order)
            if not in_order:
                r.fail(prop, "generic-arguments-regrouped %s" % name,
                       "%s does not emit the argument list in one pass over `generics.params` (%s): for `struct S<const N: usize, T>` the list becomes `S<Dummy, N>` (E0747: type provided where a constant was expected)" % (name, ", ".join(by_kind + reorder)),
                       root.file(), root.line())
        r.inst(fn=root.path, examined=sorted(seen_p), source=sorted(set(walks)), treatment=treat, ok=ok)
        if not ok:
            r.fail(prop, "generic-emitter %s" % root.path,
                   "%s does not treat the parameter list like its siblings (%s): the declared parameters, the referenced arguments and the visited generics would disagree" % (root.path, treat), root.file(), root.line())


def generics_rule(syn, prop, rule="C07.R1", crate=None):
    r = Result(rule, "all emitters of the item's type parameters iterate the parameter list in source order; the list/visit emitters drop `concrete` parameters (contains_key filter) and the instantiating emitters replace them by the concrete type (get → None/Some arms); concrete maps of several #[ts] attributes are unioned")
    droppers = [("DerivedTS::name_with_generics", "macros/src/lib.rs"), ("DerivedTS::generate_generic_types", "macros/src/lib.rs"),
                ("DerivedTS::generate_generics_fn", "macros/src/lib.rs"), ("utils::format_generics", "macros/src/utils.rs")]
    replacers = [("DerivedTS::generate_decl_fn", "macros/src/lib.rs"), ("generate_assoc_type", "macros/src/lib.rs"), ("DerivedTS::generate_export_test", "macros/src/lib.rs")]
    _generic_emitters_mir(crate, prop, r, [q.split("::")[-1] for q, _ in droppers], [q.split("::")[-1] for q, _ in replacers])
    for x, f in (("StructAttr", "attr/struct.rs"), ("EnumAttr", "attr/enum.rs")):
        fn = syn.fn("<%s as Attr>::merge" % x, f)
        verdict, val = "undecided", None
        if crate is not None:
            from rules import field_rules as F2
            mb, summ = F2.merge_summary(crate, x)
            if summ is not None and "concrete" in summ:
                verdict, val = F2.merge_verdict(summ["concrete"], "union")
        r.inst(fn="%s::merge" % x, field="concrete", value=val, unioned=verdict)
        if verdict == "BAD":
            r.fail(prop, "concrete-not-unioned %s::merge" % x, "`concrete` of several #[ts(..)] attributes is not the union of both maps (%s): parameters named in a later attribute would stay generic" % val,
                   fn["file"] if fn else None, fn["line"] if fn else None)
        # the same union inside one list: `#[ts(concrete(A = i32), concrete(B = u8))]`
        t = syn.tables().get(x)
        arm = [a for a in (t["arms"] if t else []) if "concrete" in a["keys"]]
        expr = S.squash(arm[0]["expr"]) if arm else None
        acc = expr is not None and re.search(r"out\.concrete\.(extend|append)\(", expr) is not None
        r.inst(parser=x, key="concrete", arm=expr, accumulates=acc)
        if arm and not acc:
            r.fail(prop, "concrete-overwritten-in-list %s" % x,
                   "the parser arm `%s` replaces the map: in `#[ts(concrete(A = i32), concrete(B = u8))]` the second entry drops the first and A stays generic" % arm[0]["expr"],
                   t["file"], arm[0]["line"])
    r.floor = 9
    return r


# ------------------------------------------------------------------ C02.R1 (template part)

def optional_marker_rule(syn, prop, rule="C02.R1a"):
    r = Result(rule, "every template that can emit the optional marker `?` either instantiates a function bounded by IsOption on PhantomData<#ty> (compile-time check) or sits in the then-branch of `if <#ty as TS>::IS_OPTION`")
    for fn in syn.fns_in("macros/src"):
        for e in templates(fn):
            fl = S.flat(e["tokens"])
            if '"?"' not in fl:
                continue
            txt = " ".join(fl)
            guard1 = bool(re.search(r"< T : # crate_rename :: IsOption >", txt)) and bool(re.search(r"PhantomData < # (\w+) >", txt)) and "check_that_field_is_option ( x )" in txt.replace("  ", " ")
            m = re.search(r'if < # (\w+) as # crate_rename :: TS > :: IS_OPTION \{ "\?" \} else \{ "" \}', txt)
            guard2 = bool(m)
            r.inst(fn=fn["qual"], where="%s:%s" % (fn["file"], e["line"]), guard="IsOption bound" if guard1 else ("IS_OPTION test" if guard2 else None))
            if not (guard1 or guard2):
                r.fail(prop, "unguarded-optional-marker %s" % fn["qual"], "a template emits \"?\" without the IsOption bound / IS_OPTION test: a required field could be declared optional", fn["file"], e["line"])
    r.floor = 2
    return r


def is_option_impl_rule(syn, crate, prop, rule="C02.R1b"):
    r = Result(rule, "IsOption is implemented only for Option<T>; IS_OPTION is overridden only by `impl TS for Option<T>` (= true); the wrapper/shadow macros do not forward it")
    impls = [im for im in crate.impls if (im.get("trait") or "").split("::")[-1] == "IsOption"]
    for im in impls:
        ok = re.match(r"^std::option::Option<\w+>$", im["self_ty"]) is not None
        r.inst(impl="IsOption for " + im["self_ty"], ok=ok)
        if not ok:
            r.fail(prop, "IsOption-impl %s" % im["self_ty"], "IsOption implemented for %s: #[ts(optional)] would be accepted on a non-Option field" % im["self_ty"], im["span"]["file"], im["span"]["line"])
    if not impls:
        r.fail(prop, "anchor-missing IsOption impl", "no impl of IsOption found")
    n = 0
    for it in syn.items:
        if it["kind"] == "impl" and (it["trait"] or "").endswith("TS"):
            for a in it["assoc"]:
                if a["name"] == "IS_OPTION":
                    n += 1
                    ok = S.squash(it["self_ty"]) == "Option<T>" and S.squash(a["value"]) == "true"
                    r.inst(impl="TS for " + it["self_ty"], IS_OPTION=a["value"], ok=ok)
                    if not ok:
                        r.fail(prop, "IS_OPTION-override %s" % S.squash(it["self_ty"]), "IS_OPTION overridden by impl TS for %s" % it["self_ty"], it["file"], it["line"])
    if n == 0:
        r.fail(prop, "anchor-missing IS_OPTION", "Option<T> does not set IS_OPTION = true")
    # OptionInnerType differs from Self exactly where IS_OPTION is true; no shadow of Option (a shadow takes over
    # OptionInnerType but not IS_OPTION, which would drop `| null` under optional_fields)
    for it in syn.items:
        if it["kind"] == "impl" and (it["trait"] or "").endswith("TS") and it["file"].startswith("ts-rs/src"):
            oit = [a["value"] for a in it["assoc"] if a["name"] == "OptionInnerType"]
            iso = [a["value"] for a in it["assoc"] if a["name"] == "IS_OPTION"]
            if oit:
                differs = S.squash(oit[0]) != "Self"
                is_opt = bool(iso) and S.squash(iso[0]) == "true"
                r.inst(impl="TS for " + S.squash(it["self_ty"]), OptionInnerType=oit[0], IS_OPTION=is_opt, consistent=differs == is_opt)
                if differs != is_opt:
                    r.fail(prop, "option-inner-type-mismatch %s" % S.squash(it["self_ty"]), "impl TS for %s has OptionInnerType = %s but IS_OPTION = %s" % (it["self_ty"], oit[0], is_opt), it["file"], it["line"])
    for m in syn.item_macros:
        if m["name"] == "impl_shadow" and m["file"].startswith("ts-rs/src"):
            txt = " ".join(S.flat(m["tokens"]))
            if re.match(r"^as (std :: option :: )?Option <", txt):
                r.fail(prop, "shadow-of-option %s" % S.squash(txt.split(" TS for ")[-1]), "impl_shadow!(as Option<..>) forwards Option's OptionInnerType without IS_OPTION: under #[ts(optional_fields)] the field loses `| null` and gets no `?`", m["file"], m["line"])
    for m in syn.item_macros:
        if m["name"] == "macro_rules" and m.get("ident") in ("impl_wrapper", "impl_shadow", "impl_primitives", "impl_tuples"):
            has = "IS_OPTION" in S.flat(m["tokens"])
            txt = " ".join(S.flat(m["tokens"]))
            if m["ident"] != "impl_shadow":
                own = "type OptionInnerType = Self ;" in txt
                r.inst(macro=m["ident"], OptionInnerType_is_Self=own)
                if not own:
                    r.fail(prop, "option-inner-type-forwarded %s" % m["ident"], "%s! does not set OptionInnerType = Self although IS_OPTION stays false: under optional_fields a field of such a type around an Option loses `| null` without becoming optional" % m["ident"], m["file"], m["line"])
            r.inst(macro=m["ident"], forwards_IS_OPTION=has)
            if has:
                r.fail(prop, "IS_OPTION-forwarded %s" % m["ident"], "%s! forwards IS_OPTION: a wrapper around Option would be treated as Option while its OptionInnerType is Self" % m["ident"], m["file"], m["line"])
    r.floor = 5
    return r


# ------------------------------------------------------------------ C01.R3 / C02.R3: enum representation matrix

def _vm_atom(expr, lets):
    x = S.squash(expr).lstrip("&")
    if x in lets:
        x = S.squash(lets[x]).lstrip("&")
    if x in ("untagged_variant", "variant_attr.untagged"):
        return "U"
    if x in ("enum_attr.tagged()?", "enum_attr.tagged()"):
        return "T"
    if x in ("variant.fields",):
        return "F"
    if x in ("variant_type.inline_flattened", "variant_type.inline_flattened.as_ref()", "variant_type.inline_flattened.is_some()"):
        return "IF"
    if x in ("field_attr.skip",):
        return "S"
    return None


def _vm_pat(atom, pat, cell):
    """(matches?, extra_guard_needed) of one sub-pattern against the cell value of atom"""
    p = S.squash(pat)
    if p == "_" or re.match(r"^(ref)?(mut)?[a-z_][a-z0-9_]*$", p) and p not in ("true", "false"):
        return True
    v = cell[atom]
    if atom in ("U", "S"):
        return p == ("true" if v else "false")
    if atom == "T":
        return p.startswith("Tagged::" + v)
    if atom == "F":
        if p.startswith("Fields::Unit"):
            return v == "Unit"
        if p.startswith("Fields::Named"):
            return v == "Named"
        if p.startswith("Fields::Unnamed"):
            return v.startswith("Unnamed")
        return None
    if atom == "IF":
        if p.startswith("Some"):
            return v == "some"
        if p == "None":
            return v == "none"
    return None


_SKIP_HELPERS = []


def _find_skip_helpers(syn, file_suffix):
    """local helper fns that parse a FieldAttr and hand back its `skip` flag"""
    out = []
    for f in syn.fns:
        if f["file"].endswith(file_suffix) and "bool" in f["sig"] and any(e["kind"] == "field" and e["member"] == "skip" for e in f["events"]) \
                and any(e["kind"] == "call" and "FieldAttr :: from_attrs" in e["func"] for e in f["events"]) \
                and not any(e["kind"] == "macro" and e["name"] in QUOTES for e in f["events"]):
            out.append(f["name"])
    return out


def _vm_guard(g, cell, lets):
    x = S.squash(g)
    if "&&" in x:
        parts = [_vm_guard(p, cell, lets) for p in x.split("&&")]
        if any(p is None for p in parts):
            return None
        return all(parts)
    m = re.match(r"^(!?)variant_attr\.(type_as|type_override)\.is_(none|some)\(\)$", x)
    if m:
        present = cell["O"] == ("as" if m.group(2) == "type_as" else "type")
        val = present if m.group(3) == "some" else not present
        return (not val) if m.group(1) else val
    neg = False
    if x.startswith("!"):
        neg, x = True, x[1:]
    m = re.match(r"^(\w+)\.unnamed\.len\(\)==(\d+)$", x)
    if m:
        val = (cell["F"] == "Unnamed%s" % m.group(2)) if m.group(2) in ("0", "1") else None
    else:
        a = _vm_atom(x, lets)
        if a is None and _SKIP_HELPERS and re.match(r"^(%s)\(.*\)\??$" % "|".join(_SKIP_HELPERS), x):
            a = "S"
        if a in ("U", "S"):
            val = cell[a]
        elif a == "IF":
            val = cell["IF"] == "some"
        else:
            return None
    if val is None:
        return None
    return (not val) if neg else val


def _vm_arm_fires(me, arm_idx, cell, lets):
    atoms = [_vm_atom(e, lets) for e in S.tuple_elems(me["scrut"])]
    if any(a is None for a in atoms):
        return None
    for idx, arm in enumerate(me["arms"]):
        hit = False
        for alt in S.split_top(arm["pat"], "|"):
            elems = S.tuple_elems(alt)
            if len(elems) == 1 and len(atoms) > 1 and (S.squash(elems[0]) == "_" or re.match(r"^[a-z_][a-z0-9_]*$", S.squash(elems[0]))):
                hit = True
                continue
            if len(elems) != len(atoms):
                continue
            res = []
            for a, pe in zip(atoms, elems):
                sub = [_vm_pat(a, q, cell) for q in S.split_top(pe, "|")]
                res.append(None if any(x is None for x in sub) else any(sub))
            if any(x is None for x in res):
                return None
            if all(res):
                hit = True
        if hit and arm.get("guard"):
            g = _vm_guard(arm["guard"], cell, lets)
            if g is None:
                return None
            hit = g
        if hit:
            return idx == arm_idx
    return False


def variant_matrix_rule(syn, prop, rule="C01.R3"):
    r = Result(rule, "enum representation matrix: for every (variant untagged?, enum tagging, field shape, single field skipped?) cell exactly one template of format_variant is selected and it interpolates exactly what serde's representation carries: untagged → payload only; external → name (+payload); adjacent → tag,name (+content,payload); internal → tag,name (+payload), struct variants via the flattened body")
    fn = syn.fn("types::enum::format_variant", "enum.rs")
    if fn is None:
        r.fail(prop, "anchor-missing format_variant", "not found")
        return r
    lets_ev = [e for e in S.events(fn, "let") if S.squash(e["pat"]) == "formatted"]
    pv = [e for e in S.events(fn, "let") if "variant_attr . type_as" in e["init"] and "variant_attr . type_override" in e["init"] and e["init"].lstrip().startswith("match")]
    if not lets_ev or not pv:
        r.fail(prop, "anchor-missing format_variant.formatted", "no `let formatted = ..` / payload value", fn["file"], fn["line"])
        return r
    lid = lets_ev[0]["id"]
    P = S.squash(pv[0]["pat"])
    del _SKIP_HELPERS[:]
    _SKIP_HELPERS.extend(_find_skip_helpers(syn, "types/enum.rs"))
    lets = {S.squash(e["pat"]): e["init"] for e in S.events(fn, "let") if re.match(r"^[a-z_]+$", S.squash(e["pat"]))}
    match_by_id = {e["id"]: e for e in S.events(fn, "match")}
    temps = [e for e in templates(fn) if any(c["k"] == "let" and c["id"] == lid for c in e["ctx"])]
    n_unrec = 0
    for U in (True, False):
        for T in ("Externally", "Adjacently", "Internally", "Untagged"):
            for F in ("Unit", "Unnamed0", "Unnamed1", "Unnamed2", "Named"):
                for Sk, O in [(sk, o) for sk in ((True, False) if F == "Unnamed1" else (False,)) for o in ("none", "as", "type")]:
                    cell = {"U": U, "T": T, "F": F, "S": Sk, "IF": "some" if F == "Named" else "none", "O": O}
                    active = []
                    unrec = False
                    for e in temps:
                        on = True
                        after = False
                        for c in e["ctx"]:
                            if c["k"] == "let" and c["id"] == lid:
                                after = True
                                continue
                            if not after:
                                continue
                            if c["k"] == "match":
                                me = match_by_id.get(c["id"])
                                v = _vm_arm_fires(me, c["arm"], cell, lets) if me else None
                                if v is None:
                                    unrec = True
                                elif not v:
                                    on = False
                            elif c["k"] == "if":
                                v = _vm_guard(c["cond"], cell, lets)
                                if v is None:
                                    unrec = True
                                elif (c["branch"] == "then") != v:
                                    on = False
                        if on:
                            active.append(e)
                    # expected
                    if U or T == "Untagged":
                        want = {P}
                    else:
                        base = {"Externally": {"ts_name"}, "Adjacently": {"tag", "ts_name"}, "Internally": {"tag", "ts_name"}}[T]
                        if T == "Internally" and F == "Named" and O == "none":
                            want = {P}
                        elif F == "Unit" or (F == "Unnamed1" and Sk):
                            want = set(base)
                        else:
                            want = set(base) | {P} | ({"content"} if T == "Adjacently" else set())
                    cname = "%s/%s/%s%s%s" % ("variant-untagged" if U else "tagged-by-enum", T, F, "/skipped" if Sk else "", "" if O == "none" else "/variant-" + O)
                    if unrec:
                        n_unrec += 1
                        continue
                    got = [set(S.interpolations(S.strip_wrappers(e["tokens"]))) for e in active]
                    ok = len(active) == 1 and got[0] == want
                    # literal skeleton and argument order of the selected template
                    if ok and not (U or T == "Untagged" or (T == "Internally" and F == "Named" and O == "none")):
                        with_payload = P in want
                        skel = {("Externally", False): '"{}"', ("Externally", True): '{{"{}":{}}}',
                                ("Adjacently", False): '{{"{}":"{}"}}', ("Adjacently", True): '{{"{}":"{}","{}":{}}}',
                                ("Internally", False): '{{"{}":"{}"}}', ("Internally", True): '{{"{}":"{}"}}&{}'}[(T, with_payload)]
                        order = {"Externally": ["ts_name"], "Adjacently": ["tag", "ts_name"], "Internally": ["tag", "ts_name"]}[T] + \
                            ((["content"] if T == "Adjacently" else []) + [P] if with_payload else [])
                        fc = S.format_calls(S.strip_wrappers(active[0]["tokens"]))
                        lit = S.squash(S.unquote(fc[0][0]) or "") if fc else None
                        args = ["".join(S.flat(a)).lstrip("#") for a in fc[0][1]] if fc else None
                        if lit != skel or args != order:
                            ok = False
                            r.fail(prop, "variant-shape %s" % cname,
                                   "for %s the template is format!(%r, %s); serde's representation is %r over %s" % (cname, lit, args, skel, order), fn["file"], active[0]["line"])
                            r.inst(cell=cname, literal=lit, args=args, expected_literal=skel, expected_args=order, ok=False)
                            continue
                    r.inst(cell=cname, selected=[e["line"] for e in active], interpolates=[sorted(g) for g in got], expected=sorted(want), ok=ok)
                    if not ok:
                        r.fail(prop, "variant-matrix %s" % cname,
                               "for %s format_variant selects template(s) at line(s) %s interpolating %s; serde's representation carries %s"
                               % (cname, [e["line"] for e in active], [sorted(g) for g in got], sorted(want)), fn["file"], active[0]["line"] if active else fn["line"])
    if n_unrec:
        r.fail(prop, "unrecognised-idiom format_variant matrix", "%d cells could not be evaluated: the representation match uses a scrutinee/guard shape the evaluator does not know" % n_unrec, fn["file"], fn["line"])
    r.floor = 144
    return r


def enum_flatten_parens_rule(syn, prop, rule="C14.R6"):
    r = Result(rule, "an enum's inline_flattened() always parenthesises the union (it is intersected with the parent's fields, and `&` binds tighter than `|`)")
    fn = syn.fn("types::enum::r#enum_def", "enum.rs") or syn.fn("r#enum_def", "enum.rs") or syn.fn("enum_def", "enum.rs")
    if fn is None:
        r.fail(prop, "anchor-missing enum_def", "not found")
        return r
    n = 0
    for e in templates(fn):
        if not any((c["k"] == "field_init" and S.squash(c["field"]) == "inline_flattened") or
                   (c["k"] == "let" and S.squash(c["pat"]).replace("mut", "") == "inline_flattened") for c in e["ctx"]):
            continue
        fc = S.format_calls(e["tokens"])
        lits = [S.unquote(l) for l, _ in fc if l]
        ok = bool(lits) and all(x.startswith("(") and x.endswith(")") for x in lits) and "join" in S.flat(e["tokens"])
        n += 1
        r.inst(fn=fn["qual"], where="%s:%s" % (fn["file"], e["line"]), literals=lits, parenthesised=ok)
        if not ok:
            r.fail(prop, "enum-flatten-unparenthesised", "a template for the enum's inline_flattened() does not wrap the union in parentheses: flattened next to other fields, `{..} & A | B` parses as `({..} & A) | B`",
                   fn["file"], e["line"])
    if n == 0:
        r.fail(prop, "anchor-missing enum inline_flattened template", "no template initialises DerivedTS.inline_flattened in enum_def", fn["file"], fn["line"])
    r.floor = 1
    return r


# ------------------------------------------------------------------ C09

def naming_precedence_rule(syn, prop, rule="C09.R2"):
    r = Result(rule, "at every naming site (two in named::format_field, one in enum::format_variant): explicit `rename` is used verbatim; otherwise `rename_all` is applied to the un-raw'ed identifier; otherwise the un-raw'ed identifier is used")
    sites = []
    for qual, fsuf in (("types::named::format_field", "named.rs"), ("types::enum::format_variant", "enum.rs")):
        fn = syn.fn(qual, fsuf)
        if fn is None:
            r.fail(prop, "anchor-missing " + qual, "not found")
            continue
        for e in S.events(fn, "match"):
            el = [S.squash(x) for x in S.tuple_elems(e["scrut"])]
            if len(el) == 2 and re.search(r"\.rename(\.as_ref\(\)|\.clone\(\))?$", el[0]) and re.search(r"rename_all$", el[1]):
                sites.append((fn, e))
    for fn, e in sites:
        arms = [a["pat"] for a in e["arms"]]
        verdict = {}
        for cell, nm in ((("some", "some"), "rename+rename_all"), (("some", "none"), "rename"), (("none", "some"), "rename_all"), (("none", "none"), "neither")):
            i = S.first_match(arms, cell)
            body = S.squash(e["arms"][i]["body"]) if i is not None else ""
            conv = re.findall(r"\.(apply\w*)\(", body)
            applies = bool(conv)
            role = "variant" if fn["qual"].endswith("format_variant") else "field"
            wrong = [c for c in conv if ("variant" in c and role == "field") or ("field" in c and role == "variant")]
            if wrong:
                r.fail(prop, "conversion-role %s" % fn["qual"], "a %s naming site uses %s" % (role, wrong[0]), fn["file"], e["line"])
            # identifier source: to_ts_ident(..) / .unraw()
            ident_src = bool(re.search(r"field_name|unraw\(\)", body))
            if cell[0] == "some":
                ok = (not applies) and not ident_src and i is not None
            elif cell[1] == "some":
                ok = applies and ident_src
            else:
                ok = (not applies) and ident_src
            verdict[nm] = ok
            r.inst(fn=fn["qual"], where="%s:%s" % (fn["file"], e["line"]), cell=nm, arm=(arms[i] if i is not None else None), ok=ok)
            if not ok:
                r.fail(prop, "naming-precedence %s [%s]" % (fn["qual"], nm), "naming site at line %d: for %s the arm `%s` yields `%s`" % (e["line"], nm, arms[i] if i is not None else "-", e["arms"][i]["body"][:80] if i is not None else "-"),
                       fn["file"], e["line"])
    # the identifier fed to the sites is un-raw'ed
    ff = syn.fn("types::named::format_field", "named.rs")
    if ff:
        fl = [e for e in S.events(ff, "let") if S.squash(e["pat"]) == "field_name"]
        ok = bool(fl) and all(S.squash(e["init"]).startswith("to_ts_ident(") for e in fl)
        r.inst(fn=ff["qual"], field_name_from=[e["init"] for e in fl], unrawed=ok)
        if not ok:
            r.fail(prop, "raw-identifier-name named::format_field", "field_name is not produced by to_ts_ident(..)", ff["file"], ff["line"])
    r.floor = 13
    return r


def rename_all_fields_rule(syn, prop, rule="C09.R3"):
    r = Result(rule, "StructAttr::from_variant: a variant's own rename_all wins, otherwise the enum's rename_all_fields applies to struct variants only, and nothing to tuple/unit variants")
    fn = syn.fn("StructAttr::from_variant", "attr/struct.rs")
    if fn is None:
        r.fail(prop, "anchor-missing StructAttr::from_variant", "not found")
        return r
    st = [e for e in S.events(fn, "struct") if S.squash(e["path"]) == "Self"]
    val = None
    for f in (st[0]["fields"] if st else []):
        if f["name"] == "rename_all":
            val = S.squash(f["value"])
    ok1 = val is not None and val.startswith("variant_attr.rename_all.or(")
    r.inst(fn=fn["qual"], rename_all=val, variant_first=ok1)
    if not ok1:
        r.fail(prop, "rename_all_fields-precedence StructAttr::from_variant", "rename_all of a struct variant is `%s`: the variant's own #[..(rename_all)] must take precedence over the enum's rename_all_fields (serde's order)" % val, fn["file"], fn["line"])
    ok2 = False
    for m in S.events(fn, "match"):
        if S.squash(m["scrut"]) == "variant_fields" and any(c["k"] == "field_init" and S.squash(c["field"]) == "rename_all" for c in m["ctx"]):
            named = [a for a in m["arms"] if "Fields::Named" in S.squash(a["pat"])]
            others = [a for a in m["arms"] if "Fields::Named" not in S.squash(a["pat"])]
            ok2 = bool(named) and all(S.squash(a["body"]) == "enum_attr.rename_all_fields" for a in named) and bool(others) and all(S.squash(a["body"]) == "None" for a in others)
            r.inst(fn=fn["qual"], routing={S.squash(a["pat"]): S.squash(a["body"]) for a in m["arms"]}, ok=ok2)
    if not ok2:
        r.fail(prop, "rename_all_fields-routing StructAttr::from_variant", "rename_all_fields is not routed to named variants only", fn["file"], fn["line"])
    r.floor = 2
    return r


def shared_conversion_rule(crate, prop, rule="C09.R1"):
    from vlib import mirlib as M
    r = Result(rule, "field sites and variant sites must not share one context-free case conversion: serde converts field names assuming snake_case sources and variant names assuming PascalCase sources, and the two functions differ")
    sites = {"field": [], "variant": []}
    for path, role in (("types::named::format_field", "field"), ("types::r#enum::format_variant", "variant")):
        b = crate.ibody(path)
        if b is None:
            r.fail(prop, "anchor-missing " + path, "not found")
            continue
        for blk, t in b.calls():
            if b.is_cleanup(blk):
                continue
            at = t.get("arg_tys") or []
            if at and at[0] == "attr::Inflection" and any(re.search(r"str\b|String", x or "") for x in at[1:]):      # a conversion is handed the name; a table lookup on the rule alone is not one
                extra = tuple(json_const(a) for a in t["args"][1:])
                sites[role].append((t["fn"].get("res") or t["fn"]["path"], tuple(x for x in extra if x is not None), M.user_span(t["span"])))
    for role, lst in sites.items():
        for callee, extra, (f, l) in lst:
            r.inst(role=role, callee=callee, constant_context_args=list(extra), where="%s:%s" % (f, l))
    fs = {(c, e) for c, e, _ in sites["field"]}
    vs = {(c, e) for c, e, _ in sites["variant"]}
    if not fs or not vs:
        r.fail(prop, "anchor-missing conversion sites", "no Inflection conversion call at field/variant sites")
    shared = fs & vs
    for c, e in sorted(shared):
        r.fail(prop, "shared-case-conversion field+variant -> %s" % c,
               "both struct fields and enum variants are converted by %s with no distinguishing context: e.g. field `fooBar` under snake_case becomes `foo_bar` (serde keeps `fooBar`), variant `Foo_Bar` under camelCase becomes `fooBar` (serde: `foo_Bar`)" % c,
               sites["field"][0][2][0], sites["field"][0][2][1])
    r.floor = 3
    return r


def json_const(op):
    if op["k"] == "const":
        c = op["c"]
        return c.get("str") or c.get("int") or c.get("dbg")
    return None


# ------------------------------------------------------------------ C04

def layout_rule(crate, prop, rule="C04.R1"):
    from vlib import symstr as SS
    r = Result(rule, "the text export_to_string returns, read off the MIR as an ordered sequence of pieces (buffer writes, format!/concat/join, helpers that write into the buffer or return a String expanded): NOTE, then what generate_imports writes, then the type's DOCS, the literal `export `, the text derived from T::decl(), and a final newline - nothing else, in this order")
    b = crate.body("export::export_to_string")
    if b is None:
        r.fail(prop, "anchor-missing export_to_string", "not found")
        return r
    atoms = SS.expand(crate, SS.Sym(crate, b).returned(), stop=[r"generate_imports$"])
    seq = []
    for a in atoms:
        if a[0] == "named" and re.search(r"(^|::)NOTE$", a[1]):
            seq.append("note")
        elif a[0] == "call" and re.search(r"generate_imports$", a[1]):
            seq.append("imports")
        elif a[0] == "named" and re.search(r"::DOCS$", a[1]):
            seq.append("docs")
        elif a[0] == "lit":
            seq.append("lit:" + a[1])
        elif SS.mentions(a, r"TS::decl$"):
            seq.append("decl")
        elif a[0] in ("named", "derived") and SS.mentions(a, r"::DOCS$"):
            seq.append("docs")
        else:
            seq.append("?" + (a[1] if isinstance(a[1], str) else str(a[1]))[:60])
    r.inst(fn=b.path, pieces=seq)
    unknown = [x for x in seq if x.startswith("?")]
    if unknown:
        r.fail(prop, "anchor-missing file layout", "the text export_to_string returns could not be read as a sequence of known pieces (%s)" % unknown, b.file(), b.line())
        r.floor = 1
        return r
    for k in ("note", "imports", "decl"):
        if k not in seq:
            r.fail(prop, "layout-missing %s" % k, "export_to_string has no `%s` piece (pieces: %s)" % (k, seq), b.file(), b.line())
    if not seq or seq[-1] != "lit:\n":
        r.fail(prop, "layout-missing newline" if "lit:\n" not in seq else "layout-after-newline export_to_string", "the file does not end with the single final newline (pieces: %s)" % seq, b.file(), b.line())
    want = ["note", "imports", "docs", "lit:export ", "decl", "lit:\n"]
    have = [x for x in seq if x in want]
    for a, c in zip(want, want[1:]):
        if a in have and c in have:
            ok = have.index(a) < have.index(c) and have.count(a) == 1 and have.count(c) == 1
            r.inst(order="%s before %s" % (a, c), ok=ok)
            if not ok:
                r.fail(prop, "layout-order %s/%s" % (a.replace("lit:", "").strip() or "newline", c.replace("lit:", "").strip() or "newline"),
                       "`%s` is not written (once) before `%s` (pieces: %s)" % (a, c, seq), b.file(), b.line())
    if "decl" in seq and (seq.index("decl") == 0 or seq[seq.index("decl") - 1] != "lit:export "):
        r.fail(prop, "decl-layout generate_decl", "the declaration is not directly preceded by the literal `export ` (pieces: %s)" % seq, b.file(), b.line())
    extra = [x for x in seq if x not in want]
    if extra:
        r.fail(prop, "layout-extra-write export_to_string", "additional pieces in the file text: %s" % extra, b.file(), b.line())
    r.floor = 1
    return r


def quoting_rule(syn, prop, rule="C04.R2"):
    r = Result(rule, "every property-name slot of a member template in named::format_field is filled from a variable bound directly to raw_name_to_ts_field(..) (names that are not identifier-like get quoted)")
    fn = syn.fn("types::named::format_field", "named.rs")
    if fn is None:
        r.fail(prop, "anchor-missing format_field", "not found")
        return r
    n = 0
    for e in templates(fn):
        if not any(c["k"] == "arg" and S.squash(c["of"]) == "formatted_fields.push" for c in e["ctx"]):
            continue
        for lit, args in S.format_calls(e["tokens"]):
            v = S.unquote(lit) or ""
            m = re.match(r"^(\{\})(\{\})(\{\})?: \{\},$", v)
            if not m:
                r.fail(prop, "member-template-shape format_field", "member template literal %r is not `<docs><name>[?]: <type>,`" % v, fn["file"], e["line"])
                continue
            name_var = "".join(S.flat(args[1])).lstrip("#") if len(args) > 1 else None
            lets = [x for x in S.events(fn, "let") if S.squash(x["pat"]) == name_var and x["seq"] < e["seq"]]
            ok = bool(lets) and S.squash(lets[-1]["init"]).startswith("raw_name_to_ts_field(") and S.squash(lets[-1]["init"]).endswith(")") \
                and S.squash(lets[-1]["init"]).count("raw_name_to_ts_field(") == 1
            # same scope: the let must be in a ctx that is a prefix of the template's ctx
            n += 1
            r.inst(fn=fn["qual"], where="%s:%s" % (fn["file"], e["line"]), name_slot=name_var, bound_to=(lets[-1]["init"] if lets else None), quoted=ok)
            if not ok:
                r.fail(prop, "unquoted-property-name format_field #%s" % name_var,
                       "the property name interpolated at line %d (#%s) is not the direct result of raw_name_to_ts_field(..): names such as `foo-bar` would be emitted unquoted" % (e["line"], name_var),
                       fn["file"], e["line"])
    r.floor = 2
    return r


def unraw_rule(syn, prop, rule="C04.R3"):
    r = Result(rule, "every identifier turned into text for TypeScript output goes through IdentExt::unraw() or to_ts_ident() (r#type is emitted as `type`)")
    exempt = {("DerivedTS::generate_export_test", "rust_ty"): "name of the generated Rust test fn; `r#` is stripped by replace",
              ("utils::to_ts_ident", "ident"): "this is the un-raw routine itself"}
    for fn in syn.fns:
        if not (fn["file"].startswith("macros/src/types/") or fn["file"] in ("macros/src/lib.rs", "macros/src/utils.rs")):
            continue
        for e in S.events(fn, "mcall"):
            if e["method"] != "to_string":
                continue
            recv = S.squash(e["recv"])
            if not re.search(r"(^|\.)ident(\.|$)|^rust_ty$|^ident$", recv):
                continue
            ok = ".unraw()" in recv
            ex = exempt.get((fn["qual"], recv))
            r.inst(fn=fn["qual"], expr=recv + ".to_string()", where="%s:%s" % (fn["file"], e["line"]), unrawed=ok, exempt=ex)
            if not ok and not ex:
                r.fail(prop, "raw-identifier-text %s %s" % (fn["qual"], recv), "`%s.to_string()` without unraw(): a raw identifier would appear as `r#..` in TypeScript" % recv, fn["file"], e["line"])
        # `stringify!(#ident)` inside a template prints the identifier as written, `r#` included
        for e in templates(fn):
            fl = [t for t in S.flat(e["tokens"]) if isinstance(t, str)]
            for i in range(len(fl) - 4):
                if fl[i:i + 4] == ["stringify", "!", "(", "#"] and any("to_owned" in x or "String" in x for x in fl[i:i + 12]):
                    r.inst(fn=fn["qual"], expr="stringify!(#%s)" % fl[i + 4], where="%s:%s" % (fn["file"], e["line"]), unrawed=False, exempt=None)
                    r.fail(prop, "raw-identifier-text %s stringify!(#%s)" % (fn["qual"], fl[i + 4]),
                           "`stringify!(#%s)` becomes TypeScript text: for `struct G<r#type>` the placeholder's name is `r#type`" % fl[i + 4], fn["file"], e["line"])
                    break
    r.floor = 6
    return r


def quoted_sink_rule(syn, prop, rule="C04.R4", direct_only=False):
    r = Result(rule, "every user-controlled string interpolated between double quotes (tag, content, variant / type names, property names that need quoting) is escaped: by an escape routine applied in the sink expression, by a shadowing `let v = <escape routine>(..)` before the template, or - for tag/content - once where the container attributes are read")
    esc_fns = {f["name"] for f in syn.fns_in("macros/src") if re.search(r"escape", f["name"])}
    # central sanitisation of container tag/content
    central = {}
    for x, fsuf in (("EnumAttr", "attr/enum.rs"), ("StructAttr", "attr/struct.rs")):
        fn = syn.fn("%s::from_attrs" % x, fsuf)
        got = set()
        for e in (S.events(fn, "assign") if fn else []):
            lhs = S.squash(e["lhs"])
            if lhs in ("result.tag", "result.content") and any(n + "(" in S.squash(e["rhs"]) for n in esc_fns):
                got.add(lhs.split(".")[1])
        central[x] = got
        r.inst(attr=x, escaped_when_read=sorted(got))
    tag_ok = "tag" in central.get("EnumAttr", ()) and "tag" in central.get("StructAttr", ())
    content_ok = "content" in central.get("EnumAttr", ())
    per_fn = {}
    n_sinks = 0
    for fn in syn.fns:
        if not fn["file"].startswith("macros/src/types/") and fn["file"] != "macros/src/utils.rs":
            continue
        for e in fn["events"]:
            if e["kind"] != "macro":
                continue
            calls = []
            if e["name"] in QUOTES and not direct_only:
                calls = S.format_calls(e["tokens"])
            elif e["name"] == "format":
                toks = e["tokens"]
                # the text of a diagnostic (`Error::new(span, format!(..))`) is shown by the compiler, not written to a .ts file
                if any(c["k"] == "arg" and re.search(r"Error::new(_spanned)?$|syn_err", S.squash(c.get("of", ""))) for c in e["ctx"]):
                    continue
                if toks and isinstance(toks[0], str):
                    args, cur = [], []
                    for x in toks[1:]:
                        if x == ",":
                            if cur:
                                args.append(cur)
                            cur = []
                        else:
                            cur.append(x)
                    if cur:
                        args.append(cur)
                    calls = [(toks[0], args)]
            for lit, args in calls:
                v = S.unquote(lit) or ""
                vv = re.sub(r"\{\{|\}\}", "##", v)
                k = 0
                for m in re.finditer(r"\{(\w*)\}", vv):
                    quoted = m.start() > 0 and vv[m.start() - 1] == '"' and m.end() < len(vv) and vv[m.end()] == '"'
                    arg = ("".join(S.flat(args[k])) if k < len(args) else "") if not m.group(1) else m.group(1)
                    if not m.group(1):
                        k += 1
                    if not quoted:
                        continue
                    n_sinks += 1
                    how = None
                    if any(n + "(" in arg for n in esc_fns):
                        how = "escape routine in the sink expression"
                    var = arg.lstrip("#") if re.match(r"^#?\w+$", arg) else None
                    if how is None and var:
                        lets = [x for x in S.events(fn, "let") if S.squash(x["pat"]) == var and x["seq"] < e["seq"]]
                        if lets and any(n + "(" in S.squash(lets[-1]["init"]) for n in esc_fns):
                            how = "shadowed by `let %s = %s`" % (var, lets[-1]["init"][:40])
                        elif not lets and var == "tag" and tag_ok:
                            how = "container tag escaped in from_attrs"
                        elif not lets and var == "content" and content_ok:
                            how = "container content escaped in from_attrs"
                    r.inst(fn=fn["qual"], where="%s:%s" % (fn["file"], e["line"]), sink=arg, literal=v[:40], escaped_by=how)
                    if how is None:
                        per_fn.setdefault(fn["qual"], []).append((e["line"], arg, v))
    for q, lst in sorted(per_fn.items()):
        fn = [f for f in syn.fns if f["qual"] == q][0]
        r.fail(prop, "unescaped-quoted-sink %s x%d" % (q, len(lst)),
               "%d interpolation(s) between double quotes without escaping (e.g. %s at line %d): a `\"` or `\\` in a rename/tag/content string breaks the string literal in the generated .ts" % (len(lst), lst[0][1], lst[0][0]),
               fn["file"], lst[0][0])
    r.stats = {"quoted_sinks": n_sinks}
    r.floor = 1 if direct_only else 25
    return r


# ------------------------------------------------------------------ C15

def docs_noninterference_rule(syn, prop, rule="C15.R1"):
    r = Result(rule, "documentation text flows only into documentation sinks: every read of a `docs` field is a propagation into another `docs` field, part of Attr::merge, the emptiness test choosing the doc prefix, or the doc text itself in the first slot of a member template / the DOCS constant")
    for fn in syn.fns_in("macros/src"):
        for e in S.events(fn, "field"):
            if e["member"] != "docs":
                continue
            role = None
            if any(c["k"] == "field_init" and S.squash(c["field"]) == "docs" for c in e["ctx"]):
                role = "propagate to docs field"
            elif fn["name"] == "merge":
                role = "merge"
            elif any(c["k"] == "scrut" for c in e["ctx"]) and any(c["k"] == "let" and S.squash(c["pat"]) == "docs" for c in e["ctx"]):
                role = "emptiness test / value for the doc prefix"
            elif any(c["k"] == "let" and S.squash(c["pat"]) == "docs" for c in e["ctx"]):
                role = "doc prefix value"
            elif any(c["k"] == "assign_rhs" and S.squash(c["lhs"]).endswith(".docs") for c in e["ctx"]):
                role = "store into docs field"
            elif any(S.squash(a["lhs"]) == S.squash(e["base"]) + ".docs" and a["line"] == e["line"] for a in S.events(fn, "assign")):
                role = "assignment target (docs field being set)"
            r.inst(fn=fn["qual"], read=S.squash(e["base"]) + ".docs", where="%s:%s" % (fn["file"], e["line"]), role=role)
            if role is None:
                r.fail(prop, "docs-read-outside-doc-sinks %s" % fn["qual"], "`%s.docs` is read in a context that is not a documentation sink: doc comments could influence the declared type" % S.squash(e["base"]),
                       fn["file"], e["line"])
        # locals named `docs` may only be interpolated as the first format argument or as the DOCS constant
        for e in templates(fn):
            if "docs" not in S.interpolations(e["tokens"]):
                continue
            ok = False
            for lit, args in S.format_calls(e["tokens"]):
                if args and "".join(S.flat(args[0])) == "#docs" and all("".join(S.flat(a)) != "#docs" for a in args[1:]):
                    ok = True
            if "DOCS" in S.flat(e["tokens"]) or S.flat(e["tokens"]) == ["#", "docs"]:
                ok = True
            if fn["name"] == "into_impl" and not S.format_calls(e["tokens"]):
                ok = True
            r.inst(fn=fn["qual"], template_with_docs=e["line"], docs_first_slot=ok)
            if not ok:
                r.fail(prop, "docs-not-first-slot %s" % fn["qual"], "#docs is interpolated somewhere other than the leading slot of a member template / the DOCS constant", fn["file"], e["line"])
    r.floor = 10
    return r


def docs_slot_rule(syn, prop, rule="C15.R2a"):
    r = Result(rule, "both member templates of named::format_field (type-override branch and normal branch) carry the field's documentation in their first slot")
    fn = syn.fn("types::named::format_field", "named.rs")
    if fn is None:
        r.fail(prop, "anchor-missing format_field", "not found")
        return r
    n = 0
    for e in templates(fn):
        if not any(c["k"] == "arg" and S.squash(c["of"]) == "formatted_fields.push" for c in e["ctx"]):
            continue
        fc = S.format_calls(e["tokens"])
        ok = bool(fc) and bool(fc[0][1]) and "".join(S.flat(fc[0][1][0])) == "#docs"
        n += 1
        r.inst(fn=fn["qual"], where="%s:%s" % (fn["file"], e["line"]), docs_first=ok)
        if not ok:
            r.fail(prop, "member-docs-dropped format_field", "a member template does not start with the field's doc comment: documentation of that field would be lost", fn["file"], e["line"])
    # the docs value is "\n" + docs when non-empty
    lets = [e for e in S.events(fn, "let") if S.squash(e["pat"]) == "docs"]
    ok = len(lets) >= 2 and all("field_attr.docs.is_empty()" in S.squash(e["init"]) and 'format!("\\n{}",&field_attr.docs)' in S.squash(e["init"]) for e in lets)
    r.inst(fn=fn["qual"], doc_prefix_bindings=len(lets), ok=ok)
    if not ok:
        r.fail(prop, "doc-prefix-shape format_field", "`docs` is not `\"\\n\" + field docs` when non-empty / empty otherwise at both sites", fn["file"], fn["line"])
    r.floor = 3
    return r


def docs_containment_rule(crate, syn, prop, rule="C15.R3"):
    r = Result(rule, "doc text is neutralised on the *assembled* comment body: every value interpolated between `/**` and `*/` in parse_docs is the result of the escaping routine (replace(\"*/\", ..)) applied after the ` *` line prefixes were added; a block body that starts with `/` is padded so that it cannot form `/**/`")
    fn = syn.fn("utils::parse_docs", "utils.rs") or syn.fn("parse_docs", "utils.rs")
    if fn is None:
        r.fail(prop, "anchor-missing parse_docs", "not found")
        return r
    esc = [e for e in S.events(fn, "let") if 'replace("*/",' in S.squash(e["init"]) and S.squash(e["init"]).startswith("|")]
    esc_names = {S.squash(e["pat"]) for e in esc}
    r.inst(fn=fn["qual"], escaping_closures=sorted(esc_names))
    wrappers = []
    for e in S.events(fn, "macro"):
        if e["name"] != "format" or not e["tokens"] or not isinstance(e["tokens"][0], str):
            continue
        lit = S.unquote(e["tokens"][0]) or ""
        if not lit.startswith("/**"):
            continue
        wrappers.append(e)
        args, cur = [], []
        for x in e["tokens"][1:]:
            if x == ",":
                if cur:
                    args.append(cur)
                cur = []
            else:
                cur.append(x)
        if cur:
            args.append(cur)
        slots = re.findall(r"\{(\w*)\}", lit.replace("{{", "").replace("}}", ""))
        k = 0
        for sname in slots:
            if sname == "":
                expr = "".join(S.flat(args[k])) if k < len(args) else ""
                k += 1
            else:
                lets = [x for x in S.events(fn, "let") if S.squash(x["pat"]) == sname and x["seq"] < e["seq"]]
                expr = S.squash(lets[-1]["init"]) if lets else ""
            escaped = any(expr.startswith(n + "(") for n in esc_names)
            raw = lets[-1]["init"] if (sname and lets) else ""
            padding = bool(sname) and S.squash(raw).startswith("if") and "starts_with('/')" in S.squash(raw) and \
                all(x.strip('"').strip() == "" for x in re.findall(r'"[^"]*"', raw))
            r.inst(wrapper=lit, slot=sname or "{}", value=expr[:60], escaped=escaped, padding=padding)
            if not (escaped or padding):
                r.fail(prop, "doc-terminator-unescaped parse_docs", "the value `%s` placed between /** and */ (template %r) is not the result of the escaping routine: doc text such as `/// glob **/*.rs`, or a doc line starting with `/` after the ` *` prefix, ends the comment early" % (expr[:60], lit),
                       fn["file"], e["line"])
        if "{pad}" not in lit and lit.startswith("/**{"):
            r.fail(prop, "doc-block-unpadded parse_docs", "a block doc body is placed directly after `/**`: a body starting with `/` forms `/**/`", fn["file"], e["line"])
    if len(wrappers) < 2:
        r.fail(prop, "anchor-missing doc wrappers", "expected the block and the line JSDoc wrappers in parse_docs, found %d" % len(wrappers), fn["file"], fn["line"])
    if not esc_names:
        r.fail(prop, "doc-terminator-unescaped parse_docs", "parse_docs has no routine replacing `*/`", fn["file"], fn["line"])
    r.floor = 4
    return r


def docs_separator_rule(syn, crate, prop, rule="C15.R4"):
    r = Result(rule, "producer/consumer contract between doc rendering and merge(): merge() splits file content on blank lines, so text placed into a declaration must not contain one; the block-doc branch of parse_docs copies the comment verbatim")
    fn = syn.fn("utils::parse_docs", "utils.rs") or syn.fn("parse_docs", "utils.rs")
    mg = crate.body("export::merge")
    if fn is None or mg is None:
        r.fail(prop, "anchor-missing parse_docs/merge", "not found")
        return r
    from vlib import mirlib as M
    splits = []
    for blk, t in mg.calls():
        if M.fn_matches(t, r"str::<impl str>::(split|split_once)") and len(t["args"]) >= 2:
            c = M.op_const(t["args"][1]) or {}
            if c.get("str") == "\n\n":
                splits.append(t["span"]["line"])
    r.inst(consumer="export::merge", splits_on_blank_line_at=splits)
    verbatim = []
    for e in S.events(fn, "macro"):
        if e["name"] == "format" and any(c["k"] == "match" and S.squash(c["scrut"]) == "doc_attrs.len()" and S.squash(c["pat"]) == "1" for c in e["ctx"]):
            lit = S.unquote(e["tokens"][0]) if e["tokens"] and isinstance(e["tokens"][0], str) else ""
            if re.match(r"^/\*\*\{", lit):
                verbatim.append(e["line"])
    # the blank-line normalisation must be part of the routine whose result is interpolated into the wrappers (C15.R3)
    esc = [e for e in S.events(fn, "let") if 'replace("*/",' in S.squash(e["init"]) and S.squash(e["init"]).startswith("|")]
    def eliminates_blank_lines(init):
        """the `\\n\\n` -> R rewrite leaves no blank line behind: either it is repeated until none is left, or R has no
        border with the pattern (a single left-to-right pass over `\\n\\n\\n` with R = `\\n *\\n` yields `\\n *\\n\\n`)"""
        t = S.squash(init)
        m = re.search(r'while(\w+)\.contains\("\\n\\n"\)\{\1=\1\.replace\("\\n\\n",("(?:[^"\\]|\\.)*")\);?\}', t)
        if m:
            rep = S.unquote(m.group(2))
            return rep is not None and "\n\n" not in rep
        ok = False
        for m in re.finditer(r'replace\("\\n\\n",("(?:[^"\\]|\\.)*")\)', t):
            rep = S.unquote(m.group(1))
            if rep is None:
                return False
            ok = "\n\n" not in rep + rep and not rep.endswith("\n") and not rep.startswith("\n")
        return ok

    touched = [e for e in esc if re.search(r'replace\("\\n\\n",', S.squash(e["init"]))]
    sanit = [e for e in touched if eliminates_blank_lines(e["init"])]
    r.inst(producer="utils::parse_docs", verbatim_block_doc_at=verbatim, blank_line_sanitiser=bool(sanit), rewrites_blank_lines=bool(touched))
    if splits and touched and not sanit:
        r.fail(prop, "merge-separator-incomplete parse_docs -> merge",
               "the blank-line rewrite runs once, and its replacement ends or begins with a newline: three consecutive newlines still leave an empty line inside the comment, which merge() takes for the end of the declaration",
               fn["file"], touched[0]["line"])
        return r
    if not verbatim and not sanit:
        r.fail(prop, "anchor-missing block doc wrapper", "cannot find the block-doc branch of parse_docs", fn["file"], fn["line"])
    if splits and verbatim and not sanit:
        r.fail(prop, "merge-separator-unenforced parse_docs -> merge",
               "a block doc comment is copied verbatim (line %s) while merge() cuts declarations at blank lines (line %s): a blank line inside /** .. */ splits the declaration when a second type is merged into the file" % (verbatim, splits),
               fn["file"], verbatim[0])
    r.floor = 2
    return r


def variant_tag_rule(syn, prop, rule="C01.R5"):
    r = Result(rule, "StructAttr::from_variant hands the enum's tag to a variant only if the variant has named fields, the enum is internally tagged, and the variant is not itself untagged")
    fn = syn.fn("StructAttr::from_variant", "attr/struct.rs")
    if fn is None:
        r.fail(prop, "anchor-missing StructAttr::from_variant", "not found")
        return r
    sites = [e for e in S.events(fn, "call") if S.squash(e["func"]) == "Some" and "tag" in S.squash(e["args"][0]) and
             any(c["k"] == "field_init" and S.squash(c["field"]) == "tag" for c in e["ctx"])]
    if not sites:
        r.fail(prop, "anchor-missing variant tag", "from_variant never passes a tag", fn["file"], fn["line"])
    match_by_id = {e["id"]: e for e in S.events(fn, "match")}
    for e in sites:
        named = internally = False
        not_untagged = False
        for c in e["ctx"]:
            if c["k"] == "match":
                pat = S.squash(c["pat"])
                if "Fields::Named" in pat:
                    named = True
                    me = match_by_id.get(c["id"])
                    # an earlier arm of the same match takes untagged named variants away, or this arm has a guard
                    g = S.squash(c.get("guard") or "")
                    if g in ("!variant_attr.untagged",):
                        not_untagged = True
                    if me:
                        for a in me["arms"][:c["arm"]]:
                            if "Fields::Named" in S.squash(a["pat"]) and S.squash(a.get("guard") or "") == "variant_attr.untagged" and S.squash(a["body"]) == "None":
                                not_untagged = True
                if "Tagged::Internally" in pat:
                    internally = True
            elif c["k"] == "if":
                cond = S.squash(c["cond"])
                if (cond == "!variant_attr.untagged" and c["branch"] == "then") or (cond == "variant_attr.untagged" and c["branch"] == "else"):
                    not_untagged = True
        ok = named and internally and not_untagged
        r.inst(fn=fn["qual"], where="%s:%s" % (fn["file"], e["line"]), named_only=named, internally_only=internally, not_for_untagged_variant=not_untagged)
        if not ok:
            r.fail(prop, "variant-tag-condition StructAttr::from_variant",
                   "the tag is passed to the variant's struct body under conditions named=%s internally=%s not-untagged=%s: e.g. a #[serde(untagged)] struct variant of an internally tagged enum would be declared with the tag although serde omits it" % (named, internally, not_untagged),
                   fn["file"], e["line"])
    r.floor = 1
    return r


def struct_tag_first_rule(syn, prop, rule="C01.R4"):
    r = Result(rule, "for a struct-level tag (and internally tagged struct variants) named() emits the tag property before any field, quoted, with the type's name as string literal")
    fn = syn.fn("types::named::named", "named.rs")
    if fn is None:
        r.fail(prop, "anchor-missing named", "not found")
        return r
    tag_t = [e for e in templates(fn) if any(c["k"] == "if" and "attr . tag" in c["cond"] and c["branch"] == "then" for c in e["ctx"])]
    loops = [e for e in S.events(fn, "for")]
    ok = bool(tag_t) and bool(loops) and tag_t[0]["seq"] < loops[0]["seq"]
    lit = None
    if tag_t:
        fc = S.format_calls(tag_t[0]["tokens"])
        lit = S.squash(S.unquote(fc[0][0]) or "") if fc else None
        args = ["".join(S.flat(a)).lstrip("#") for a in fc[0][1]] if fc else None
        ok = ok and lit == '"{}":"{}",' and args == ["tag", "ts_name"] and any(c["k"] == "arg" and S.squash(c["of"]) == "formatted_fields.push" for c in tag_t[0]["ctx"])
    r.inst(fn=fn["qual"], tag_template=lit, before_field_loop=ok)
    if not ok:
        r.fail(prop, "struct-tag-shape named", "the tag property is not emitted first as `\"<tag>\": \"<name>\",`", fn["file"], fn["line"])
    r.floor = 1
    return r


# ------------------------------------------------------------------ shape tables (C01/C02/C14/C11)

def _enum_override_order_mir(crate, prop, r):
    """MIR: wherever enum_def produces the `never` of an enum without variants (a call of empty_enum, or a template with the
    literal "never"), the container's `type` and `as` have been tested and found absent"""
    from vlib import mirlib as M2, quotelib as Q2
    from rules.field_rules import _edge_constraints
    b = crate.ibody("types::r#enum::r#enum_def") or crate.ibody("types::r#enum::enum_def")
    if b is None:
        return None
    sites = [blk for blk, t in b.calls() if not b.is_cleanup(blk) and M2.fn_matches(t, r"r#enum::empty_enum$") and not t.get("inlined")]
    sites += [t.block for t in Q2.templates(b) if re.search(r'^"never" \. to_owned', t.text())]
    if not sites:
        return None
    ok = True
    for blk in sites:
        cons = _edge_constraints(b, blk)
        t_as = [v for s2, v in cons if re.search(r"EnumAttr\.type_as$", s2)]
        t_ov = [v for s2, v in cons if re.search(r"EnumAttr\.type_override$", s2)]
        ok = ok and 0 in t_as and 0 in t_ov
    return ok


def _enum_override_order(syn, prop, r, crate=None):
    if crate is not None:
        v = _enum_override_order_mir(crate, prop, r)
        if v is not None:
            r.inst(shape="empty enum", override_checked_before_never=v, decided_on="MIR: `never` is built only where EnumAttr.type_as and EnumAttr.type_override were found to be None")
            if not v:
                r.fail(prop, "enum-override-after-empty enum_def", "enum_def returns `never` for an enum without variants before it looks at the container-level `type`/`as`: `#[ts(as = \"Target\")] enum Marker {}` is declared `never` instead of Target's type", None, None)
            return
    # an enum without variants is `never` only if nothing replaces its definition: the container-level `type`/`as` come first
    ef = syn.fn("types::enum::r#enum_def", "types/enum.rs") or syn.fn("types::enum::enum_def", "types/enum.rs")
    pos = {}
    for e in (S.events(ef, "call") if ef else []):
        fnm = S.squash(e["func"])
        for key, pat in (("type", r"type_override_enum$"), ("as", r"type_as_enum$"), ("empty", r"^empty_enum$")):
            if re.search(pat, fnm) and key not in pos:
                pos[key] = (int(e["line"]), int(e["col"]))
    ok_order = all(k in pos for k in ("type", "as", "empty")) and pos["type"] < pos["empty"] and pos["as"] < pos["empty"]
    r.inst(shape="empty enum", override_checked_before_never=ok_order, positions={k: v[0] for k, v in pos.items()})
    if not ok_order:
        r.fail(prop, "enum-override-after-empty enum_def", "enum_def returns `never` for an enum without variants before it looks at the container-level `type`/`as`: `#[ts(as = \"Target\")] enum Marker {}` is declared `never` instead of Target's type",
               ef["file"] if ef else None, pos.get("empty", (None,))[0])


def enum_override_order_rule(syn, prop, rule, crate=None):
    r = Result(rule, "enum_def looks at the container-level `#[ts(type = ..)]` / `#[ts(as = ..)]` before it declares an enum without variants as `never`: `as` changes the presentation of every enum, the empty one included")
    _enum_override_order(syn, prop, r, crate)
    r.floor = 1
    return r


def struct_dispatch_rule(syn, prop, rule="C01.R6", crate=None):
    r = Result(rule, "type_def dispatches on the shape of the fields like serde's data model: named (non-empty or tagged) → object; empty named without tag → empty object; 0 unnamed → empty array; 1 unnamed → the inner type (newtype); n unnamed → tuple; unit → null; and each empty shape uses the narrowest TypeScript type")
    fn = syn.fn("types::type_def", "types/mod.rs")
    if fn is None:
        r.fail(prop, "anchor-missing type_def", "not found")
        return r
    calls = [e for e in S.events(fn, "call") if re.match(r"^(unit|named|newtype|tuple)::\w+$", S.squash(e["func"]))]
    got = {}
    for e in calls:
        shape = None
        n = None
        guard = None
        for c in e["ctx"]:
            if c["k"] != "match":
                continue
            pat = S.squash(c["pat"])
            sc = S.squash(c["scrut"])
            if sc == "fields":
                shape = "Named" if pat.startswith("Fields::Named") else "Unnamed" if pat.startswith("Fields::Unnamed") else "Unit" if pat.startswith("Fields::Unit") else pat
            elif sc.endswith(".len()"):
                n = pat
                guard = S.squash(c.get("guard") or "") or None
        got[(shape, n, guard)] = S.squash(e["func"])
    want = {("Named", "0", "attr.tag.is_none()"): "unit::empty_object", ("Named", "_", None): "named::named",
            ("Unnamed", "0", None): "unit::empty_array", ("Unnamed", "1", None): "newtype::newtype", ("Unnamed", "_", None): "tuple::tuple",
            ("Unit", None, None): "unit::null"}
    mir_dispatch = None
    if crate is not None:
        # the dispatch itself is decided on the MIR (tests that dominate each formatter call), not on the spelling of the match
        from rules.field_rules import dispatch_rule
        mir_dispatch = dispatch_rule(crate, prop, rule)
        r.instances += mir_dispatch.instances
        r.findings += mir_dispatch.findings
    for k, v in ({} if mir_dispatch is not None else want).items():
        ok = got.get(k) == v
        r.inst(shape=k[0], count=k[1], guard=k[2], dispatches_to=got.get(k), expected=v, ok=ok)
        if not ok:
            r.fail(prop, "struct-dispatch %s/%s" % (k[0], k[1]), "fields shape %s (count %s%s) is formatted by %s, expected %s" % (k[0], k[1], " if " + k[2] if k[2] else "", got.get(k), v), fn["file"], fn["line"])
    extra = set(got) - set(want) if mir_dispatch is None else set()
    for k in sorted(extra, key=str):
        r.fail(prop, "struct-dispatch-extra %s/%s" % (k[0], k[1]), "unexpected dispatch arm %s -> %s" % (k, got[k]), fn["file"], fn["line"])
    # narrowest types for the empty shapes
    lits = {"empty_object": "Record<string, never>", "empty_array": "never[]", "null": "null"}
    for name, lit in lits.items():
        f = syn.fn("types::unit::" + name, "types/unit.rs")
        found = None
        for e in (templates(f) if f else []):
            if any(c["k"] == "field_init" and S.squash(c["field"]) == "inline" for c in e["ctx"]):
                sl = S.string_lits(e["tokens"])
                found = S.unquote(sl[0]) if sl else None
        r.inst(shape=name, literal=found, expected=lit, ok=found == lit)
        if found is None:
            r.fail(prop, "anchor-missing empty-shape-literal %s" % name, "the literal unit::%s declares could not be read" % name, f["file"] if f else None, f["line"] if f else None)
        elif found != lit:
            r.fail(prop, "empty-shape-literal %s" % name, "unit::%s declares %r, expected %r" % (name, found, lit), f["file"] if f else None, f["line"] if f else None)
    ee = syn.fn("types::enum::empty_enum", "types/enum.rs")
    found = None
    for e in (templates(ee) if ee else []):
        if any(c["k"] == "field_init" and S.squash(c["field"]) == "inline" for c in e["ctx"]):
            sl = S.string_lits(e["tokens"])
            found = S.unquote(sl[0]) if sl else None
    r.inst(shape="empty enum", literal=found, expected="never", ok=found == "never")
    if found is None:
        r.fail(prop, "anchor-missing empty-shape-literal empty_enum", "the literal an enum without variants declares could not be read", ee["file"] if ee else None, ee["line"] if ee else None)
    elif found != "never":
        r.fail(prop, "empty-shape-literal empty_enum", "an enum without variants declares %r, expected `never`" % found, ee["file"] if ee else None, ee["line"] if ee else None)
    # a skipped single field: serde_derive treats a newtype *variant* with a skipped field as a unit variant, but for a newtype
    # *struct* it ignores `skip` altogether (ser.rs::serialize_newtype_struct never looks at it): `struct N(#[serde(skip)] i32)`
    # serialises as the inner value.  newtype() is shared by both routes.
    nf = syn.fn("types::newtype::newtype", "types/newtype.rs")
    sd = syn.fn("types::struct_def", "types/mod.rs")
    skip_null = [e for e in (S.events(nf, "call") if nf else []) if S.squash(e["func"]).endswith("unit::null")
                 and any(c["k"] == "if" and S.squash(c["cond"]) == "field_attr.skip" and c.get("branch", "then") == "then" for c in e["ctx"])]
    struct_route = bool(sd) and any(S.squash(e["func"]) == "type_def" for e in S.events(sd, "call")) and got.get(("Unnamed", "1", None)) == "newtype::newtype"
    r.inst(shape="newtype struct with skipped field", declares_null=bool(skip_null), reached_from_struct_def=struct_route, serde="the inner value (skip is ignored on newtype structs)")
    if skip_null and struct_route:
        r.fail(prop, "newtype-struct-skip-null types::newtype::newtype",
               "newtype() declares `null` for a skipped field also when it formats a newtype *struct*: `struct N(#[serde(skip)] i32)` is declared `null`, serde_json::to_string(&N(1)) is `1`",
               nf["file"], skip_null[0]["line"])
    # serde decides "tuple or newtype" by the number of fields *written*, before looking at `skip`: a tuple struct or tuple
    # variant whose fields are all skipped is still an (empty) array, `[]`
    tf0 = syn.fn("types::tuple::tuple", "types/tuple.rs")
    unit_calls = [e for e in (S.events(tf0, "call") if tf0 else []) if re.search(r"unit::(null|empty_object|empty_array)$", S.squash(e["func"]))]
    r.inst(shape="tuple with every field skipped", declared_by_tuple_template=not unit_calls, serde="[]")
    if unit_calls:
        r.fail(prop, "tuple-all-skipped-not-array types::tuple::tuple",
               "tuple() hands a tuple whose fields are all skipped to %s: `struct T(#[serde(skip)] A, #[serde(skip)] B)` is declared `null` where serde writes `[]`" % S.squash(unit_calls[0]["func"]),
               tf0["file"], unit_calls[0]["line"])
    _enum_override_order(syn, prop, r, crate)
    # tuple and newtype shapes
    tf = syn.fn("types::tuple::tuple", "types/tuple.rs")
    ok = False
    for e in (templates(tf) if tf else []):
        fc = S.format_calls(e["tokens"])
        if fc and S.unquote(fc[0][0]) == "[{}]":
            # the single argument joins the element texts with ", " (method form or `<[String]>::join(&[..], ", ")`)
            toks = [t for a in fc[0][1] for t in S.flat(a) if isinstance(t, str)]
            lits = [S.unquote(t) for t in toks if t.startswith('"')]
            ok = "join" in toks and bool(lits) and lits[-1] == ", " and "formatted_fields" in toks
    if not ok and crate is not None:
        # helpers / sub-templates: look at the templates recovered from the MIR of tuple(), parts spliced in
        from vlib import quotelib as Q2
        for ib, tpls, keep in Q2.function_templates(crate, "types::tuple::tuple"):
            for t in tpls:
                for lit, args in S.format_calls(Q2.expanded(ib, t, tpls)):
                    if S.unquote(lit) == "[{}]":
                        toks = [x for a in args for x in S.flat(a) if isinstance(x, str)]
                        lits = [S.unquote(x) for x in toks if x.startswith('"')]
                        ok = ok or ("join" in toks and bool(lits) and lits[-1] == ", ")
    r.inst(shape="tuple struct", template='"[{}]" over elements joined by ", "', ok=ok)
    if not ok:
        r.fail(prop, "tuple-shape", "tuple structs are not declared as `[a, b, ..]`", tf["file"] if tf else None, tf["line"] if tf else None)
    r.floor = 11
    return r


def named_composition_rule(syn, prop, rule="C14.R7"):
    r = Result(rule, "named(): for every (number of own fields, number of flattened fields) cell the declared form is `{ fields }`, the flattened member(s) joined by ` & `, or `{ fields } & flattened`; inline() and inline_flattened() agree on every cell except the lonely flattened member, which inline() un-parenthesises")
    fn = syn.fn("types::named::named", "named.rs")
    if fn is None:
        r.fail(prop, "anchor-missing named", "not found")
        return r
    tables = {}
    for e in S.events(fn, "match"):
        if S.squash(e["scrut"]) == "(formatted_fields.len(),flattened_fields.len())":
            which = [S.squash(c["pat"]) for c in e["ctx"] if c["k"] == "let"]
            if which:
                tables[which[-1]] = e
    for nm in ("inline", "inline_flattened"):
        if nm not in tables:
            r.fail(prop, "anchor-missing named.%s table" % nm, "no `let %s = match (formatted_fields.len(), flattened_fields.len())`" % nm, fn["file"], fn["line"])
    if len(tables) < 2:
        return r

    def classify(body):
        b = S.squash(body)
        if b == 'quote!("{}".to_owned())' or 'quote!("{ }".to_owned())' in b.replace("  ", " ") or '"{}"' in b and ".to_owned()" in b and "format!" not in b:
            return "empty-object"
        if 'format!("{{{}}}",#fields)' in b:
            return "object"
        if 'format!("{{{}}}&{}",#fields,#flattened)' in b:
            return "object&flattened"
        if b == "quote!(#flattened)":
            return "flattened"
        if ("starts_with('(')" in b or "strip_prefix('(')" in b) and "#flattened" in b:
            return "flattened-unparenthesised"
        return "?" + b[:40]

    cells = [("0", "0"), ("n", "0"), ("0", "1"), ("0", "m"), ("n", "m")]
    expect = {("0", "0"): ("empty-object", "empty-object"), ("n", "0"): ("object", "object"), ("0", "1"): ("flattened-unparenthesised", "flattened"),
              ("0", "m"): ("flattened", "flattened"), ("n", "m"): ("object&flattened", "object&flattened")}
    for cell in cells:
        got = []
        for nm in ("inline", "inline_flattened"):
            e = tables[nm]
            sel = None
            for a in e["arms"]:
                el = S.tuple_elems(a["pat"])
                if len(el) != 2:
                    continue
                def m(p, v):
                    p = S.squash(p)
                    if p == "_":
                        return True
                    if p == "0":
                        return v == "0"
                    if p == "1":
                        return v == "1"
                    return False
                if m(el[0], cell[0]) and m(el[1], cell[1]):
                    sel = a
                    break
            got.append(classify(sel["body"]) if sel else None)
        ok = tuple(got) == expect[cell]
        r.inst(own_fields=cell[0], flattened=cell[1], inline=got[0], inline_flattened=got[1], expected=expect[cell], ok=ok)
        if not ok:
            r.fail(prop, "named-composition (%s,%s)" % cell, "for %s own / %s flattened members named() builds inline=%s inline_flattened=%s, expected %s" % (cell[0], cell[1], got[0], got[1], expect[cell]),
                   fn["file"], fn["line"])
    # member separators
    seps = {S.squash(e["pat"]): e["init"] for e in S.events(fn, "let") if S.squash(e["pat"]) in ("fields", "flattened")}
    ok = '" "' in seps.get("fields", "") and '" & "' in seps.get("flattened", "")
    r.inst(field_separator_and_flatten_separator=ok)
    if not ok:
        r.fail(prop, "named-separators", "own fields must be joined by a space and flattened members by ` & `", fn["file"], fn["line"])
    r.floor = 6
    return r


def output_path_rule(syn, prop, rule="C11.R4"):
    r = Result(rule, "the generated output_path(): `<name>.ts` without export_to; with export_to ending in `/` the given directory followed by `<name>.ts`; otherwise the given path verbatim")
    fn = syn.fn("DerivedTS::into_impl", "macros/src/lib.rs")
    if fn is None:
        r.fail(prop, "anchor-missing into_impl", "not found")
        return r
    some = none = None
    for e in templates(fn):
        for c in e["ctx"]:
            if c["k"] == "match" and S.squash(c["scrut"]) == "&self.export_to":
                if S.squash(c["pat"]).startswith("Some"):
                    some = e
                elif S.squash(c["pat"]) == "None":
                    none = e
    if not some or not none:
        r.fail(prop, "anchor-missing output_path template", "no `match &self.export_to { Some(..) => quote!.., None => quote!.. }`", fn["file"], fn["line"])
        return r
    fcn = S.format_calls(none["tokens"])
    ok_none = len(fcn) == 1 and S.unquote(fcn[0][0]) == "{}.ts" and ["".join(S.flat(a)) for a in fcn[0][1]] == ["#ts_name"]
    r.inst(case="no export_to", template=[S.unquote(l) for l, _ in fcn], ok=ok_none)
    if not ok_none:
        r.fail(prop, "output-path-default", "without export_to the path must be `<TypeScript name>.ts`", fn["file"], none["line"])
    txt = " ".join(S.flat(some["tokens"]))
    fcs = S.format_calls(some["tokens"])
    lits = [S.unquote(l) for l, _ in fcs]
    cond = "if dir_or_file . ends_with ( '/' )" in txt
    dir_form = any(l == "{dir_or_file}{}.ts" and ["".join(S.flat(a)) for a in args] == ["#ts_name"] for (l0, args), l in zip(fcs, lits))
    file_form = "{dir_or_file}" in lits
    # order: directory form in the then-branch
    then_first = txt.find("{dir_or_file}{}.ts") < txt.find('"{dir_or_file}"') if dir_form and file_form else False
    ok = cond and dir_form and file_form and then_first
    r.inst(case="export_to", condition_on_trailing_slash=cond, directory_form=dir_form, file_form=file_form, ok=ok)
    if not ok:
        r.fail(prop, "output-path-export_to", "export_to must yield `<dir>/<name>.ts` exactly when it ends in `/` and the path verbatim otherwise (templates %s)" % lits, fn["file"], some["line"])
    r.floor = 2
    return r


def optional_table_rule(syn, prop, rule="C02.R6"):
    r = Result(rule, "optional-field table of named::format_field: a field-level `optional` wins and carries the compile-time IsOption check; a struct-level `optional_fields` emits `?` only under `IS_OPTION`; otherwise no marker; and the field's type is replaced by `OptionInnerType` exactly when the marker is emitted without `nullable`")
    fn = syn.fn("types::named::format_field", "named.rs")
    if fn is None:
        r.fail(prop, "anchor-missing format_field", "not found")
        return r
    tab = [e for e in S.events(fn, "match") if S.squash(e["scrut"]) == "(struct_optional,field_attr.optional)"]
    if not tab:
        r.fail(prop, "anchor-missing optional table", "no `match (struct_optional, field_attr.optional)`", fn["file"], fn["line"])
        return r
    e = tab[0]
    def cls(p):
        p = S.squash(p)
        if p.startswith("Optional::Optional"):
            return "opt", ("nullable" in p)
        if p.startswith("Optional::NotOptional"):
            return "not", False
        return "any", False

    def body_kind(a):
        body = S.squash(a["body"])
        kind = "IsOption-check" if "IsOption" in body and '"?"' in body else "IS_OPTION-test" if "IS_OPTION" in body and '"?"' in body else "none" if 'quote!("")' in body else "?"
        nullable = "bound" if re.search(r",nullable,?\)$", body) else "true" if body.endswith(",true)") else "false" if body.endswith(",false)") else "?"
        return kind, nullable

    want = {("opt", "opt"): ("IsOption-check", "field"), ("not", "opt"): ("IsOption-check", "field"),
            ("opt", "not"): ("IS_OPTION-test", "struct"), ("not", "not"): ("none", "true")}
    bad = []
    cells = {}
    for cell, exp in sorted(want.items()):
        got = None
        for a in e["arms"]:
            if a.get("guard"):
                got = ("guarded", "?")
                break
            for alt in S.split_top(a["pat"], "|"):
                el = S.tuple_elems(alt)
                if len(el) == 1 and cls(el[0])[0] == "any":
                    el = ["_", "_"]
                if len(el) != 2:
                    continue
                cs = [cls(x) for x in el]
                if all(c[0] in ("any", want_c) for c, want_c in zip(cs, cell)):
                    kind, nul = body_kind(a)
                    if nul == "bound":
                        src = [n for n, c in zip(("struct", "field"), cs) if c[1]]
                        nul = src[0] if len(src) == 1 else "ambiguous"
                    got = (kind, nul)
                    break
            if got:
                break
        cells["struct=%s,field=%s" % cell] = got
        if got != exp:
            bad.append((cell, got, exp))
    r.inst(fn=fn["qual"], cells={k: list(v) if v else None for k, v in cells.items()}, ok=not bad)
    for cell, got, exp in bad:
        r.fail(prop, "optional-table format_field struct=%s field=%s" % cell,
               "for (struct optional_fields=%s, field optional=%s) the table yields marker/nullable %s, expected %s (field-level wins with the IsOption check; struct-level is conditional on IS_OPTION; default has no marker and keeps `| null`)" % (cell[0], cell[1], got, exp),
               fn["file"], e["line"])
    # type replacement
    lets = [x for x in S.events(fn, "let") if S.squash(x["pat"]) == "ty" and S.squash(x["init"]).startswith("ifnullable")]
    ok2 = bool(lets) and S.squash(lets[0]["init"]).startswith("ifnullable{ty}else{parse_quote!{<#tyas#crate_rename::TS>::OptionInnerType}}")
    r.inst(fn=fn["qual"], type_selection=(lets[0]["init"][:90] if lets else None), ok=ok2)
    if not ok2:
        r.fail(prop, "optional-type-selection format_field", "the field type must stay `ty` when nullable and become <ty as TS>::OptionInnerType otherwise", fn["file"], fn["line"])
    r.floor = 2
    return r


def export_test_rule(syn, prop, rule="C11.R5", crate=None):
    from vlib import quotelib as Q
    r = Result(rule, "the template of the generated export test, with the token streams it interpolates spliced in (MIR): it is `#[cfg(test)] #[test]`, calls `export_all()` (type plus dependencies) on `<Item<..> as TS>` with the item's own name and a list of generic arguments, and consumes the Result with expect/unwrap so that a failed export fails the test; which arguments stand in for the type parameters is decided with the other emitters of generic parameters")
    found = []
    for ib, tpls, keep in Q.function_templates(crate, "DerivedTS::generate_export_test"):
        for t in tpls:
            if "# [ test ]" in t.text() or "export_all" in t.text():
                found.append((ib, t, " ".join(S.flat(Q.expanded(ib, t, tpls)))))
    if not found:
        r.fail(prop, "anchor-missing generate_export_test", "no template of a `#[test]` function found in generate_export_test")
        r.floor = 1
        return r
    for ib, t, txt in found:
        attrs = "# [ cfg ( test ) ]" in txt and "# [ test ]" in txt
        m = re.search(r"< # (\w+) < (.*?) > as # \w+ :: TS > :: export_all \( \) \. (expect \(|unwrap \( \))", txt)
        recv_ty = None
        if m:
            nm = m.group(1)
            recv_ty = next((ty for n2, _, ty in t.interps if n2 == nm), None)
        ok = attrs and m is not None and "#" in (m.group(2) if m else "") and (recv_ty is None or "Ident" in recv_ty)
        r.inst(fn=ib.path, where="%s:%s" % (t.file, t.line), test_attributes=attrs, calls=(m.group(0)[:80] if m else None), ok=ok)
        if not ok:
            r.fail(prop, "export-test-shape generate_export_test", "the generated export test is not `#[cfg(test)] #[test] fn ..() { <Item<..> as TS>::export_all().expect(..) }` (it reads: %s)" % txt[:160], t.file, t.line)
    r.floor = 1
    return r


def type_walker_rule(syn, prop, rule, qual, file_suffix, leaf, leaf_test, desc):
    """A recursive walker over syn::Type must visit every type constructor that a field type or an
    `as` type is built from: each constructor is matched by an arm that recurses, the path arm
    descends into angle-bracketed arguments, and the leaf arm does the walker's job."""
    r = Result(rule, desc)
    fn = syn.fn(qual, file_suffix)
    if fn is None:
        r.fail(prop, "anchor-missing " + qual, "walker not found")
        return r
    name = qual.split("::")[-1]
    ms = [e for e in S.events(fn, "match") if S.squash(e["scrut"]) == "ty"]
    if not ms:
        r.fail(prop, "anchor-missing %s match" % name, "no `match ty`", fn["file"], fn["line"])
        return r
    m = ms[0]
    arms = {}
    for a in m["arms"]:
        for alt in S.split_top(a["pat"], "|"):
            mm = re.match(r"\s*Type\s*::\s*(\w+)", alt)
            if mm:
                arms.setdefault(mm.group(1), []).append((a, alt))

    def args_descent(body, helpers):
        # the path arm reaches the generic arguments either inline or through a helper; somewhere on
        # that route a `GenericArgument::Type(..)` pattern must lead back into the walker
        scopes = [fn] + [hf for hf in (syn.fn(h, file_suffix) for h in set(helpers) if h != name) if hf]
        rec = False
        for sc in scopes:
            for e in sc["events"]:
                if e["kind"] == "match":
                    for a2 in e["arms"]:
                        if re.match(r"(G|GenericArgument)::Type\(", S.squash(a2["pat"])) and name + "(" in S.squash(a2["body"]):
                            rec = True
                if e["kind"] == "if" and re.search(r"let(G|GenericArgument)::Type\(", S.squash(e.get("cond", ""))):
                    rec = rec or any(c["kind"] == "call" and name in S.squash(json.dumps({k: v for k, v in c.items() if k != "ctx"}))
                                     and any(x.get("id") == e["id"] for x in c["ctx"]) for c in sc["events"])
        return rec and "AngleBracketed" in "".join(S.squash(json.dumps(sc["events"])) for sc in scopes)

    for ctor in ("Array", "Group", "Paren", "Reference", "Slice", "Tuple", "Path", "Path/qself"):
        ents = arms.get(ctor.split("/")[0], [])
        rec = False
        shown = None
        for a, alt in ents:
            body = S.squash(a["body"])
            pat = S.squash(alt)
            helpers = re.findall(r"\b(%s\w*)\(" % name, body)
            if not helpers:
                continue
            if ctor == "Path":
                if "qself:Some" in pat:
                    continue
                ok = args_descent(body, helpers)
            elif ctor == "Path/qself":
                # `<T as Trait>::Assoc`, which is also how the derive itself spells `<F as TS>::OptionInnerType`
                ok = "qself" in pat and "qself:None" not in pat and "qself" in body.replace("QSelf", "")
                ok = ok or ("qself:Some(" in pat and re.search(r"%s\([^;]*\b(qself|ty)\b" % name, body) is not None)
            else:
                ok = True
            if ok:
                rec, shown = True, alt
                break
        r.inst(fn=fn["qual"], constructor=ctor, arm=(shown[:70] if shown else (ents[0][1][:70] if ents else None)), recurses=rec)
        if not rec:
            r.fail(prop, "walker-coverage %s Type::%s" % (name, ctor),
                   "%s does not descend into Type::%s, so a type nested in that constructor is not %s" % (name, ctor, leaf),
                   fn["file"], m["line"])
    if name == "replace_underscore":
        # `<Wire as Encode<_>>::Repr`, `a::B<_>::C`: a `_` can sit in the arguments of any segment
        loops = [e for e in fn["events"] if e["kind"] in ("for",) and "path.segments" in S.squash(e.get("iter", e.get("expr", "")))]
        partial = [e for e in S.events(fn, "mcall") if S.squash(e["method"]) in ("last", "last_mut", "first", "first_mut") and "segments" in S.squash(e["recv"])]
        allseg = bool(loops) and not partial
        r.inst(fn=fn["qual"], constructor="Path (every segment)", recurses=allseg)
        if not allseg:
            r.fail(prop, "walker-coverage %s Type::Path/segments" % name,
                   "%s looks at one segment of a path only: in `#[ts(as = \"<Wire as Encode<_>>::Repr\")]` the `_` sits in a segment that is not the last one and stays in the generated code (E0121/E0283)" % name,
                   fn["file"], m["line"])
    ok_leaf = leaf_test(fn, arms)
    r.inst(fn=fn["qual"], leaf=leaf, ok=ok_leaf)
    if not ok_leaf:
        r.fail(prop, "walker-leaf %s" % name, "%s: the leaf action (%s) is not performed" % (name, leaf), fn["file"], m["line"])
    r.floor = 9
    return r


def _infer_leaf(fn, arms):
    return any(S.squash(a["body"]).rstrip(",") == "*ty=with.clone()" for a, _ in arms.get("Infer", []))


def _param_leaf(fn, arms):
    for a, _ in arms.get("Path", []):
        body = re.sub(r"//[^\n]*", "", S.squash(a["body"]))
        if re.search(r"ifis_type_param\(&first\.ident\)\{out\.insert\(ty\);return;?\}", body) and "path.segments.first()" in body:
            return True
    return False


def underscore_walker_rule(syn, prop, rule="C14.R8"):
    return type_walker_rule(syn, prop, rule, "replace_underscore", "attr/field.rs", "replaced by the field's own type", _infer_leaf,
                            "`_` in `#[ts(as = \"..\")]` stands for the field's type: replace_underscore substitutes it at every depth (array, none-delimited group from a `$t:ty` fragment, paren, reference, slice, tuple, path arguments)")


def where_clause_rule(syn, prop, rule="C16.R11"):
    """what the generated impl mentions under `as TS`, the where-clause bounds"""
    r = Result(rule, "the generated where-clause bounds (a) every type parameter that is not made concrete - name() mentions all of them, whether a field uses them or not - and (b) a projection `<X as Tr>::Assoc` itself when X mentions a type parameter, besides the parameters inside X (the derive writes `<F as TS>::OptionInnerType` for optional fields)")
    wf = syn.fn("generate_where_clause", "macros/src/lib.rs")
    uf = syn.fn("used_type_params", "macros/src/lib.rs")
    if wf is None or uf is None:
        r.fail(prop, "anchor-missing generate_where_clause", "not found")
        return r
    txt = S.squash(json.dumps([{k: v for k, v in e.items() if k != "ctx"} for e in wf["events"]]))
    all_params = "type_params()" in txt and "concrete" in txt and re.search(r"contains_key", txt) is not None and any("concrete" in S.squash(p["name"]) or "concrete" in S.squash(p["ty"]) for p in wf["params"])
    r.inst(fn=wf["qual"], bounds_every_named_parameter=bool(all_params))
    if not all_params:
        r.fail(prop, "where-clause-omits-unused-params generate_where_clause",
               "only parameters found in field types are bounded, but name() uses `<T as TS>::name()` for every non-concrete parameter: `struct H<T> { id: u32, #[ts(skip)] m: PhantomData<T> }` does not compile (E0277 `T: TS`)",
               wf["file"], wf["line"])
    ms = [e for e in S.events(uf, "match") if S.squash(e["scrut"]) == "ty"]
    proj = False
    for a in (ms[0]["arms"] if ms else []):
        pat = S.squash(a["pat"])
        if "Type::Path" in pat and "qself" in pat and "qself:None" not in pat:
            body = S.squash(a["body"])
            proj = re.search(r"\.insert\(ty\)", body) is not None
    # ... but only a projection whose self type *is* a parameter (or a parameter's associated type).  For `<Vec<T> as TS>::X` the
    # bound on T lets rustc normalise the projection; an explicit where-bound on it makes rustc pick the where-clause candidate
    # and then fail to prove it at the impl's own uses (E0277), so such a bound turns a compiling derive into a failing one.
    over = False
    for a in (ms[0]["arms"] if ms else []):
        pat = S.squash(a["pat"])
        if "Type::Path" in pat and "qself" in pat and "qself:None" not in pat:
            body = S.squash(a["body"])
            guarded = re.search(r"if\w+\.contains\(&?qself\.ty", body) is not None or re.search(r"ifis_type_param|matches!\(.*qself\.ty", body) is not None
            over = proj and not guarded
    r.inst(fn=uf["qual"], projection_bound_limited_to_parameter_self_types=not over)
    if over:
        r.fail(prop, "where-clause-bounds-normalisable-projection used_type_params",
               "every projection over anything that mentions a parameter gets a bound, also `<Vec<T> as TS>::OptionInnerType`: `#[ts(optional_fields)] struct P<T> { rest: Vec<T> }` then fails with E0277 although `T: TS` is all that is needed",
               uf["file"], uf["line"])
    r.inst(fn=uf["qual"], bounds_projection_itself=proj)
    if not proj:
        r.fail(prop, "where-clause-omits-projection used_type_params",
               "for `<X as Tr>::Assoc` only the parameters inside X are bounded, not the projection: `#[ts(optional_fields)] struct O<T> { t: T }` renders `<<T as TS>::OptionInnerType as TS>::name()` and does not compile",
               uf["file"], uf["line"])
    r.floor = 2
    return r


def type_param_walker_rule(syn, prop, rule="C16.R8"):
    return type_walker_rule(syn, prop, rule, "used_type_params", "macros/src/lib.rs", "given its `TS` bound", _param_leaf,
                            "the generated where-clause bounds every type parameter a field uses, at every depth (array, none-delimited group from a `$t:ty` fragment, paren, reference, slice, tuple, path arguments)")


def object_merge_rule(syn, prop, rule):
    """named() rewrites `{ a, } & { b, }` into `{ a, b, }` by a textual replace over the whole inline
    string, which also contains the inlined types of the fields.  The rewrite is only sound where the
    left object's last member is terminated by `,`; some emitted objects are not (`{ "tag": "V" }` of an
    internally tagged enum, `{ [key in K]?: V }` of a map), so the pattern itself must demand the comma."""
    r = Result(rule, "the `{ .. } & { .. }` simplification in named() only merges an object whose last member ends in `,` (the pattern is anchored on the comma), because unterminated object literals are emitted elsewhere and reach this text through inlined field types")
    fn = syn.fn("types::named::named", "named.rs")
    if fn is None:
        r.fail(prop, "anchor-missing named()", "not found")
        return r
    # inventory of emitted objects `{ .. }` followed by an intersection whose last member has no comma
    unterminated = []
    for f in syn.fns_in(""):
        if not f["file"].startswith("macros/src/types/") and not f["file"].startswith("ts-rs/src/lib.rs"):
            continue
        for e in f["events"]:
            if e["kind"] != "macro":
                continue
            for lit in S.string_lits(e.get("tokens") or []):
                u = S.unquote(lit)
                if u is None:
                    continue
                for mm in re.finditer(r"(\S)\s*\}\}(\s*&|$)", u):
                    if mm.group(1) not in ",}" and not u[:mm.start(1) + 1].endswith("{}") and "{{" in u:
                        unterminated.append((f["qual"], u))
    unterminated = sorted(set(unterminated))
    pats = []
    for e in templates(fn):
        fl = S.flat(e["tokens"])
        for i, t in enumerate(fl):
            if t == "replace" and i >= 1 and fl[i - 1] == "." and i + 2 < len(fl) and fl[i + 1] == "(":
                lits = [x for x in fl[i + 2:i + 6] if isinstance(x, str) and x.startswith('"')]
                if len(lits) >= 2:
                    pats.append((S.unquote(lits[0]), S.unquote(lits[1]), e["line"]))
    if not pats:
        r.inst(fn=fn["qual"], merges=0, unterminated_objects=len(unterminated), ok=True)
    for pat, rep, line in pats:
        if "} & {" not in pat:
            continue
        ok = (not unterminated) or (pat.lstrip().startswith(",") and rep.lstrip().startswith(","))
        r.inst(fn=fn["qual"], pattern=pat, replacement=rep, unterminated_objects=[u for _, u in unterminated][:4], ok=ok)
        if not ok:
            r.fail(prop, "object-merge-unanchored named",
                   "the simplification replaces %r by %r anywhere in the inline text; an inlined field type such as %r has no `,` before ` }`, so its last member is fused with the next object's first member (`{ \"t\": \"V\" a: number, }`)" % (pat, rep, unterminated[0][1]),
                   fn["file"], line)
    r.floor = 1
    return r


def paren_strip_rule(syn, prop, rule):
    """`(A | B)` may lose its parentheses when it stands alone, `(A | B) & (C | D)` may not; both begin with
    `(` and end with `)`, so a guard that looks only at the two ends cannot tell them apart."""
    r = Result(rule, "wherever generated code strips an enclosing `( )` from assembled type text, the guard inspects the interior (is the first parenthesis closed by the last one?), not only the first and last character")
    n = 0
    for fn in syn.fns_in("macros/src/types/") + syn.fns_in("macros/src/lib.rs") + syn.fns_in("macros/src/utils.rs"):
        for e in templates(fn):
            fl = [t for t in S.flat(e["tokens"]) if isinstance(t, str)]
            txt = " ".join(fl)
            strips = ("strip_prefix ( '('" in txt and "strip_suffix ( ')'" in txt) or \
                     (re.search(r"\[ 1 \.\. .{0,60}len \( \) - 1 \]", txt) is not None and ("'('" in txt or "'('" in txt))
            if not strips:
                continue
            n += 1
            interior = any(t in fl for t in ("chars", "char_indices", "bytes"))
            r.inst(fn=fn["qual"], line=e["line"], strips_enclosing_parens=True, guard_inspects_interior=interior)
            if not interior:
                r.fail(prop, "paren-strip-ends-only %s" % fn["qual"].split("::")[-1],
                       "the enclosing parentheses are removed whenever the text starts with `(` and ends with `)`; `(A | B) & (C | D)` (a struct flattening two enums, itself the only flattened field of another struct) becomes `A | B) & (C | D`",
                       fn["file"], e["line"])
    r.stats["strip_sites"] = n
    r.floor = 0
    return r


def deps_emission_rule(syn, crate, prop, rule):
    """what was recorded is what is visited: the generated `visit_dependencies` gets one call per recorded entry"""
    from vlib import mirlib as M
    r = Result(rule, "every entry recorded in `Dependencies` is emitted into the generated visit_dependencies(): the set's iterator reaches the `#(#lines;)*` repetition without an adapter that can drop entries, and each kind of entry has its visitor call (Transitive -> visit_dependencies(v), Generics -> visit_generics(v), Type -> v.visit::<T>())")
    b = crate.body("<deps::Dependencies as quote::ToTokens>::to_tokens")
    fn = syn.fn("<Dependency as ToTokens>::to_tokens", "deps.rs")
    if b is None or fn is None:
        r.fail(prop, "anchor-missing Dependencies::to_tokens", "not found")
        return r
    DROPPERS = r"Iterator::(filter|filter_map|skip|skip_while|take|take_while|step_by|flat_map|map_while|find|nth|last|min|max|reduce|fuse|zip|scan)$|slice::<impl \[T\]>::(get|split_at|first|last)$|dedup|retain|truncate|drain"
    iters = [t for blk, t in b.calls() if not b.is_cleanup(blk) and M.fn_matches(t, r"collections::HashSet::<.*>::iter$", r"IntoIterator>::into_iter$", r"::iter$")]
    drops = [(t, M.user_span(t["span"])) for blk, t in b.calls() if not b.is_cleanup(blk) and M.fn_matches(t, DROPPERS)]
    branches = sum(1 for blk in range(b.n) if not b.is_cleanup(blk) and b.term(blk)["k"] == "switch")
    r.inst(fn=b.path, iterates_recorded_set=len(iters), dropping_adapters=[t["fn"]["path"] for t, _ in drops])
    if not iters:
        r.fail(prop, "anchor-missing dependency iteration", "to_tokens does not iterate the recorded set", b.file(), b.line())
    for t, (f, l) in drops:
        r.fail(prop, "dependency-entries-dropped Dependencies::to_tokens",
               "%s between the recorded set and the emitted calls: a recorded dependency can be left out of visit_dependencies(), so export_all() does not reach it" % t["fn"]["path"].split("::")[-1], f, l)
    # calls into local predicates on entries (a hand-written filter) show up as calls to crate functions on Dependency
    for blk, t in b.calls():
        if b.is_cleanup(blk) or not t.get("fn"):
            continue
        p = t["fn"]["path"]
        if p.startswith("deps::") and not p.endswith("to_tokens"):
            f, l = M.user_span(t["span"])
            r.fail(prop, "dependency-entries-dropped Dependencies::to_tokens", "to_tokens consults %s before emitting an entry" % p, f, l)
    want = {"Dependency::Transitive": "< # ty as # crate_rename :: TS > :: visit_dependencies ( v )",
            "Dependency::Generics": "< # ty as # crate_rename :: TS > :: visit_generics ( v )",
            "Dependency::Type": "v . visit :: < # ty > ( )"}
    from rules.field_rules import deps_kind_templates
    _, per_kind = deps_kind_templates(crate)
    if not any(per_kind.get(k) for k in want):
        # no template could be tied to any kind of entry (the kind is turned into data first - a method name, a flag - and the
        # tokens are written from that): which call an entry becomes is not read off the templates
        r.inst(fn=fn["qual"], note="no emitted call could be tied to a kind of entry: undecided")
        r.fail(prop, "anchor-missing dependency emission per kind", "the templates of the dependency visitor are not chosen by a match on the kind of entry", fn["file"], fn["line"])
        want = {}
    for key, tpl in want.items():
        got = per_kind.get(key)       # read from MIR: helpers spliced in, independent of arm order and variable names
        ok = got is not None and S.squash(got) == S.squash(tpl)
        r.inst(fn=fn["qual"], entry=key, emits=got, ok=ok)
        if not ok:
            r.fail(prop, "dependency-kind-not-visited %s" % key, "a recorded %s entry must be emitted as `%s`, found %r" % (key, tpl, got), fn["file"], fn["line"])
    r.floor = 4
    return r


def docs_unconditional_rule(crate, prop, rule="C15.R5"):
    """doc comments are read for every item, variant and field: no flag, attribute or cargo feature decides whether"""
    from vlib import mirlib as M
    r = Result(rule, "in every `from_attrs` of an attribute kind that carries docs (struct, enum, field) each non-error path from entry to return passes the call to parse_docs: neither `skip`, nor the `serde-compat` feature test, nor any other condition decides whether documentation is read")
    for x in ("StructAttr", "EnumAttr", "FieldAttr"):
        cands = [b for b in crate.bodies if b.path.endswith("%s::from_attrs" % x)]
        if not cands:
            r.fail(prop, "anchor-missing %s::from_attrs" % x, "not found")
            continue
        b = cands[0]
        def reads_docs_always(hb):
            d = {blk for blk, t2 in hb.calls() if not hb.is_cleanup(blk) and M.fn_matches(t2, r"utils::parse_docs$")}
            e = {blk for blk, t2 in hb.calls() if not hb.is_cleanup(blk) and M.fn_matches(t2, r"FromResidual")} | M.error_blocks(hb)
            rs = [blk for blk in range(hb.n) if not hb.is_cleanup(blk) and hb.term(blk)["k"] == "return"]
            return bool(d) and hb.all_paths_pass(0, d | e, rs)
        docs = {blk for blk, t in b.calls() if not b.is_cleanup(blk) and M.fn_matches(t, r"utils::parse_docs$")}
        # a helper of the crate that reads the docs on each of its own success paths counts as reading them
        docs |= {blk for blk, t in b.calls() if not b.is_cleanup(blk) and any(hb.kind in ("Fn", "AssocFn") and reads_docs_always(hb) for hb in crate.call_targets(b, t, ()))}
        errs = {blk for blk, t in b.calls() if not b.is_cleanup(blk) and M.fn_matches(t, r"FromResidual")}
        rets = [blk for blk in range(b.n) if not b.is_cleanup(blk) and b.term(blk)["k"] == "return"]
        ok = bool(docs) and b.all_paths_pass(0, docs | errs, rets)
        r.inst(fn=b.path, parse_docs_calls=len(docs), on_every_success_path=ok)
        if not docs:
            r.fail(prop, "docs-not-read %s::from_attrs" % x, "from_attrs never calls parse_docs", b.file(), b.line())
        elif not ok:
            r.fail(prop, "docs-read-conditionally %s::from_attrs" % x,
                   "a path through from_attrs returns Ok without having called parse_docs: under that condition (a flag such as `skip`, or a cargo feature test) the documentation of the item is dropped",
                   b.file(), b.line())
    r.floor = 3
    return r


def intersection_operand_rule(syn, prop, rule):
    """`A & B | C` is `(A & B) | C`.  A type placed after ` & ` must therefore be atomic: an object, a name, or something in
    parentheses.  `inline_flattened()` is parenthesised by contract for unions (C14.R6); `inline()` / `name()` of an arbitrary
    type is not (an enum's inline() is `X | Y`, Option's name() is `T | null`)."""
    r = Result(rule, "every operand the templates place after ` & ` is either assembled from inline_flattened() parts (parenthesised by contract), passed through intersection_operand() (which parenthesises unions), literally wrapped in `( )`, or an object literal; an arbitrary inline()/name() there lets `|` inside it escape the intersection")
    sites = {}
    n = 0
    for fn in syn.fns_in("macros/src/types/"):
        for e in templates(fn):
            for lit, args in S.format_calls(e["tokens"]):
                u = S.unquote(lit) if lit else None
                if not u or "& {}" not in u and "&{}" not in u:
                    continue
                # index of each `{}` placeholder
                ph = [m.start() for m in re.finditer(r"(?<!\{)\{\}(?!\})", u.replace("{{", "\0\0").replace("}}", "\1\1"))]
                for i, pos in enumerate(ph):
                    before = u[:pos].rstrip()
                    if not before.endswith("&"):
                        continue
                    n += 1
                    arg = " ".join(t for t in S.flat(args[i]) if isinstance(t, str)) if i < len(args) else "?"
                    ok = arg in ("# flattened",) or re.match(r"^# crate_rename :: intersection_operand \( # \w+ \)$", arg) is not None
                    r.inst(fn=fn["qual"], literal=u, operand=arg, atomic=ok, where="%s:%s" % (fn["file"], e["line"]))
                    if not ok:
                        sites.setdefault((fn["qual"], arg), []).append((fn["file"], e["line"], u))
    for (q, arg), lst in sorted(sites.items()):
        r.fail(prop, "intersection-operand-unparenthesised %s %s x%d" % (q, arg.replace(" ", ""), len(lst)),
               "`%s` interpolates %s after ` & ` without parentheses: when it is a union (an inlined enum payload, `Option<T>` by name, a `type = \"A | B\"` override) the result reads `{ tag } & A | B`, whose second arm has lost the tag" % (lst[0][2], arg),
               lst[0][0], lst[0][1])
    r.floor = 3
    return r


def empty_repetition_rule(syn, prop, rule="C16.R9"):
    """`[#(#xs),*].join(..)` expands to `[].join(..)` when xs is empty: rustc cannot infer the element type (E0282) and the
    derive's output does not compile.  Either the element type is spelled (`<[String]>::join(&[..], ..)`) or the
    repetition is only reached when xs is known to be non-empty."""
    r = Result(rule, "an array or vec literal built from a `#(#xs),*` repetition whose element type is left to inference is only emitted where xs is known to be non-empty (a dominating peek()/is_empty() test); otherwise `#[ts(skip)]` on every field or variant produces `[].join(..)`, which does not compile")
    n = 0
    for fn in syn.fns_in("macros/src/"):
        ifs = [e for e in S.events(fn, "if")]
        rets = [e for e in S.events(fn, "return")]
        for e in templates(fn):
            fl = [t for t in S.flat(e["tokens"]) if isinstance(t, str)]
            for i in range(len(fl) - 9):
                # [ # ( # X ) , * ] . method      (optionally preceded by `vec !`)
                if fl[i:i + 4] == ["[", "#", "(", "#"] and fl[i + 5:i + 10] == [")", ",", "*", "]", "."]:
                    x = fl[i + 4]
                    typed = i >= 1 and fl[i - 1] == "&"
                    if typed:
                        continue
                    n += 1
                    guard = None
                    for c in e["ctx"]:
                        if c["k"] == "if":
                            cond = S.squash(c["cond"])
                            if x in cond and c.get("branch") == "then" and ("peek().is_some()" in cond or ("!" in cond and "is_empty()" in cond)):
                                guard = "enclosing `if %s`" % c["cond"]
                            if x in cond and c.get("branch") == "else" and ("peek().is_none()" in cond or (cond.endswith("is_empty()") and "!" not in cond)):
                                guard = "else of `if %s`" % c["cond"]
                    if guard is None:
                        for ie in ifs:
                            cond = S.squash(ie["cond"])
                            if int(ie["line"]) < int(e["line"]) and x in cond and ("peek().is_none()" in cond or (cond.endswith("is_empty()") and "!" not in cond)):
                                if any(any(c.get("id") == ie["id"] and c.get("branch", "then") == "then" for c in rt["ctx"]) for rt in rets):
                                    guard = "early return under `if %s`" % ie["cond"]
                    r.inst(fn=fn["qual"], repetition="#" + x, where="%s:%s" % (fn["file"], e["line"]), guard=guard)
                    if guard is None:
                        r.fail(prop, "untyped-empty-repetition %s #%s" % (fn["qual"], x),
                               "`[#(#%s),*].%s(..)` is emitted although %s may be empty (every field or variant skipped): the expansion contains `[].%s(..)` and fails with E0282 `type annotations needed`" % (x, fl[i + 10] if i + 10 < len(fl) else "?", x, fl[i + 10] if i + 10 < len(fl) else "?"),
                               fn["file"], e["line"])
    r.stats["untyped_repetitions"] = n
    r.floor = 3
    return r


def export_test_params_rule(syn, prop, rule="C16.R10"):
    """the generated `#[test] fn export_bindings_*` names the item with explicit generic arguments; a const parameter
    cannot be left out (E0107) and cannot be inferred there"""
    r = Result(rule, "the type named by the generated export test supplies an argument for every non-lifetime generic parameter of the item, const parameters included")
    fn = syn.fn("DerivedTS::generate_export_test", "macros/src/lib.rs")
    if fn is None:
        r.fail(prop, "anchor-missing generate_export_test", "not found")
        return r
    names = {S.squash(e.get("method", "")) for e in S.events(fn, "mcall")}
    txt = S.squash(json.dumps([{k: v for k, v in e.items() if k != "ctx"} for e in fn["events"]]))
    uses_type_params = "type_params" in names
    covers_const = "const_params" in names or "GenericParam::Const" in txt or ("params" in names and "GenericParam::Lifetime" in txt)
    r.inst(fn=fn["qual"], argument_list_from=sorted(n for n in names if n.endswith("params")), covers_const_parameters=covers_const)
    if uses_type_params and not covers_const:
        r.fail(prop, "export-test-omits-const-params DerivedTS::generate_export_test",
               "the argument list is built from `generics.type_params()` only: `#[derive(TS)] #[ts(export)] struct S<const N: usize> { a: [i32; N] }` expands to a test naming `S<>`, which fails with E0107 (missing generics)",
               fn["file"], fn["line"])
    r.floor = 1
    return r


def empty_name_rule(syn, prop, rule="C04.R8"):
    """`"".chars().all(p)` is vacuously true: unless the empty string is sent to the quoting branch explicitly, a name that is
    empty (rename = "", or `__` under PascalCase/camelCase) is emitted bare: `{ : number, }`."""
    r = Result(rule, "raw_name_to_ts_field sends the empty name to the quoting branch: the `first character` test maps the absence of a first character to *invalid* (or an is_empty() test is part of the decision), since the all-characters test is vacuously true for it")
    fn = syn.fn("utils::raw_name_to_ts_field", "utils.rs") or syn.fn("raw_name_to_ts_field", "utils.rs")
    if fn is None:
        r.fail(prop, "anchor-missing raw_name_to_ts_field", "not found")
        return r
    vac = [e for e in S.events(fn, "mcall") if S.squash(e.get("method", "")) == "all"]
    firsts = [e for e in S.events(fn, "mcall") if S.squash(e.get("method", "")) in ("map_or", "is_some_and", "is_none_or", "map_or_else")]
    body_txt = S.squash(json.dumps([{k: v for k, v in e.items() if k != "ctx"} for e in fn["events"]]))
    handles_empty = "is_empty()" in body_txt
    for e in firsts:
        m = S.squash(e["method"])
        a0 = S.squash(e["args"][0]) if e.get("args") else ""
        if (m == "map_or" and a0 == "false") or m == "is_some_and":
            handles_empty = True
    r.inst(fn=fn["qual"], vacuous_all_tests=len(vac), first_char_tests=[(S.squash(e["method"]), S.squash(e["args"][0]) if e.get("args") else None) for e in firsts], empty_name_is_quoted=handles_empty)
    if vac and not handles_empty:
        r.fail(prop, "empty-name-unquoted utils::raw_name_to_ts_field",
               "the empty name passes both validity tests (`all` is vacuously true, the first-character test defaults to valid) and is emitted unquoted: `#[serde(rename_all = \"PascalCase\")] struct S { __: u8 }` declares `{ : number, }`",
               fn["file"], fn["line"])
    r.floor = 1
    return r


def generated_state_rule(syn, prop, rule):
    """the derive's output is a set of pure functions.  A `static` inside a method of a generic impl is shared by all
    instantiations of the item (const-generic ones included), so a cached text is the text of whichever instantiation ran first."""
    r = Result(rule, "no template of the derive emits state: no `static`, `thread_local!`, `OnceLock`/`OnceCell`/`LazyLock`/`lazy_static!` appears in generated code, so name()/inline()/decl() depend on nothing but their type arguments")
    STATE = {"static", "thread_local", "OnceLock", "OnceCell", "LazyLock", "LazyCell", "lazy_static", "AtomicBool", "AtomicUsize", "Mutex", "RwLock"}
    n = 0
    for fn in syn.fns_in("macros/src/"):
        for e in templates(fn):
            n += 1
            fl = [t for t in S.flat(e["tokens"]) if isinstance(t, str)]
            hit = []
            for i, t in enumerate(fl):
                if t in STATE:
                    # `'static` lifetimes are tokenised as a lifetime, `Self: 'static` has the apostrophe before it
                    if t == "static" and i > 0 and fl[i - 1] in ("'", ":", "+") and (i == 0 or fl[i - 1] == "'"):
                        continue
                    hit.append(t)
            if hit:
                r.inst(fn=fn["qual"], where="%s:%s" % (fn["file"], e["line"]), state_tokens=sorted(set(hit)))
                r.fail(prop, "generated-state %s %s" % (fn["qual"], ",".join(sorted(set(hit)))),
                       "generated code contains %s: a static inside a method of a generic impl is one variable for all instantiations, so e.g. a cached inline() of `Polygon<const N>` returns the text of the first N asked for" % sorted(set(hit)),
                       fn["file"], e["line"])
    r.inst(templates_examined=n)
    r.floor = 1
    return r


def generics_visit_rule(syn, prop, rule):
    """derived visit_generics(): per free type parameter both the parameter and what is inside it"""
    r = Result(rule, "the derived visit_generics() emits, for every non-concrete type parameter P, both `v.visit::<P>()` and `<P as TS>::visit_generics(v)`: the exporter skips types without an output path (Vec, Option, tuples), so the types inside such an argument are only reached through the second call")
    fn = syn.fn("DerivedTS::generate_generics_fn", "macros/src/lib.rs")
    if fn is None:
        r.fail(prop, "anchor-missing generate_generics_fn", "not found")
        return r
    visit = walk = False
    for e in templates(fn):
        txt = " ".join(t for t in S.flat(e["tokens"]) if isinstance(t, str))
        if re.search(r"v \. visit :: < # (\w+) > \( \)", txt):
            visit = True
        if re.search(r"< # (\w+) as # crate_rename :: TS > :: visit_generics \( v \)", txt):
            walk = True
    r.inst(fn=fn["qual"], visits_parameter=visit, walks_into_parameter=walk)
    if not (visit and walk):
        r.fail(prop, "derived-visit-generics-incomplete", "the derived visit_generics() %s: for `Handle<Vec<Leaf>>` with an otherwise unused parameter, `Leaf` is never visited and `Leaf.ts` is not written" %
               ("does not walk into its parameters" if visit else "does not visit its parameters"), fn["file"], fn["line"])
    r.floor = 1
    return r


def docs_init_rule(syn, prop, rule="C15.R7"):
    """one item, one comment: the documentation of the declaration is the item's own"""
    r = Result(rule, "every `DerivedTS { docs: .. }` takes the documentation of the container attribute it was built from, unchanged (`attr.docs.clone()` / `enum_attr.docs`): nothing else - a field's or variant's docs, a second block - is joined to it")
    n = 0
    for fn in syn.fns_in("macros/src/types/"):
        for e in S.events(fn, "struct"):
            if S.squash(e["path"]) != "DerivedTS":
                continue
            for fld in e["fields"]:
                if fld["name"] != "docs":
                    continue
                n += 1
                v = S.squash(fld["value"])
                ok = re.match(r"^(attr|enum_attr|struct_attr)\.docs(\.clone\(\))?$", v) is not None
                r.inst(fn=fn["qual"], docs=v, ok=ok)
                if not ok:
                    r.fail(prop, "docs-slot-init %s" % fn["qual"],
                           "DerivedTS.docs is initialised with `%s`: the declaration would carry something other than the item's own doc comment (two `/** */` blocks, or a member's text in front of `export type`)" % fld["value"],
                           fn["file"], fld.get("line") or e["line"])
    r.floor = 12
    r.stats["literals"] = n
    return r


def impl_assembly_rule(syn, prop, rule):
    """every piece the derive computes is spliced into the impl it emits, and comes from the function that computes it"""
    r = Result(rule, "DerivedTS::into_impl splices every computed piece into the emitted impl (header, WithoutGenerics, `OptionInnerType = Self`, ident(), DOCS, name, decl/decl_concrete, inline/inline_flattened, visit_generics, output_path, visit_dependencies over the recorded dependencies, the export test), each bound from its generator")
    fn = syn.fn("DerivedTS::into_impl", "macros/src/lib.rs")
    if fn is None:
        r.fail(prop, "anchor-missing into_impl", "not found")
        return r
    want = {"impl_start": "generate_impl_block_header", "assoc_type": "generate_assoc_type", "name": "generate_name_fn", "inline": "generate_inline_fn",
            "decl": "generate_decl_fn", "generics_fn": "generate_generics_fn", "export": "generate_export_test", "docs": None, "output_path_fn": None, "dependencies": "self.dependencies"}
    lets = {}
    for e in S.events(fn, "let"):
        lets[S.squash(e["pat"])] = S.squash(e["init"])
    final = None
    for e in templates(fn):
        fl = [t for t in S.flat(e["tokens"]) if isinstance(t, str)]
        if "impl_start" in fl and "visit_dependencies" in fl:
            final = (e, fl)
    if final is None:
        r.fail(prop, "anchor-missing impl template", "the template that assembles the impl was not found", fn["file"], fn["line"])
        return r
    e, fl = final
    spliced = {fl[i + 1] for i in range(len(fl) - 1) if fl[i] == "#"}
    for var, gen in want.items():
        init = lets.get(var, "")
        ok = var in spliced and (gen is None or gen in init)
        r.inst(piece=var, spliced=var in spliced, bound_from=init[:60], ok=ok)
        if not ok:
            r.fail(prop, "impl-piece-missing %s" % var, "`#%s` is %s" % (var, "not part of the emitted impl" if var not in spliced else "not bound from %s (`%s`)" % (gen, init[:60])), fn["file"], e["line"])
    txt = " ".join(fl)
    fixed = {"type OptionInnerType = Self ;": "OptionInnerType = Self", "fn ident ( ) ->": "ident()", "fn visit_dependencies (": "visit_dependencies()"}
    for frag, nm in fixed.items():
        ok = frag in txt
        r.inst(piece=nm, present=ok)
        word = re.sub(r"\W.*$", "", nm)
        if not ok and any(v in spliced and word in init for v, init in lets.items()):
            # the piece is not written out in the template but spliced in from a value computed with its name
            # (`let ident_fn = string_fn("ident", ..)`): its text is not read here
            r.fail(prop, "anchor-missing impl piece %s" % nm, "`%s` is not literal in the impl template; a spliced value is built from `%s`" % (frag, word), fn["file"], e["line"])
            continue
        if not ok:
            r.fail(prop, "impl-piece-missing %s" % nm, "the emitted impl has no `%s`" % frag, fn["file"], e["line"])
    r.floor = 13
    return r


def inflection_table_rule(syn, prop, rule="C09.R4"):
    """the eight spellings serde accepts for rename_all, each bound to the rule of the same name"""
    r = Result(rule, "parse_assign_inflection maps exactly serde's eight rename_all spellings to the rule of the same name (lowercase, UPPERCASE, camelCase, snake_case, PascalCase, SCREAMING_SNAKE_CASE, kebab-case, SCREAMING-KEBAB-CASE) and rejects every other string with an error")
    WANT = {"lowercase": "Lower", "UPPERCASE": "Upper", "camelCase": "Camel", "snake_case": "Snake", "PascalCase": "Pascal",
            "SCREAMING_SNAKE_CASE": "ScreamingSnake", "kebab-case": "Kebab", "SCREAMING-KEBAB-CASE": "ScreamingKebab"}
    fn = syn.fn("attr::parse_assign_inflection", "attr/mod.rs") or syn.fn("parse_assign_inflection", "attr/mod.rs")
    if fn is None:
        r.fail(prop, "anchor-missing parse_assign_inflection", "not found")
        return r
    got, fallback_errs = {}, None
    for m in S.events(fn, "match"):
        arms = m["arms"]
        lits = [a for a in arms if S.squash(a["pat"]).startswith('"')]
        if len(lits) < 4:
            continue
        for a in arms:
            pat = S.squash(a["pat"])
            body = S.squash(a["body"])
            if pat.startswith('"'):
                for alt in S.split_top(a["pat"], "|"):
                    mm = re.match(r"^Inflection::(\w+),?$", body)
                    got[S.unquote(S.squash(alt))] = mm.group(1) if mm else "?" + body[:30]
            else:
                fallback_errs = "syn_err!" in body or "Err(" in body
    for k, v in WANT.items():
        ok = got.get(k) == v
        r.inst(spelling=k, selects=got.get(k), expected=v, ok=ok)
        if not ok:
            r.fail(prop, "rename-all-spelling %s" % k, "`rename_all = \"%s\"` selects %s, serde's rule of that name is %s" % (k, got.get(k), v), fn["file"], fn["line"])
    for k in sorted(set(got) - set(WANT)):
        r.fail(prop, "rename-all-spelling-extra %s" % k, "`%s` is accepted for rename_all but is not one of serde's spellings" % k, fn["file"], fn["line"])
    r.inst(other_values_rejected=bool(fallback_errs))
    if not fallback_errs:
        r.fail(prop, "rename-all-unknown-accepted", "a value that is not one of the eight spellings is not rejected with an error", fn["file"], fn["line"])
    r.floor = 9
    return r


def template_hygiene_rule(syn, prop, rule="C16.R13"):
    """a derive's output is compiled in the user's scope: `String`, `Option`, `Some` there are whatever the user defined"""
    r = Result(rule, "generated code names the prelude's types and constructors by path (`std::string::String`, `std::option::Option::Some`), never by their bare name, so that an item called `String`, `Option`, `Some`, `Vec`, `Result`, `Ok`, `Err`, `None` or `Box` in the user's module cannot capture them")
    NAMES = {"String", "Option", "Some", "None", "Vec", "Result", "Ok", "Err", "Box"}
    bare = {}
    n = 0
    for fn in syn.fns_in("macros/src/"):
        for e in templates(fn):
            fl = [t for t in S.flat(e["tokens"]) if isinstance(t, str)]
            n += 1
            for i, t in enumerate(fl):
                if t in NAMES and (i == 0 or fl[i - 1] != "::") and not (i > 0 and fl[i - 1] == "#"):
                    bare.setdefault(t, []).append((fn["qual"], fn["file"], e["line"]))
    r.inst(templates_examined=n, bare_prelude_names={k: len(v) for k, v in sorted(bare.items())})
    if bare:
        first = sorted(bare.items())[0][1][0]
        r.fail(prop, "unqualified-prelude-names %s" % ",".join(sorted(bare)),
               "generated code uses %s by bare name (%s): `#[derive(TS)] struct String { a: i32 }` (or `Option`, `Some`) makes every generated `fn name() -> String` refer to the user's type and the expansion does not compile (E0053)" %
               (", ".join("%s x%d" % (k, len(v)) for k, v in sorted(bare.items())), ", ".join(sorted({q for v in bare.values() for q, _, _ in v})[:6])),
               first[1], first[2])
    r.floor = 1
    return r


def escape_coverage_rule(syn, prop, rule="C04.R10"):
    """what may not appear raw between double quotes in TypeScript: the quote, the backslash, and a line break"""
    r = Result(rule, "the routine that prepares text for a double-quoted TypeScript string (escape_string) replaces all four characters that cannot stand there as they are: `\\\\`, `\"`, LF and CR - and the backslash first, so that the escapes it introduces are not escaped again")
    fn = syn.fn("utils::escape_string", "utils.rs") or syn.fn("escape_string", "utils.rs")
    if fn is None:
        r.fail(prop, "anchor-missing escape_string", "not found")
        return r
    reps = []
    for e in sorted(S.events(fn, "mcall"), key=lambda x: (int(x["line"]), int(x["col"]))):
        if S.squash(e["method"]) == "replace" and e.get("args"):
            a0 = S.squash(e["args"][0])
            m = re.match(r"^'(\\?.)'$|^\"(\\?.)\"$", a0)
            ch = (m.group(1) or m.group(2)) if m else a0
            reps.append({"\\\\": "\\", "\\\"": '"', "\\n": "\n", "\\r": "\r", "\\'": "'"}.get(ch, ch))
    need = ["\\", '"', "\n", "\r"]
    missing = [c for c in need if c not in reps]
    # the receiver chain is evaluated left to right: the innermost (first) replace is the one listed last by position of `.replace`
    order_ok = bool(reps) and (reps[0] == "\\" or reps[-1] == "\\")
    first = None
    txt = S.squash(json.dumps([{k: v for k, v in e.items() if k != "ctx"} for e in fn["events"]]))
    mfirst = re.search(r"text\.replace\('(\\\\\\\\|[^'])'", txt)
    r.inst(fn=fn["qual"], characters_replaced=[repr(c) for c in reps], missing=[repr(c) for c in missing])
    # sibling: escaped_name() repeats the replacements at run time for names that are not literals
    en = syn.fn("utils::escaped_name", "utils.rs") or syn.fn("escaped_name", "utils.rs")
    rt = []
    for e in (templates(en) if en else []):
        fl = [t for t in S.flat(e["tokens"]) if isinstance(t, str)]
        for i in range(len(fl) - 3):
            if fl[i] == "replace" and fl[i + 1] == "(" and re.match(r"^'(\\?.)'$", fl[i + 2]):
                ch = re.match(r"^'(\\?.)'$", fl[i + 2]).group(1)
                rt.append({"\\\\": "\\", "\\\"": '"', "\\n": "\n", "\\r": "\r", '"': '"'}.get(ch, ch))
    if en is not None:
        rt_missing = [c for c in need if c not in rt]
        r.inst(fn=en["qual"], runtime_replacements=[repr(c) for c in rt], missing=[repr(c) for c in rt_missing])
        if rt_missing and rt:
            r.fail(prop, "escape-incomplete utils::escaped_name(runtime) %s" % ",".join(repr(c).strip("'") for c in rt_missing),
                   "the run-time twin of escape_string (for `rename = EXPR` that is not a literal) leaves %s as it is: `const N: &str = \"a\\nb\"; #[ts(rename = N)]` puts a raw line break inside a quoted name" % ", ".join(repr(c) for c in rt_missing),
                   en["file"], en["line"])
    if missing:
        r.fail(prop, "escape-incomplete utils::escape_string %s" % ",".join(repr(c).strip("'") for c in missing),
               "escape_string leaves %s as it is: `#[ts(rename = \"a\\nb\")]` (or a tag / variant name with a line break) puts a raw line break inside a double-quoted TypeScript string" % ", ".join(repr(c) for c in missing),
               fn["file"], fn["line"])
    r.floor = 1
    return r


def written_value_rule(syn, prop, rule="C10.R14"):
    """`Attr::merge` reads `None` as "not written".  A key that was written must therefore be recorded as `Some(..)`,
    whatever its value is - a parser that maps some written value to `None` hands the decision back to the other spelling."""
    r = Result(rule, "in every attribute parser an arm that stores the value of an Option-typed field stores `Some(<parsed value>)`: no written value (e.g. `rename_all = \"snake_case\"`, which changes no field name) is turned into `None`, which merge() would take for `not specified` and let the other attribute win")
    n = 0
    for name, t in sorted(syn.tables().items()):
        for a in t["arms"]:
            ex = S.squash(a["expr"])
            m = re.match(r"^out(\.0)?\.(\w+)=(.*)$", ex)
            if not m:
                continue
            fld, rhs = m.group(2), m.group(3)
            if rhs in ("true", "false") or re.match(r"^(Some\(.*\)|parse_optional\(input\)\?|Optional::.*|parse_concrete\(input\)\?)$", rhs):
                n += 1
                r.inst(table=name, key=a["keys"], stores=rhs[:50], recorded_as_written=True)
                continue
            # direct parse results for non-Option fields are fine; a post-processed result is what we look for
            post = re.search(r"\)\?\.(\w+)\(", rhs)
            direct = re.match(r"^\w+\(input\)\?$", rhs) is not None
            r.inst(table=name, key=a["keys"], stores=rhs[:70], recorded_as_written=direct and not post)
            n += 1
            if post or not direct:
                r.fail(prop, "written-value-not-recorded %s.%s" % (name, fld),
                       "the arm stores `%s`: a written `%s` can end up as `None` (or as something other than what was parsed), and merge() then lets the other spelling's value win - `#[serde(rename_all = \"camelCase\")] #[ts(rename_all = \"snake_case\")]` renames to camelCase" % (a["expr"], a["keys"]),
                       t["file"], a["line"])
    r.stats["arms"] = n
    r.floor = 40
    return r


def variant_name_flow_rule(syn, prop, rule="C09.R5"):
    """the name computed for a variant (rename, else the enum's rename_all applied to the identifier) is the name every
    representation uses - the struct body of an internally tagged variant included, which writes it as the tag value"""
    r = Result(rule, "format_variant hands the variant's computed name (`ts_name`: explicit rename, else rename_all applied to the identifier) to type_def(), which uses it as the tag value of an internally tagged struct variant; it does not hand over the raw identifier")
    fn = syn.fn("types::enum::format_variant", "types/enum.rs")
    if fn is None:
        r.fail(prop, "anchor-missing format_variant", "not found")
        return r
    calls = [e for e in S.events(fn, "call") if S.squash(e["func"]).endswith("type_def")]
    if not calls:
        r.fail(prop, "anchor-missing type_def call", "format_variant does not call type_def", fn["file"], fn["line"])
    for e in calls:
        args = [S.squash(a) for a in e["args"]]
        ok = len(args) >= 2 and re.match(r"^&?ts_name(\.clone\(\))?$", args[1]) is not None
        r.inst(fn=fn["qual"], type_def_args=args, name_is_computed_variant_name=ok)
        if not ok:
            r.fail(prop, "variant-name-not-passed format_variant -> type_def",
                   "type_def() receives `%s` instead of the variant's computed name: the tag value of an internally tagged struct variant ignores the enum's rename_all (`\"kind\": \"KeyPress\"` where serde writes `\"key_press\"`)" % (args[1] if len(args) > 1 else "?"),
                   fn["file"], e["line"])
    r.floor = 1
    return r


def crate_path_rule(syn, prop, rule="C16.R15"):
    """`#[ts(crate = "..")]` exists because the runtime crate may be re-exported under another path"""
    r = Result(rule, "generated code reaches the runtime crate only through the `#crate_rename` interpolation: no template spells `ts_rs::` (or `::ts_rs`), which would not resolve for users who re-export the crate and say `#[ts(crate = \"..\")]`")
    n = 0
    for fn in syn.fns_in("macros/src/"):
        for e in templates(fn):
            n += 1
            fl = [t for t in S.flat(e["tokens"]) if isinstance(t, str)]
            if "ts_rs" in fl and not fn["qual"].endswith("crate_rename"):   # crate_rename() is where the default `::ts_rs` is defined
                r.inst(fn=fn["qual"], where="%s:%s" % (fn["file"], e["line"]), hard_coded=True)
                r.fail(prop, "hard-coded-crate-path %s" % fn["qual"], "a template names `ts_rs` directly instead of `#crate_rename`: with `#[ts(crate = \"my_facade::ts_rs\")]` the expansion does not compile", fn["file"], e["line"])
    r.inst(templates_examined=n)
    r.floor = 1
    return r


def passthrough_fields_rule(syn, prop, rule="C07.R7"):
    """what the container attribute says about export, path, concretisation and bounds holds whatever shape the body takes"""
    r = Result(rule, "every `DerivedTS { .. }` built in macros/src/types takes `export`, `export_to`, `concrete` and `bound` from the container attribute it was built from (`attr.X` / `enum_attr.X`, cloned or moved): a body that is replaced (`type`, `as`), empty, or a unit still honours `concrete(..)` and `bound`")
    FIELDS = ("export", "export_to", "concrete", "bound")
    n = 0
    for fn in syn.fns_in("macros/src/types/"):
        for e in S.events(fn, "struct"):
            if S.squash(e["path"]) != "DerivedTS":
                continue
            vals = {f["name"]: S.squash(f["value"]) for f in e["fields"]}
            n += 1
            bad = []
            for k in FIELDS:
                v = vals.get(k)
                if v is None or not re.match(r"^(attr|enum_attr|struct_attr)\.%s(\.clone\(\))?$" % k, v):
                    bad.append((k, v))
            r.inst(fn=fn["qual"], fields={k: vals.get(k) for k in FIELDS}, ok=not bad)
            for k, v in bad:
                r.fail(prop, "container-setting-dropped %s %s" % (fn["qual"], k),
                       "DerivedTS.%s is `%s` instead of the container attribute's value: e.g. `#[ts(type = \"string\", concrete(T = i32))] struct Token<T>` becomes generic over T again (`type Token<T> = string;`, referenced as `Token<number>`)" % (k, v),
                       fn["file"], e["line"])
    r.stats["literals"] = n
    r.floor = 12
    return r


def post_merge_rule(crate, prop, rule="C10.R15"):
    """after the two spellings have been merged, the merged value is what the rest of the derive sees"""
    from vlib import mirlib as M
    from vlib.mirlib import fn_matches, op_local, op_place, origins
    r = Result(rule, "after merge() a from_attrs only attaches the documentation and escapes `tag`/`content` in place: no other field of the merged attribute value is written (a rule that is `normalised away` here reads as `not specified` to everything downstream, e.g. to from_variant's `rename_all.or(rename_all_fields)`)")
    ALLOWED = {".docs", ".tag", ".content"}
    for x in ("StructAttr", "EnumAttr", "VariantAttr", "FieldAttr"):
        cands = [b for b in crate.bodies if b.path.endswith("%s::from_attrs" % x)]
        if not cands:
            r.fail(prop, "anchor-missing %s::from_attrs" % x, "not found")
            continue
        b = cands[0]
        merges = [blk for blk, t in b.calls() if fn_matches(t, r"Attr>::merge$", r"Attr::merge$") and not b.is_cleanup(blk)]
        # the local returned in Ok(..)
        res_locals = set()
        for blk in range(b.n):
            for st in b.stmts(blk):
                if st["k"] == "assign" and st["dst"]["l"] == 0 and st["rv"]["k"] == "agg" and st["rv"].get("variant") == "Ok" and st["rv"]["ops"]:
                    pl = op_place(st["rv"]["ops"][0])
                    if pl:
                        cur = pl["l"]
                        seen = set()
                        while cur is not None and cur not in seen:
                            seen.add(cur)
                            res_locals.add(cur)
                            nxt = None
                            for db, di, d in M.def_sites(b, cur):
                                if di != "term" and d["rv"]["k"] == "use":
                                    p2 = op_place(d["rv"]["op"])
                                    if p2 and not p2["p"]:
                                        nxt = p2["l"]
                            cur = nxt
        writes = []
        for blk in range(b.n):
            if b.is_cleanup(blk):
                continue
            after = (not merges) or any(blk in b.reachable_from([m]) for m in merges)
            for st in b.stmts(blk):
                if st["k"] == "assign" and st["dst"]["l"] in res_locals and st["dst"]["p"]:
                    fld = "".join(p for p in st["dst"]["p"] if p.startswith("."))
                    if after and fld and fld not in ALLOWED:
                        writes.append((fld, st.get("span")))
        r.inst(fn=b.path, fields_written_after_merge=sorted({w for w, _ in writes}))
        for fld in sorted({w for w, _ in writes}):
            r.fail(prop, "merged-value-rewritten %s::from_attrs %s" % (x, fld),
                   "from_attrs overwrites `%s` of the merged attributes: a value that was written (by either spelling) no longer reaches the code that reads it - `#[serde(rename_all = \"snake_case\")]` on a variant is meant to opt out of the enum's `rename_all_fields`, and is read as `not given`" % fld,
                   b.file(), b.line())
    r.floor = 4
    return r


def operand_scanner_rule(syn, prop, rule="C02.R10"):
    """intersection_operand() decides whether a text is a union by finding a `|` at nesting depth 0, outside string literals and
    comments.  Its arms are the necessary parts of that decision; what each arm does character by character is a string function
    and is not decided here."""
    r = Result(rule, "intersection_operand() (a) reports a union only for a `|` met at depth 0 - the arm is guarded by the depth test, not decided at the first `|` anywhere; (b) tracks all four bracket pairs; (c) has an arm that skips quoted text and one that skips `/* */` comments, since `|` and brackets occur inside both (doc comments of inlined members, renamed names)")
    fn = syn.fn("intersection_operand", "ts-rs/src/lib.rs")
    if fn is None:
        r.fail(prop, "anchor-missing intersection_operand", "not found")
        return r
    ms = [e for e in S.events(fn, "match") if S.squash(e["scrut"]) in ("c", "ch")]
    if not ms:
        r.fail(prop, "anchor-missing scanner match", "no `match c`", fn["file"], fn["line"])
        return r
    arms = ms[0]["arms"]
    def arm_with(ch):
        return [a for a in arms if ("'%s'" % ch) in a["pat"]]
    pipe = arm_with("|")
    guarded = bool(pipe) and all(re.match(r"^depth==0$", S.squash(a.get("guard") or "")) for a in pipe)
    opens = all(arm_with(c) for c in "([{<")
    closes = all(arm_with(c) for c in ")]}>")
    quotes = bool(arm_with('"'))
    comments = any("'/'" in a["pat"] and "*" in S.squash(a.get("guard") or "") for a in arms)
    r.inst(fn=fn["qual"], pipe_only_at_depth_0=guarded, bracket_pairs=opens and closes, skips_quoted_text=quotes, skips_comments=comments)
    if not guarded:
        r.fail(prop, "operand-scanner pipe-not-guarded-by-depth", "the `|` arm is not guarded by `depth == 0`: the first `|` anywhere decides, so `Array<number | null> | null` (a union whose first member contains a bracketed `|`) is taken for a non-union and loses its parentheses", fn["file"], ms[0]["line"])
    if not (opens and closes):
        r.fail(prop, "operand-scanner bracket-pairs", "not all of ( ) [ ] { } < > are tracked", fn["file"], ms[0]["line"])
    if not quotes:
        r.fail(prop, "operand-scanner no-quote-arm", "quoted text is not skipped: a `|` or a bracket inside a renamed name is counted", fn["file"], ms[0]["line"])
    if not comments:
        r.fail(prop, "operand-scanner no-comment-arm", "`/* */` comments are not skipped: an apostrophe, bracket or `|` inside the doc comment of an inlined member changes the decision (`/// the circle's radius` opens a `string` that swallows the rest of the type)", fn["file"], ms[0]["line"])
    r.floor = 1
    return r
