"""Panic-capable call-site classifier over MIR (shared by C05.R5, C16.R1, C17.R3)."""
import re
from collections import defaultdict

from vlib import mirlib as M
from vlib.mirlib import fn_matches

PANIC_CALLEES = [
    (r"option::Option::<T>::(unwrap|expect)$", "Option::unwrap/expect"),
    (r"result::Result::<T, E>::(unwrap|expect|unwrap_err|expect_err)$", "Result::unwrap/expect"),
    (r"(core|std)::panicking::", "panic!"),
    (r"std::rt::(begin_panic|panic_fmt|panic_display)", "panic!"),
    (r"ops::Index(Mut)?::index(_mut)?$", "index"),
    (r"ops::Index(Mut)?<.*>>::index(_mut)?$", "index"),
    (r"cell::RefCell::<T>::(borrow|borrow_mut)$", "RefCell::borrow"),
    (r"syn::parse_quote::parse$", "parse_quote!"),
    (r"syn::__private::parse$", "parse_quote!"),
    (r"proc_macro2::Ident::new(_raw)?$", "Ident::new"),
    (r"quote::__private::mk_ident$", "format_ident!"),
    (r"str::<impl str>::(split_at|split_at_mut)$", "str::split_at"),
    (r"vec::Vec::<T, A>::(remove|insert|swap_remove|split_off|drain|swap)$", "Vec::remove/insert"),
    (r"string::String::(remove|insert|insert_str|split_off|drain|replace_range|truncate)$", "String::remove/insert"),
    (r"slice::<impl \[T\]>::(copy_from_slice|clone_from_slice|split_at|split_at_mut|swap|chunks|chunks_exact|windows|rotate_left|rotate_right)$", "slice op"),
    (r"hint::unreachable_unchecked$", "unreachable_unchecked"),
    (r"proc_macro2::Literal::(from_str)$", "Literal parse"),
    (r"char::from_u32_unchecked$", "from_u32_unchecked"),
    (r"process::(exit|abort)$", "process exit"),
    (r"iter::traits::iterator::Iterator::step_by$", "step_by"),
    (r"time::Duration::", "duration arithmetic"),
]
ASSERT_PANICS = ("BoundsCheck", "DivisionByZero", "RemainderByZero")


def classify_call(t):
    f = t.get("fn")
    if not f:
        return None
    for rx, label in PANIC_CALLEES:
        if fn_matches(t, rx):
            return label
    return None


def short(t):
    f = t.get("fn") or {}
    return f.get("res") or f.get("path") or "indirect"


def sites_in(body):
    """list of dicts: {caller, callee, label, file, line, macros, block}"""
    out = []
    for b in range(body.n):
        if body.is_cleanup(b):
            continue
        t = body.term(b)
        if t["k"] == "call":
            lab = classify_call(t)
            if lab:
                sp = t["span"]
                f, l = M.user_span(sp)
                out.append({"caller": body.path, "callee": short(t), "label": lab, "file": f, "line": l,
                            "macros": sp.get("macros") or [], "block": b})
        elif t["k"] == "assert":
            md = t.get("msg_dbg", "")
            kind = md.split("(")[0].split("{")[0].strip()
            if any(md.startswith(k) for k in ASSERT_PANICS):
                sp = t["span"]
                f, l = M.user_span(sp)
                out.append({"caller": body.path, "callee": "assert:" + kind, "label": "assert", "file": f, "line": l,
                            "macros": sp.get("macros") or [], "block": b})
    return out


def group(sites):
    """(caller, callee) -> list of sites"""
    g = defaultdict(list)
    for s in sites:
        g[(s["caller"], s["callee"])].append(s)
    return g


def key(caller, callee, n):
    return "panic-site %s -> %s x%d" % (caller, callee, n)
