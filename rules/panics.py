"""Panic-capable call-site classifier over MIR (shared by C05.R5, C16.R1, C17.R3)."""
import re
from collections import defaultdict

from vlib import mirlib as M
from vlib.mirlib import fn_matches, op_place, op_local, op_const

PANIC_CALLEES = [
    (r"option::Option::<T>::(unwrap|expect)$", "Option::unwrap/expect"),
    (r"result::Result::<T, E>::(unwrap|expect|unwrap_err|expect_err)$", "Result::unwrap/expect"),
    (r"(core|std)::panicking::", "panic!"),
    (r"std::rt::(begin_panic|panic_fmt|panic_display)", "panic!"),
    (r"ops::Index(Mut)?::index(_mut)?$", "index"),
    (r"ops::Index(Mut)?<.*>>::index(_mut)?$", "index"),
    (r"cell::RefCell::<T>::(borrow|borrow_mut)$", "RefCell::borrow"),
    (r"syn::parse_quote::parse$", "parse_quote!"),
    (r"syn::__private::parse$", "parse_quote!"),
    (r"proc_macro2::Ident::new(_raw)?$", "Ident::new"),
    (r"quote::__private::mk_ident$", "format_ident!"),
    (r"str::<impl str>::(split_at|split_at_mut)$", "str::split_at"),
    (r"vec::Vec::<T, A>::(remove|insert|swap_remove|split_off|drain|swap)$", "Vec::remove/insert"),
    (r"string::String::(remove|insert|insert_str|split_off|drain|replace_range|truncate)$", "String::remove/insert"),
    (r"slice::<impl \[T\]>::(copy_from_slice|clone_from_slice|split_at|split_at_mut|swap|chunks|chunks_exact|windows|rotate_left|rotate_right)$", "slice op"),
    (r"hint::unreachable_unchecked$", "unreachable_unchecked"),
    (r"proc_macro2::Literal::(from_str)$", "Literal parse"),
    (r"char::from_u32_unchecked$", "from_u32_unchecked"),
    (r"process::(exit|abort)$", "process exit"),
    (r"iter::traits::iterator::Iterator::step_by$", "step_by"),
    (r"time::Duration::", "duration arithmetic"),
]
ASSERT_PANICS = ("BoundsCheck", "DivisionByZero", "RemainderByZero")


def classify_call(t):
    f = t.get("fn")
    if not f:
        return None
    for rx, label in PANIC_CALLEES:
        if fn_matches(t, rx):
            return label
    return None


def short(t):
    f = t.get("fn") or {}
    return f.get("res") or f.get("path") or "indirect"


def sites_in(body, crate=None):
    """list of dicts: {caller, callee, label, file, line, macros, block}"""
    out = []
    for b in range(body.n):
        if body.is_cleanup(b):
            continue
        t = body.term(b)
        if t["k"] == "call":
            lab = classify_call(t)
            if lab:
                sp = t["span"]
                f, l = M.user_span(sp)
                site = {"caller": body.path, "callee": short(t), "label": lab, "file": f, "line": l,
                        "macros": sp.get("macros") or [], "block": b,
                        "origin": operand_origin(body, t["args"][0]) if t["args"] else "no operand"}
                site["discharged"] = discharged(body, site)
                if not site["discharged"] and crate is not None and fn_matches(t, r"quote::__private::mk_ident$"):
                    site["discharged"] = discharged_with_helpers(crate, body, site)
                if not site["discharged"] and crate is not None and fn_matches(t, r"quote::__private::mk_ident$", r"proc_macro2::Ident::new$"):
                    site["discharged"] = discharged_by_callers(crate, body, site)
                out.append(site)
        elif t["k"] == "assert":
            md = t.get("msg_dbg", "")
            kind = md.split("(")[0].split("{")[0].strip()
            if any(md.startswith(k) for k in ASSERT_PANICS):
                sp = t["span"]
                f, l = M.user_span(sp)
                out.append({"caller": body.path, "callee": "assert:" + kind, "label": "assert", "file": f, "line": l,
                            "macros": sp.get("macros") or [], "block": b})
    return out


def group(sites):
    """(caller, callee) -> list of sites"""
    g = defaultdict(list)
    for s in sites:
        g[(s["caller"], s["callee"])].append(s)
    return g


def key(caller, callee, n):
    return "panic-site %s -> %s x%d" % (caller, callee, n)


# ------------------------------------------------------------------ what a panic-capable call is applied to

_PASS = M.IDENTITY_CALLS + [r"ops::Try>::branch$", r"ops::Try::branch$", r"Option::<T>::(as_ref|as_mut|as_deref|cloned|copied)$", r"Result::<T, E>::(as_ref|as_mut)$"]


def _ty_short(ty):
    ty = re.sub(r"^&(mut )?", "", ty or "")
    ty = re.sub(r"<.*$", "", ty)
    return ty


def operand_origin(body, op, steps=40):
    return operand_origin_ex(body, op, steps)[0]


def operand_origin_ex(body, op, steps=40):
    """Where the value a panic-capable operation is applied to comes from, followed backwards through moves, borrows and
    identity-like calls inside the function: `field <type>.<field>`, `call <callee>`, `param <type>`, `const`, `local <type>`.
    The description does not mention the function it was found in or any variable name."""
    pl = op_place(op)
    if pl is None:
        return ("const", locals().get('cur'))
    cur, proj = pl["l"], [x for x in pl["p"] if x != "*"]
    for _ in range(steps):
        if proj and re.match(r"^\.\d+$", proj[0]):
            # `.N` of a tuple built in place (`match (a, b)`, format_args!): look at the N-th component
            ds0 = [d for d in M.def_sites(body, cur) if not body.is_cleanup(d[0])]
            if len(ds0) == 1 and ds0[0][1] != "term" and ds0[0][2]["rv"]["k"] == "agg" and ds0[0][2]["rv"].get("tuple"):
                o2 = ds0[0][2]["rv"]["ops"][int(proj[0][1:])]
                if op_place(o2) is None:
                    return ("const", locals().get('cur'))
                cur, proj = op_place(o2)["l"], [x for x in op_place(o2)["p"] if x != "*"] + proj[1:]
                continue
        proj = [x for x in proj if not re.match(r"^\.(Some|Ok|Err|Continue|Break)::\d+$", x) and not x.startswith("as ")]   # payload of an Option/Result: same value
        if proj:
            fields = [x for x in proj if x.startswith(".")]
            idx = [x for x in proj if x.startswith("[")]
            if fields:
                return ("field %s%s" % (_ty_short(body.local_ty(cur)), "".join(fields)), locals().get('cur'))
            if idx:
                return ("element of %s" % _ty_short(body.local_ty(cur)), locals().get('cur'))
        ds = M.real_defs(body, cur)
        if not ds:
            if 1 <= cur <= body.raw["arg_count"]:
                return ("param %s" % _ty_short(body.local_ty(cur)), locals().get('cur'))
            return ("local %s" % _ty_short(body.local_ty(cur)), locals().get('cur'))
        if len(ds) > 1:
            return ("local %s" % _ty_short(body.local_ty(cur)), locals().get('cur'))
        b, i, d = ds[0]
        if i == "term":
            if fn_matches(d, *_PASS) and d["args"] and op_place(d["args"][0]) is not None:
                p2 = op_place(d["args"][0])
                cur, proj = p2["l"], [x for x in p2["p"] if x != "*"]
                continue
            f = d.get("fn") or {}
            return ("call %s" % (f.get("res") or f.get("path") or "indirect"), locals().get('cur'))
        rv = d["rv"]
        if rv["k"] in ("use", "cast"):
            p2 = op_place(rv["op"])
            if p2 is None:
                return ("const", locals().get('cur'))
            cur, proj = p2["l"], [x for x in p2["p"] if x != "*"]
        elif rv["k"] in ("ref", "rawptr"):
            cur, proj = rv["pl"]["l"], [x for x in rv["pl"]["p"] if x != "*"]
        elif rv["k"] == "agg":
            return ("aggregate %s" % (rv.get("adt") or ("tuple" if rv.get("tuple") else "value")), locals().get('cur'))
        else:
            return ("computed", locals().get('cur'))
    return ("local %s" % _ty_short(body.local_ty(cur)), locals().get('cur'))


INDEXED = r"vec::Vec::<T, A>::(insert|split_off)$|slice::<impl \[T\]>::(split_at|split_at_mut)$|str::<impl str>::split_at$|ops::Index(Mut)?<.*>>::index(_mut)?$|string::String::truncate$"
_BOUNDED_ADAPTORS = [r"Iterator::(zip|take_while|filter|map|skip_while|enumerate|by_ref|peekable|take|skip|rev|copied|cloned|inspect|map_while|filter_map)$",
                     r"IntoIterator>::into_iter$", r"slice::<impl \[T\]>::iter$", r"Vec::<T, A>::iter$", r"ops::Deref::deref$",
                     # a collection gathered from a bounded walk over another one is no longer than that one (`?` on a collected
                     # Result hands on the Vec or returns)
                     r"Iterator::collect$", r"FromIterator<.*>>::from_iter$", r"ops::Try::branch$"]


def _iter_sources(body, local, seen=None, steps=0):
    """base locals of the collections an iterator value walks over (None if an adaptor that can lengthen it is involved)"""
    seen = set() if seen is None else seen
    if local in seen or steps > 40:
        return set()
    seen.add(local)
    out = set()
    ds = [d for d in M.def_sites(body, local) if not body.is_cleanup(d[0])]
    if not ds:
        return {local}
    for b, i, d in ds:
        if i == "term":
            if fn_matches(d, *_BOUNDED_ADAPTORS):
                args = d["args"][:2] if fn_matches(d, r"Iterator::zip$") else d["args"][:1]
                for a in args:
                    p2 = op_place(a)
                    if p2 is None:
                        return None
                    r = _iter_sources(body, p2["l"], seen, steps + 1)
                    if r is None:
                        return None
                    out |= r
            elif fn_matches(d, r"Iterator::(chain|cycle|flat_map|flatten|repeat|step_by)"):
                return None
            else:
                out.add(local)
        else:
            rv = d["rv"]
            src = op_place(rv["op"]) if rv["k"] in ("use", "cast") else rv.get("pl") if rv["k"] in ("ref", "rawptr") else None
            if src is None:
                out.add(local)
            else:
                r = _iter_sources(body, src["l"], seen, steps + 1)
                if r is None:
                    return None
                out |= r
    return out


def _base_local(body, op):
    pl = op_place(op)
    if pl is None:
        return None
    r = _iter_sources(body, pl["l"])
    return r
_IN_RANGE_SOURCES = [r"Iterator::(position|rposition)$", r"::len$", r"Option::<T>::unwrap_or$", r"cmp::(min|Ord::min)$"]


def index_in_range_by_construction(body, t):
    """`v.insert(i, ..)` / `s.split_at(i)` accept every i <= len: discharged when i is, on every path, the result of
    `position(..)` over that collection, its `len()`, or `position(..).unwrap_or(len())` (never a computed number)."""
    if not fn_matches(t, INDEXED) or len(t["args"]) < 2:
        return False
    l0 = op_local(t["args"][1])
    if l0 is None:
        return False
    target = _base_local(body, t["args"][0]) or set()
    seen, work, ok_src = set(), [l0], 0
    while work:
        l = work.pop()
        if l in seen:
            continue
        seen.add(l)
        ds = [d for d in M.def_sites(body, l) if not body.is_cleanup(d[0])]
        if not ds:
            return False
        for b, i, d in ds:
            if i == "term":
                if fn_matches(d, r"str::<impl str>::(find|rfind)$") and d["args"] and op_place(d["args"][0]) is not None:
                    # the byte offset at which a pattern was found in the string that is cut: in range and on a char boundary
                    src = _iter_sources(body, op_place(d["args"][0])["l"])
                    if src is None or not (src & target):
                        return False
                    ok_src += 1
                elif fn_matches(d, r"Option::<T>::(unwrap_or|unwrap|expect)$") and d["args"] and op_place(d["args"][0]) is not None and False:
                    pass
                elif fn_matches(d, r"Iterator::(position|rposition|count)$", r"::len$") and d["args"] and op_place(d["args"][0]) is not None:
                    # a position in / the length of / a count over the collection the operation is applied to
                    src = _iter_sources(body, op_place(d["args"][0])["l"])
                    if src is None or not (src & target):
                        if not (fn_matches(d, r"str::<impl str>::len$") and _is_suffix_trim_of(body, d, target)):
                            return False
                    ok_src += 1
                elif fn_matches(d, r"Option::<T>::unwrap_or$", r"cmp::min$", r"Ord::min$"):
                    for a in d["args"]:
                        p2 = op_place(a)
                        if p2 is None:
                            return False
                        work.append(p2["l"])
                else:
                    return False
            else:
                rv = d["rv"]
                if rv["k"] in ("use", "cast") and op_place(rv["op"]) is not None:
                    work.append(op_place(rv["op"])["l"])
                elif rv["k"] in ("use",) and (op_const(rv["op"]) or {}).get("int") == 0:
                    ok_src += 1
                elif rv["k"] == "agg" and re.search(r"ops::Range(From|To|Full)?$", rv.get("adt") or ""):
                    # `x[a..]`, `x[..b]`: every bound must be in range by construction (a two-sided range also needs a <= b: not discharged)
                    if (rv.get("adt") or "").endswith("ops::Range"):
                        return False
                    for o in rv["ops"]:
                        if op_place(o) is not None:
                            work.append(op_place(o)["l"])
                        elif (op_const(o) or {}).get("int") != 0:
                            return False
                        else:
                            ok_src += 1
                else:
                    return False
    return ok_src > 0


def _is_suffix_trim_of(body, len_call, target):
    """`s.trim_end_matches(..).len()` / `s.trim_end().len()`: a prefix of s, so its length is a char boundary of s"""
    p = op_place(len_call["args"][0])
    if p is None:
        return False
    cur = p["l"]
    for _ in range(10):
        ds = [d for d in M.def_sites(body, cur) if not body.is_cleanup(d[0])]
        if len(ds) != 1 or ds[0][1] == "term":
            break
        rv = ds[0][2]["rv"]
        nxt = op_place(rv["op"]) if rv["k"] in ("use", "cast") else rv.get("pl") if rv["k"] in ("ref",) else None
        if nxt is None:
            break
        cur = nxt["l"]
    for b, i, d in M.def_sites(body, cur):
        if i == "term" and fn_matches(d, r"str::<impl str>::(trim_end_matches|trim_end|strip_suffix)$") and d["args"] and op_place(d["args"][0]) is not None:
            src = _iter_sources(body, op_place(d["args"][0])["l"])
            if src and (src & target):
                return True
    return False


def constant_index_guarded(body, t, block):
    """`x[k]` with a literal k: discharged when the call is dominated by the true edge of a test `x.len() == n` (n > k),
    `x.len() > k`, `x.len() >= k+1` or `!x.is_empty()` (k = 0) on a place of the same type reached through the same field."""
    if not fn_matches(t, r"ops::Index(Mut)?<.*>>::index(_mut)?$", r"ops::Index(Mut)?::index(_mut)?$", r"vec::Vec::<T, A>::(remove|swap_remove)$") or len(t["args"]) < 2:
        return False
    k = (op_const(t["args"][1]) or {}).get("int")
    if k is None:
        return False
    what = operand_origin(body, t["args"][0])
    for b2, t2 in body.calls():
        if body.is_cleanup(b2) or not fn_matches(t2, r"::len$", r"::is_empty$") or not t2["args"]:
            continue
        if operand_origin(body, t2["args"][0]) != what:
            continue
        is_len = fn_matches(t2, r"::len$")
        dst = t2["dst"]["l"]
        # the comparison and the switch on it
        for b3 in range(body.n):
            for st in body.stmts(b3):
                if st["k"] != "assign" or st["rv"]["k"] != "binop":
                    continue
                a, c = st["rv"]["a"], st["rv"]["b"]
                if op_local(a) != dst or (op_const(c) or {}).get("int") is None:
                    continue
                n = op_const(c)["int"]
                opn = st["rv"]["op"]
                cond = st["dst"]["l"]
                sw = body.term(b3)
                if sw["k"] != "switch" or op_local(sw["discr"]) != cond:
                    continue
                true_t = sw["otherwise"]
                false_t = next((tg for v, tg in sw["targets"] if v == 0), None)
                implies = (opn == "Eq" and n > k) or (opn == "Gt" and n >= k) or (opn == "Ge" and n > k)
                implies_on_false = (opn == "Ne" and n > k) or (opn == "Lt" and n > k) or (opn == "Le" and n >= k)
                if is_len and implies and body.dominates(true_t, block) and true_t != false_t:
                    return True
                if is_len and implies_on_false and false_t is not None and body.dominates(false_t, block):
                    return True
        if not is_len and k == 0:
            tgt = t2.get("target")
            sw = body.term(tgt) if tgt is not None else None
            if sw and sw["k"] == "switch" and op_local(sw["discr"]) == dst:
                false_t = next((tg for v, tg in sw["targets"] if v == 0), None)
                if false_t is not None and body.dominates(false_t, block):
                    return True
    return False


def switch_on_len_guarded(body, t, block):
    """`x[k]` inside the `n =>` arm (n > k) of `match x.len()`"""
    if not fn_matches(t, r"ops::Index(Mut)?<.*>>::index(_mut)?$", r"ops::Index(Mut)?::index(_mut)?$", r"vec::Vec::<T, A>::(remove|swap_remove)$") or len(t["args"]) < 2:
        return False
    k = (op_const(t["args"][1]) or {}).get("int")
    if k is None:
        return False
    what = operand_origin(body, t["args"][0])
    for b2, t2 in body.calls():
        if body.is_cleanup(b2) or not fn_matches(t2, r"::len$") or not t2["args"] or operand_origin(body, t2["args"][0]) != what:
            continue
        dst = t2["dst"]["l"]
        for b3 in range(body.n):
            sw = body.term(b3)
            if sw["k"] == "switch" and op_local(sw["discr"]) == dst:
                for v, tg in sw["targets"]:
                    if isinstance(v, int) and v > k and tg != sw["otherwise"] and body.dominates(tg, block):
                        return True
    return False


def justification(crate, caller, callee, origin, entries, _own={}):
    """the entry of reference/justified_panics.json that covers this site, or None"""
    cand = [e for e in entries if e["callee"] == callee and re.search(e["origin"], origin)]
    for e in cand:
        key = (id(crate), e["scope"])
        if key not in _own:
            _own[key] = crate.owned_by(e["scope"]) if e["scope"] in crate.by_path else {e["scope"]}
        if caller in _own[key] or fold_closures(caller) in _own[key]:
            return e
    # the same operation on the same kind of value, in the source file of the function the entry names (the code was moved
    # into a neighbour: another method of the type, a new struct in the same module)
    for e in cand:
        sb = crate.by_path.get(e["scope"]) or []
        cbs = crate.by_path.get(caller) or crate.by_path.get(fold_closures(caller)) or []
        scope_file = (sb[0].file() if sb else None) or e.get("file")      # the entry remembers the file, should the function be gone
        if cbs and scope_file and scope_file == cbs[0].file():
            return e
    if len(cand) > 1:
        # the same operation on the same kind of value is justified in several functions: a helper shared by exactly those
        key = (id(crate), tuple(sorted(e["scope"] for e in cand)))
        if key not in _own:
            _own[key] = crate.owned_by([e["scope"] for e in cand])
        if caller in _own[key] or fold_closures(caller) in _own[key]:
            return cand[0]
    return None


def fold_closures(path):
    return re.sub(r"::\{closure#\d+\}", "", path)


def discharged(body, site):
    t = body.term(site["block"])
    if t["k"] != "call":
        return None
    if fn_matches(t, r"quote::__private::mk_ident$") and t["args"]:
        # format_ident! whose text is, on every path, a constant that is an identifier
        l = op_local(t["args"][0])
        cs = [op_const(t["args"][0])] if op_const(t["args"][0]) is not None else [o.get("c") for o in M.origins(body, l)] if l is not None else []
        if cs and all(c and re.match(r"^[A-Za-z_][A-Za-z0-9_]*$", str(c.get("str") or "")) for c in cs):
            return "format_ident! of constant identifier text"
        # the text is assembled (`format_ident!("{name}")`): every value it can take, read symbolically, is an identifier
        try:
            from vlib import symstr as SS
            v = SS.merge_lits(SS.Sym(None, body).op(t["args"][0]))
            texts = [""]
            for a in v:
                if a[0] == "lit":
                    texts = [x + a[1] for x in texts]
                elif a[0] == "alts":
                    texts = [x + y for x in texts for y in a[1]]
                else:
                    texts = None
                    break
            if texts and all(re.match(r"^[A-Za-z_][A-Za-z0-9_]*$", x) for x in texts):
                return "format_ident! of text that is one of the identifiers %s on every path" % sorted(texts)
        except Exception:
            pass
    if fn_matches(t, r"option::Option::<T>::(expect|unwrap)$") and t["args"] and op_local(t["args"][0]) is not None:
        # `arr.split_last().expect(..)` / `first()` / `last()` on an array whose length is a positive constant
        for o in M.origins(body, op_local(t["args"][0]), identity=[]):
            if o["kind"] == "call" and fn_matches(o["t"], r"slice::<impl \[T\]>::(split_last|split_first|first|last|split_last_mut|split_first_mut|first_mut|last_mut)$") and o["t"]["args"]:
                seen_l = set()
                M.origins(body, op_local(o["t"]["args"][0]), visited=seen_l) if op_local(o["t"]["args"][0]) is not None else None
                lens = [int(m.group(1)) for l in seen_l for m in [re.search(r"^&?\[.*; (\d+)\]$", body.local_ty(l) or "")] if m]
                if lens and min(lens) > 0:
                    return "first/last element of an array of constant length %d" % min(lens)
    if index_in_range_by_construction(body, t):
        return "index is position(..)/len() of the collection it is applied to"
    if constant_index_guarded(body, t, site["block"]) or switch_on_len_guarded(body, t, site["block"]):
        return "constant index behind a dominating length test on the same place"
    return None


def discharged_by_callers(crate, body, site):
    """`Ident::new(name, span)` / `format_ident!("{name}")` on a *parameter* of a private helper: discharged when every call of
    that helper in the crate passes a string literal that is an identifier"""
    t = body.term(site["block"])
    if not fn_matches(t, r"proc_macro2::Ident::new$", r"quote::__private::mk_ident$") or not t["args"]:
        return None
    desc, root = operand_origin_ex(body, t["args"][0])
    if not desc.startswith("param") or root is None or not (1 <= root <= body.raw["arg_count"]):
        return None
    texts = []
    for cb in crate.bodies:
        for blk, ct in cb.calls():
            if cb.is_cleanup(blk) or not any(hb.path == body.path for hb in crate.call_targets(cb, ct, ())):
                continue
            if root - 1 >= len(ct["args"]):
                return None
            a = ct["args"][root - 1]
            cs = [op_const(a)] if op_const(a) is not None else [o.get("c") for o in M.origins(cb, op_local(a))] if op_local(a) is not None else []
            if not cs or not all(c and c.get("str") is not None for c in cs):
                return None
            texts += [c["str"] for c in cs]
    if texts and all(re.match(r"^[A-Za-z_][A-Za-z0-9_]*$", x) for x in texts):
        return "identifier text is a parameter; every caller passes one of the literals %s" % sorted(set(texts))
    return None


def discharged_with_helpers(crate, body, site):
    """`discharged`, looked at again with the helpers only this function uses spliced in (a value handed back by a helper -
    a name out of a table - is then visible)"""
    if site.get("discharged") or body.kind not in ("Fn", "AssocFn"):
        return site.get("discharged")
    ib = crate.ibody(body.path)
    if ib is None or ib.n == body.n:
        return None
    sp = body.term(site["block"]).get("span")
    for blk in range(ib.n):
        t = ib.term(blk)
        if t["k"] == "call" and not ib.is_cleanup(blk) and t.get("span") == sp and short(t) == site["callee"] and not ib.blocks[blk].get("inl"):
            return discharged(ib, {"block": blk})
    return None
