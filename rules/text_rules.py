"""Rules on the text-level routines of the derive (doc comments, escaping), decided on MIR: the routine is found by what
it does (a function or closure that replaces `*/`; the characters a function replaces or switches on), not by its name or
by the names of the variables its result is bound to."""
import re

from vlib.common import Result
from vlib import mirlib as M
from vlib.mirlib import fn_matches, op_local, op_place, op_const, origins


def _const_of(body, op):
    c = op_const(op)
    if c is not None:
        return c
    l = op_local(op)
    if l is None:
        return None
    cs = [o for o in origins(body, l, identity=[]) if o["kind"] == "const"]
    return cs[0]["c"] if len(cs) == 1 else None


def _char_or_str(c):
    if c is None:
        return None
    if c.get("str") is not None:
        return c["str"]
    if c.get("char") is not None:
        return c["char"]
    if isinstance(c.get("int"), int) and "char" in str(c.get("ty", "")):
        return chr(c["int"])
    m = re.match(r"^'(.*)'$", str(c.get("dbg") or ""))
    if m:
        return {"\\\\": "\\", "\\n": "\n", "\\r": "\r", "\\'": "'", '\\"': '"'}.get(m.group(1), m.group(1))
    return None


def _group_bodies(crate, path):
    b0 = crate.body(path)
    if b0 is None:
        return None, []
    group = crate.owned_by(path)
    return b0, [b for b in crate.bodies if b.path in group]


def fmt_arg_values(body, args_call):
    """operands displayed by one `fmt::Arguments::new(template, &[Argument::new_display(&a), ..])`, in slot order"""
    out = []
    for a in args_call["args"]:
        l = op_local(a)
        if l is None:
            continue
        for o in origins(body, l, identity=[]):
            if o["kind"] == "agg" and o["rv"].get("array") is not None or (o["kind"] == "agg" and not o["rv"].get("adt") and not o["rv"].get("tuple") and not o["rv"].get("closure")):
                for op in o["rv"]["ops"]:
                    ll = op_local(op)
                    for bb, i, d in (M.def_sites(body, ll) if ll is not None else []):
                        if i == "term" and fn_matches(d, r"fmt::rt::Argument.*::new_\w+$") and d["args"]:
                            out.append(d["args"][0])
    return out


def _templates_with_values(body):
    """[(block, decoded template, [operands])] for every format_args! in the body"""
    res = []
    for blk, t in body.calls():
        if body.is_cleanup(blk) or not fn_matches(t, r"fmt::Arguments::<'_>::new$", r"fmt::Arguments::<'a>::new$", r"fmt::Arguments.*::new::"):
            continue
        tmpl = None
        for a in t["args"]:
            l = op_local(a)
            if l is None:
                continue
            for o in origins(body, l, identity=[]):
                if o["kind"] == "const" and o.get("c") and str(o["c"].get("ty", "")).startswith("&[u8"):
                    tmpl = M.fmt_template(M._bytes_lit(o["c"].get("dbg")))
        if tmpl is not None:
            res.append((blk, tmpl, fmt_arg_values(body, t)))
    return res


def _escapers(crate, bodies, what="*/"):
    """functions / closures of the group that replace `what`"""
    out = {}
    for b in bodies:
        for blk, t in b.calls():
            if not b.is_cleanup(blk) and fn_matches(t, r"str::<impl str>::replace$") and len(t["args"]) > 2 and _char_or_str(_const_of(b, t["args"][1])) == what:
                out[b.path] = b
    return out


def _value_is_result_of(body, op, escapers, depth=0):
    """is the operand, on every path, the result of calling one of `escapers` (a local fn, or a closure bound to a variable)?"""
    l = op_local(op) if op_place(op) is None or not op_place(op)["p"] else op_place(op)["l"]
    if l is None:
        return False
    org = origins(body, l, stop=[re.escape(p) + "$" for p in escapers if "{closure" not in p] or None)
    calls = [o for o in org if o["kind"] == "call"]
    if not calls or any(o["kind"] in ("arg",) for o in org):
        return False
    for o in calls:
        t = o["t"]
        p = M.callee(t) or ""
        if p in escapers:
            continue
        if fn_matches(t, r"ops::Fn(Mut|Once)?::call(_mut|_once)?$", r"ops::function::Fn(Mut|Once)?::call") and t["args"]:
            # which closure is called
            cl = set()
            for oo in origins(body, op_place(t["args"][0])["l"] if op_place(t["args"][0]) else None):
                if oo["kind"] == "agg" and oo["rv"].get("closure"):
                    cl.add(oo["rv"]["closure"])
            if cl and cl <= set(escapers):
                continue
        return False
    return True


def docs_containment_rule(crate, prop, rule="C15.R3"):
    r = Result(rule, "doc text is neutralised on the *assembled* comment body: every value parse_docs (helpers and closures included) interpolates between `/**` and `*/` is, on every path, the result of the routine that replaces `*/` - whatever it is called and however it is written - or blank padding; a block body is never placed directly after `/**` (a body starting with `/` would form `/**/`)")
    b0, bodies = _group_bodies(crate, "utils::parse_docs")
    if b0 is None:
        r.fail(prop, "anchor-missing parse_docs", "not found")
        return r
    esc = _escapers(crate, bodies)
    r.inst(fn=b0.path, escaping_routines=sorted(esc))
    wrappers = 0
    for b in bodies:
        ib = crate.inlined(b) if b.kind != "Closure" else b
        for blk, tmpl, vals in _templates_with_values(ib):
            if not tmpl.startswith("/**"):
                continue
            if ib is not b and ib.blocks[blk].get("inl"):
                pass
            wrappers += 1
            f, l = M.user_span(ib.term(blk)["span"])
            for k, v in enumerate(vals):
                escaped = _value_is_result_of(ib, v, esc)
                lv = op_place(v)["l"] if op_place(v) else None
                org = [o for o in origins(ib, lv) if o["kind"] != "agg"] if lv is not None else []
                padding = bool(org) and all(o["kind"] == "const" and _char_or_str(o["c"]) is not None and _char_or_str(o["c"]).strip() == "" for o in org)
                r.inst(wrapper=tmpl.replace(M.ARG, "{}"), slot=k, escaped=escaped, padding=padding, where="%s:%s" % (f, l))
                if not (escaped or padding):
                    r.fail(prop, "doc-terminator-unescaped parse_docs", "a value placed between /** and */ (template %r, slot %d) is not the result of the routine that replaces `*/`: doc text such as `/// glob **/*.rs`, or a doc line starting with `/` after the ` *` prefix, ends the comment early" % (tmpl.replace(M.ARG, "{}"), k), f, l)
            if re.match(r"^/\*\*" + M.ARG + r"\*/", tmpl):
                r.fail(prop, "doc-block-unpadded parse_docs", "a block doc body is placed directly after `/**`: a body starting with `/` forms `/**/`", f, l)
    if wrappers < 2:
        r.fail(prop, "anchor-missing doc wrappers", "expected the block and the line JSDoc wrappers in parse_docs, found %d" % wrappers, b0.file(), b0.line())
    if not esc:
        r.fail(prop, "doc-terminator-unescaped parse_docs", "parse_docs has no routine replacing `*/`", b0.file(), b0.line())
    r.floor = 4
    return r


def docs_separator_rule(crate_macros, crate_rt, prop, rule="C15.R4"):
    r = Result(rule, "producer/consumer contract between doc rendering and merge(): merge() splits file content on blank lines, so text placed into a declaration must not contain one; the routine of parse_docs that neutralises `*/` also rewrites `\\n\\n`, either repeatedly until none is left or with a replacement that cannot form a new one")
    b0, bodies = _group_bodies(crate_macros, "utils::parse_docs")
    mg = crate_rt.body("export::merge")
    if b0 is None or mg is None:
        r.fail(prop, "anchor-missing parse_docs/merge", "not found")
        return r
    splits = []
    for b in [x for x in crate_rt.bodies if x.path in crate_rt.owned_by("export::merge")]:
        for blk, t in b.calls():
            if fn_matches(t, r"str::<impl str>::(split|split_once)") and len(t["args"]) >= 2 and (op_const(t["args"][1]) or {}).get("str") == "\n\n":
                splits.append(t["span"]["line"])
    r.inst(consumer="export::merge", splits_on_blank_line_at=splits)
    esc = _escapers(crate_macros, bodies)
    touched, sanit = [], []
    for p, b in esc.items():
        reps = [(blk, t) for blk, t in b.calls() if not b.is_cleanup(blk) and fn_matches(t, r"str::<impl str>::replace$") and len(t["args"]) > 2 and _char_or_str(_const_of(b, t["args"][1])) == "\n\n"]
        if not reps:
            continue
        touched.append(p)
        for blk, t in reps:
            rep = _char_or_str(_const_of(b, t["args"][2]))
            loop_test = [bb for bb, tt in b.calls() if fn_matches(tt, r"str::<impl str>::contains$") and len(tt["args"]) > 1 and _char_or_str(_const_of(b, tt["args"][1])) == "\n\n"
                         and bb in b.reachable_from([t["target"]] if t.get("target") is not None else [])]
            if rep is not None and "\n\n" not in rep and (loop_test or ("\n\n" not in rep + rep and not rep.endswith("\n") and not rep.startswith("\n"))):
                sanit.append(p)
    r.inst(producer="utils::parse_docs", escaping_routines=sorted(esc), rewrites_blank_lines=sorted(touched), eliminates_them=sorted(set(sanit)))
    if splits and touched and not sanit:
        b = esc[touched[0]]
        r.fail(prop, "merge-separator-incomplete parse_docs -> merge",
               "the blank-line rewrite runs once, and its replacement ends or begins with a newline: three consecutive newlines still leave an empty line inside the comment, which merge() takes for the end of the declaration", b.file(), b.line())
    elif splits and not sanit and (any(bb.term(blk)["k"] == "switch" and "char" in (bb.term(blk).get("discr_ty") or "") and any(v == 10 for v, _ in bb.term(blk)["targets"])
                                         for bb in bodies for blk in range(bb.n) if not bb.is_cleanup(blk)) or
                                     any(st["k"] == "assign" and st["rv"]["k"] == "binop" and st["rv"]["op"] in ("Eq", "Ne") and
                                         any((op_const(o) or {}).get("ty") == "char" and (op_const(o) or {}).get("int") == 10 for o in (st["rv"]["a"], st["rv"]["b"]))
                                         for bb in bodies for blk in range(bb.n) if not bb.is_cleanup(blk) for st in bb.stmts(blk))):
        # no `replace("\n\n", ..)`, but a pass over the characters that singles out the line feed: how it treats runs of
        # them is a string algorithm this rule does not read
        r.fail(prop, "anchor-missing blank-line elimination in parse_docs", "the doc text is rewritten character by character (a branch on the line feed); whether empty lines survive is not decided", b0.file(), b0.line())
    elif splits and not sanit:
        r.fail(prop, "merge-separator-unenforced parse_docs -> merge",
               "doc text reaches the declaration with its empty lines while merge() cuts declarations at blank lines: a blank line inside /** .. */ splits the declaration when a second type is merged into the file", b0.file(), b0.line())
    r.floor = 2
    return r


def escape_coverage_rule(crate, syn, prop, rule="C04.R10"):
    """what may not appear raw between double quotes in TypeScript: the quote, the backslash, and a line break"""
    r = Result(rule, "the routine that prepares text for a double-quoted TypeScript string (escape_string, helpers included) handles all four characters that cannot stand there as they are - `\\\\`, `\"`, LF and CR - either by a chain of replace() calls that starts with the backslash (so that the escapes it introduces are not escaped again) or in a single pass that switches on the character; the run-time twin in escaped_name() replaces the same four")
    b0, bodies = _group_bodies(crate, "utils::escape_string")
    if b0 is None:
        r.fail(prop, "anchor-missing escape_string", "not found")
        return r
    need = ["\\", '"', "\n", "\r"]
    reps, switched = [], set()
    # a helper the routine shares with others (`push_escaped(&mut buf, text)`, also used to quote property names) is part of it
    seen_paths = {x.path for x in bodies}
    for bx in list(bodies):
        for blk, tt in bx.calls():
            if bx.is_cleanup(blk):
                continue
            for hb in crate.call_targets(bx, tt, ()):
                if hb.path.startswith("utils::") and hb.path not in seen_paths:
                    seen_paths.add(hb.path)
                    bodies = bodies + [hb]
    for b in bodies:
        for blk in M.rpo(b):
            if b.is_cleanup(blk):
                continue
            t = b.term(blk)
            if t["k"] == "call" and fn_matches(t, r"str::<impl str>::replace$") and len(t["args"]) > 2:
                ch = _char_or_str(_const_of(b, t["args"][1]))
                if ch is not None:
                    reps.append(ch)
            if t["k"] == "switch" and op_local(t["discr"]) is not None and b.local_ty(op_local(t["discr"])) == "char":
                for v, tg in t["targets"]:
                    if isinstance(v, int) and tg != t["otherwise"]:
                        switched.add(chr(v))
    handled = set(reps) | switched
    missing = [c for c in need if c not in handled]
    order_ok = not reps or "\\" not in reps or reps[0] == "\\" or "\\" in switched
    r.inst(fn=b0.path, replace_chain=[repr(c) for c in reps], single_pass_cases=sorted(repr(c) for c in switched), missing=[repr(c) for c in missing], backslash_first=order_ok)
    if missing and not handled:
        r.fail(prop, "anchor-missing character handling in escape_string", "neither a replace chain nor a branch on characters found in escape_string and its helpers", b0.file(), b0.line())
    elif missing:
        r.fail(prop, "escape-incomplete utils::escape_string %s" % ",".join(repr(c).strip("'") for c in missing),
               "escape_string leaves %s as it is: `#[ts(rename = \"a\\nb\")]` (or a tag / variant name with a line break) puts a raw line break inside a double-quoted TypeScript string" % ", ".join(repr(c) for c in missing),
               b0.file(), b0.line())
    if not order_ok:
        r.fail(prop, "escape-order utils::escape_string", "the backslash is not the first character replaced: the backslashes introduced by the other escapes are escaped again", b0.file(), b0.line())
    # sibling: escaped_name() repeats the replacements at run time for names that are not literals (in generated code: a template)
    from vlib import quotelib as Q
    en = crate.ibody("utils::escaped_name")
    if en is not None:
        rt = []
        for t in Q.templates(en):
            fl = [x for x in t.flat() if isinstance(x, str)]
            for i in range(len(fl) - 3):
                if fl[i] == "replace" and fl[i + 1] == "(" and re.match(r"^'(\\?.)'$", fl[i + 2]):
                    ch = re.match(r"^'(\\?.)'$", fl[i + 2]).group(1)
                    rt.append({"\\\\": "\\", "\\\"": '"', "\\n": "\n", "\\r": "\r", '"': '"'}.get(ch, ch))
        rt_missing = [c for c in need if c not in rt]
        r.inst(fn=en.path, runtime_replacements=[repr(c) for c in rt], missing=[repr(c) for c in rt_missing])
        if rt_missing and rt:
            r.fail(prop, "escape-incomplete utils::escaped_name(runtime) %s" % ",".join(repr(c).strip("'") for c in rt_missing),
                   "the run-time twin of escape_string (for `rename = EXPR` that is not a literal) leaves %s as it is: `const N: &str = \"a\\nb\"; #[ts(rename = N)]` puts a raw line break inside a quoted name" % ", ".join(repr(c) for c in rt_missing),
                   en.file(), en.line())
    r.floor = 1
    return r


# ------------------------------------------------------------------ walkers over syn::Type

SYN_TYPE = ["Array", "BareFn", "Group", "ImplTrait", "Infer", "Macro", "Never", "Paren", "Path", "Ptr", "Reference", "Slice", "TraitObject", "Tuple", "Verbatim"]


def _reaches_walker(crate, group, cg, path, walker):
    """does `path` (a function or closure of the group) call the walker, directly or through other members of the group?"""
    seen, todo = set(), [path]
    while todo:
        p = todo.pop()
        if p in seen:
            continue
        seen.add(p)
        for q in cg.get(p, ()):
            if q == walker:
                return True
            if q in group:
                todo.append(q)
    return False


def type_walker_rule(crate, prop, rule, walker, leaf, leaf_kind, desc):
    """A recursive walker over syn::Type must visit every type constructor that a field type or an `as` type is built
    from: each constructor's arm leads back into the walker, the path arm descends into angle-bracketed arguments and
    into `<T as Trait>::Assoc`, and the leaf arm does the walker's job.  Read off the MIR: which discriminant value of
    syn::Type leads to which block, and whether a call into the walker (directly, through a helper, or in a closure handed
    to an iterator adaptor) is reachable from there."""
    r = Result(rule, desc)
    w0 = crate.body(walker)
    if w0 is None:
        r.fail(prop, "anchor-missing " + walker, "walker not found")
        return r
    name = walker.split("::")[-1]
    group = crate.owned_by(walker)
    cg = crate.callgraph(("TS",))
    b = crate.inlined(w0)
    sws = []
    for blk in range(b.n):
        sw = b.term(blk)
        if sw["k"] != "switch" or b.is_cleanup(blk) or op_local(sw["discr"]) is None:
            continue
        for bb, i, d in M.def_sites(b, op_local(sw["discr"])):
            if i != "term" and d["rv"]["k"] == "discr" and re.search(r"(^|[ &])(mut )?syn::Type$", b.local_ty(d["rv"]["pl"]["l"])) and not [x for x in d["rv"]["pl"]["p"] if x != "*"]:
                sws.append((blk, sw))
    if not sws:
        r.fail(prop, "anchor-missing %s match" % name, "no match on the constructor of the syn::Type being walked", w0.file(), w0.line())
        return r
    blk0, sw0 = sws[0]
    targets = {}
    for v, tg in sw0["targets"]:
        if isinstance(v, int) and v < len(SYN_TYPE):
            targets.setdefault(tg, []).append(SYN_TYPE[v])
    by_ctor = {c: tg for tg, cs in targets.items() for c in cs}

    def recursive_calls(region):
        out = []
        for x in region:
            t = b.term(x)
            if t["k"] != "call" or b.is_cleanup(x) or not t.get("fn"):
                continue
            p = t["fn"].get("res") or t["fn"].get("path") or ""
            if p == walker or (p in group and _reaches_walker(crate, group, cg, p, walker)):
                out.append((x, t))
                continue
            # a closure handed to an adaptor (for_each / map / filter_map ..): does its body come back here?
            for a in t["args"]:
                l = op_local(a)
                for o in (origins(b, l) if l is not None else []):
                    cl = o["rv"].get("closure") if o["kind"] == "agg" else None
                    if cl and cl in group and _reaches_walker(crate, group, cg, cl, walker):
                        out.append((x, t))
        return out

    # a walker that keeps the types still to be looked at on a work list: the subject of the match is popped off a Vec, and
    # an arm descends by pushing the nested type(s) onto that same Vec
    from rules import panics as _P
    worklists = set()
    for bb, i, d in M.def_sites(b, op_local(sw0["discr"])):
        if i != "term" and d["rv"]["k"] == "discr":
            for o in origins(b, d["rv"]["pl"]["l"]):
                if o["kind"] == "call" and fn_matches(o["t"], r"vec::Vec::<T, A>::pop$", r"VecDeque::<T, A>::pop_(front|back)$") and o["t"]["args"]:
                    worklists.add(_P.operand_origin_ex(b, o["t"]["args"][0])[1])
    _rec0 = recursive_calls

    def recursive_calls(region):
        out = _rec0(region)
        for x in region:
            t = b.term(x)
            if t["k"] == "call" and not b.is_cleanup(x) and t["args"] and fn_matches(t, r"vec::Vec::<T, A>::(push|extend_from_slice|append)$", r"Extend<.*>>::extend$", r"iter::Extend::extend$", r"VecDeque::<T, A>::push_(front|back)$") \
                    and _P.operand_origin_ex(b, t["args"][0])[1] in worklists and None not in worklists:
                out.append((x, t))
        return out

    others = set(by_ctor.values()) | {sw0["otherwise"]}
    for ctor in ("Array", "Group", "Paren", "Reference", "Slice", "Tuple", "Path"):
        tg = by_ctor.get(ctor)
        rec = False
        if tg is not None and tg != sw0["otherwise"]:
            region = b.reachable_from([tg], stop=lambda x: x in others and x != tg)
            rec = bool(recursive_calls(region))
        r.inst(fn=walker, constructor=ctor, has_own_arm=tg is not None and tg != sw0["otherwise"], recurses=rec)
        if not rec:
            r.fail(prop, "walker-coverage %s Type::%s" % (name, ctor),
                   "%s does not descend into Type::%s, so a type nested in that constructor is not %s" % (name, ctor, leaf), w0.file(), w0.line())
    # Path: generic arguments and qself
    bodies = [b] + [x for x in crate.bodies if x.path in group and x.path != walker]
    ga = False
    for bb in bodies:
        for blk in range(bb.n):
            sw = bb.term(blk)
            if sw["k"] != "switch" or bb.is_cleanup(blk) or op_local(sw["discr"]) is None:
                continue
            for b2, i, d in M.def_sites(bb, op_local(sw["discr"])):
                if i != "term" and d["rv"]["k"] == "discr" and "syn::GenericArgument" in bb.local_ty(d["rv"]["pl"]["l"]):
                    ga = True
    qself = any(".qself" in str(st) for bb in bodies for blk in range(bb.n) if not bb.is_cleanup(blk) for st in bb.stmts(blk) if st["k"] == "assign")
    r.inst(fn=walker, constructor="Path (generic arguments)", recurses=ga)
    r.inst(fn=walker, constructor="Path/qself", recurses=qself)
    if not ga:
        r.fail(prop, "walker-coverage %s Type::Path" % name, "%s does not descend into the angle-bracketed arguments of a path, so a type nested there is not %s" % (name, leaf), w0.file(), w0.line())
    if not qself:
        r.fail(prop, "walker-coverage %s Type::Path/qself" % name, "%s does not look at the self type of `<T as Trait>::Assoc`, so a type nested there is not %s" % (name, leaf), w0.file(), w0.line())
    if name == "replace_underscore":
        partial = [t for bb in bodies for blk, t in bb.calls() if not bb.is_cleanup(blk) and fn_matches(t, r"Punctuated::<T, P>::(last|last_mut|first|first_mut)$") and "PathSegment" in (t.get("arg_tys") or [""])[0]]
        loops = [t for bb in bodies for blk, t in bb.calls() if not bb.is_cleanup(blk) and fn_matches(t, r"(iter_mut|iter|into_iter)$") and "PathSegment" in (t.get("arg_tys") or [""])[0]]
        allseg = bool(loops) and not partial
        r.inst(fn=walker, constructor="Path (every segment)", recurses=allseg)
        if not allseg:
            r.fail(prop, "walker-coverage %s Type::Path/segments" % name,
                   "%s looks at one segment of a path only: in `#[ts(as = \"<Wire as Encode<_>>::Repr\")]` the `_` sits in a segment that is not the last one and stays in the generated code (E0121/E0282)", w0.file(), w0.line())
    # leaf
    if leaf_kind == "infer":
        tg = by_ctor.get("Infer")
        region = b.reachable_from([tg], stop=lambda x: x in others and x != tg) if tg is not None else set()
        ok_leaf = any(b.term(x)["k"] == "call" and fn_matches(b.term(x), r"clone::Clone::clone$") for x in region) and \
            any(st["k"] == "assign" and "*" in st["dst"]["p"] for x in region for st in b.stmts(x)) or \
            any(b.term(x)["k"] == "drop" for x in region) and any(b.term(x)["k"] == "call" and fn_matches(b.term(x), r"clone::Clone::clone$") for x in region)
    else:
        ok_leaf = any(fn_matches(t, r"collections::HashSet::<T, S(, A)?>::insert$", r"vec::Vec::<T, A>::push$") and panics_origin(bb, t).startswith("param")
                      for bb in bodies for blk, t in bb.calls() if not bb.is_cleanup(blk))
    r.inst(fn=walker, leaf=leaf, ok=bool(ok_leaf))
    if not ok_leaf:
        r.fail(prop, "walker-leaf %s" % name, "%s: the leaf action (%s) is not performed" % (name, leaf), w0.file(), w0.line())
    r.floor = 9
    return r


def panics_origin(body, t):
    from rules import panics
    return panics.operand_origin(body, t["args"][0]) if t["args"] else ""


def underscore_walker_rule(crate, prop, rule="C14.R8"):
    return type_walker_rule(crate, prop, rule, "attr::field::replace_underscore", "replaced by the field's own type", "infer",
                            "`_` in `#[ts(as = \"..\")]` stands for the field's type: replace_underscore substitutes it at every depth (array, none-delimited group from a `$t:ty` fragment, paren, reference, slice, tuple, generic arguments of every path segment, the self type of a qualified path)")


def type_param_walker_rule(crate, prop, rule="C16.R8"):
    return type_walker_rule(crate, prop, rule, "used_type_params", "given its `TS` bound", "param",
                            "the generated where-clause bounds every type parameter a field uses, at every depth (array, none-delimited group from a `$t:ty` fragment, paren, reference, slice, tuple, path arguments, the self type of a qualified path)")


def mentions_field(body, op, type_rx, field, steps=60):
    """does the operand derive (through moves, borrows, derefs and identity-like calls) from `<value of a type matching
    type_rx>.<field>`?"""
    pl = op_place(op)
    if pl is None:
        return False
    seen, todo = set(), [(pl["l"], tuple(pl["p"]))]
    while todo and steps > 0:
        steps -= 1
        l, pj = todo.pop()
        if (l, pj) in seen:
            continue
        seen.add((l, pj))
        if field in pj and re.search(type_rx, body.local_ty(l)):
            return True
        for bb, i, d in M.def_sites(body, l):
            if body.is_cleanup(bb):
                continue
            if i == "term":
                if fn_matches(d, *M.IDENTITY_CALLS) and d["args"] and op_place(d["args"][0]) is not None:
                    p2 = op_place(d["args"][0])
                    todo.append((p2["l"], tuple(p2["p"])))
            else:
                rv = d["rv"]
                p2 = op_place(rv["op"]) if rv["k"] in ("use", "cast") else rv.get("pl") if rv["k"] in ("ref", "rawptr") else None
                if p2 is not None:
                    todo.append((p2["l"], tuple(p2["p"])))
    return False


def where_clause_rule(crate, prop, rule="C16.R11"):
    """what the generated impl mentions under `as TS`, the where-clause bounds"""
    from rules import panics
    from rules.field_rules import _edge_constraints
    from rules.export_rules import _bool_switch
    r = Result(rule, "the generated where-clause bounds (a) every type parameter that is not made concrete - name() mentions all of them, whether a field uses them or not: generate_where_clause (helpers and closures included) walks Generics::type_params() and tests membership in the `concrete` map - and (b) a projection `<X as Tr>::Assoc` itself: used_type_params records the type it was given on the path where `qself` is present, but (c) only behind a test that involves the projection's self type (for `<Vec<T> as TS>::X` the bound on T is all that is needed, and an explicit bound on the projection makes the derive fail)")
    wf = crate.body("generate_where_clause")
    uf = crate.body("used_type_params")
    if wf is None or uf is None:
        r.fail(prop, "anchor-missing generate_where_clause", "not found")
        return r
    wg = [b for b in crate.bodies if b.path in crate.owned_by("generate_where_clause")]
    tp = any(fn_matches(t, r"Generics::type_params$") for b in wg for _, t in b.calls())
    ck = any(fn_matches(t, r"HashMap::<K, V, S(, A)?>::contains_key$", r"HashMap::<K, V, S(, A)?>::get$") and "Ident" in (t.get("arg_tys") or ["", ""])[0] for b in wg for _, t in b.calls())
    all_params = tp and ck
    r.inst(fn=wf.path, bounds_every_named_parameter=bool(all_params))
    if not all_params:
        r.fail(prop, "where-clause-omits-unused-params generate_where_clause",
               "only parameters found in field types are bounded, but name() uses `<T as TS>::name()` for every non-concrete parameter: `struct H<T> { id: u32, #[ts(skip)] m: PhantomData<T> }` does not compile (E0277 `T: TS`)", wf.file(), wf.line())
    b = crate.inlined(uf)
    inserts = []
    for blk, t in b.calls():
        if b.is_cleanup(blk) or not fn_matches(t, r"collections::HashSet::<T, S(, A)?>::insert$") or len(t["args"]) < 2:
            continue
        desc, root = panics.operand_origin_ex(b, t["args"][1])
        if (desc.startswith("param") and root == 2) or re.search(r"^call .*Vec::<T, A>::pop$", desc):
            inserts.append((blk, t))       # the type being looked at: the parameter, or the item taken off a work list
    proj_ins = [(blk, t) for blk, t in inserts if any(re.search(r"\.qself$", s) and v == 1 for s, v in _edge_constraints(b, blk))]
    proj = bool(proj_ins)
    over = False
    for blk, t in proj_ins:
        guarded = False
        for cb, ct in b.calls():
            if b.is_cleanup(cb) or not (fn_matches(ct, r"HashSet::<T, S(, A)?>::contains$", r"ops::Fn(Mut|Once)?::call(_mut|_once)?$", r"ops::function::Fn") or (ct.get("fn") or {}).get("path", "").endswith("is_type_param")):
                continue
            if not any(mentions_field(b, a, r"syn::QSelf", ".ty") or re.search(r"QSelf\.ty$|\.qself$", panics.operand_origin(b, a)) for a in ct["args"] if op_place(a) is not None):
                continue
            sw = _bool_switch(b, cb)
            if sw and sw[1] is not None and b.dominates(sw[1], blk):
                guarded = True
        if not guarded:
            over = True
    r.inst(fn=uf.path, records_the_projection_itself=proj, projection_bound_limited_to_parameter_self_types=not over)
    if over:
        f, l = M.user_span(proj_ins[0][1]["span"])
        r.fail(prop, "where-clause-bounds-normalisable-projection used_type_params",
               "every projection over anything that mentions a parameter gets a bound, also `<Vec<T> as TS>::OptionInnerType`: `#[ts(optional_fields)] struct P<T> { rest: Vec<T> }` then fails with E0277 although `T: TS` is all that is needed", f, l)
    if not proj:
        r.fail(prop, "where-clause-omits-projection used_type_params",
               "for `<X as Tr>::Assoc` only the parameters inside X are bounded, not the projection: `#[ts(optional_fields)] struct O<T> { t: T }` renders `<<T as TS>::OptionInnerType as TS>::name()` and does not compile", uf.file(), uf.line())
    r.floor = 2
    return r


# ------------------------------------------------------------------ rename_all spellings

def inflection_table_rule(crate, prop, rule="C09.R4"):
    """the eight spellings serde accepts for rename_all, each bound to the rule of the same name"""
    from rules.export_rules import _bool_switch
    r = Result(rule, "the attribute parser maps exactly serde's eight rename_all spellings to the rule of the same name (lowercase, UPPERCASE, camelCase, snake_case, PascalCase, SCREAMING_SNAKE_CASE, kebab-case, SCREAMING-KEBAB-CASE) and rejects every other string with an error; read off the MIR of parse_assign_inflection and the functions it was split into: which string comparison leads to which `Inflection::` value")
    WANT = {"lowercase": "Lower", "UPPERCASE": "Upper", "camelCase": "Camel", "snake_case": "Snake", "PascalCase": "Pascal",
            "SCREAMING_SNAKE_CASE": "ScreamingSnake", "kebab-case": "Kebab", "SCREAMING-KEBAB-CASE": "ScreamingKebab"}
    root = crate.body("attr::parse_assign_inflection")
    if root is None:
        r.fail(prop, "anchor-missing parse_assign_inflection", "not found")
        return r
    # the function that holds the table: parse_assign_inflection or something it calls
    cg = crate.callgraph(("TS",))
    reach, todo = set(), [root.path]
    while todo:
        p = todo.pop()
        if p in reach:
            continue
        reach.add(p)
        todo += [q for q in cg.get(p, ()) if q.startswith("attr::") or "{closure" in q]
    got, holder = {}, None
    for b in [x for x in crate.bodies if x.path in reach]:
        for blk, t in b.calls():
            if b.is_cleanup(blk) or not fn_matches(t, r"PartialEq.*::eq$", r"cmp::PartialEq::eq$") or len(t["args"]) < 2:
                continue
            lit = None
            for a in t["args"]:
                c = _const_of(b, a)
                if c is not None and c.get("str") is not None:
                    lit = c["str"]
            if lit is None:
                continue
            sw = _bool_switch(b, blk)
            if not sw or sw[1] is None:
                continue
            # the Inflection value built behind the true edge, before the arms rejoin
            sel = None
            region = b.reachable_from([sw[1]], stop=lambda x: len([p for p in b.preds()[x] if not b.is_cleanup(p)]) > 1 and x != sw[1])
            for x in sorted(region):
                for st in b.stmts(x):
                    if st["k"] == "assign" and st["rv"]["k"] == "agg" and str(st["rv"].get("adt", "")).endswith("Inflection") and sel is None:
                        sel = st["rv"].get("variant")
            if sel is not None:
                got[lit] = sel
                holder = b
    if holder is None:
        r.fail(prop, "anchor-missing rename_all table", "no comparison of the attribute's text with the rule names was found in parse_assign_inflection or what it calls", root.file(), root.line())
        return r
    for k, v in WANT.items():
        ok = got.get(k) == v
        r.inst(spelling=k, selects=got.get(k), expected=v, ok=ok, table_in=holder.path)
        if not ok:
            r.fail(prop, "rename-all-spelling %s" % k, "`rename_all = \"%s\"` selects %s, serde's rule of that name is %s" % (k, got.get(k), v), holder.file(), holder.line())
    for k in sorted(set(got) - set(WANT)):
        r.fail(prop, "rename-all-spelling-extra %s" % k, "`%s` is accepted for rename_all but is not one of serde's spellings" % k, holder.file(), holder.line())
    # everything else is an error: on the way from "no comparison matched" to the return of parse_assign_inflection an error is built
    errs = any(fn_matches(t, r"syn::Error::new(_spanned)?$", r"syn::error::Error::new") for b in crate.bodies if b.path in reach for _, t in b.calls())
    none_or_err = any(st["k"] == "assign" and st["rv"]["k"] == "agg" and st["rv"].get("variant") in ("None", "Err") and st["dst"]["l"] == 0
                      for blk in range(holder.n) for st in holder.stmts(blk)) or any(fn_matches(t, r"syn::Error::new") for _, t in holder.calls())
    r.inst(other_values_rejected=bool(errs and none_or_err))
    if not (errs and none_or_err):
        r.fail(prop, "rename-all-unknown-accepted", "a value that is not one of the eight spellings is not rejected with an error", holder.file(), holder.line())
    r.floor = 9
    return r
