"""C07 — declarations of generic types are parametric and well-scoped (emitter agreement clauses)."""
from rules import templates as T
from rules import field_rules as F
from rules import macro_mir as MM

ASSUMPTIONS = ["that decl() yields the same text for every argument is a run-time string fact and is NOT decided beyond the template shape"]


from rules import field_rules as FR


def run(ctx):
    out = [T.generics_rule(ctx.syn, "C07", crate=ctx.mir("default")["ts_rs_macros"]), T.decl_rule(ctx.syn, "C07", crate=ctx.mir("default")["ts_rs_macros"]), T.generated_state_rule(ctx.syn, "C07", "C07.R4"), F.intersection_operand_rule(ctx.mir("default")["ts_rs_macros"], "C07", "C07.R6"), FR.passthrough_fields_rule(ctx.mir("default")["ts_rs_macros"], "C07"), T.operand_scanner_rule(ctx.syn, "C07", rule="C07.R8")]
    for fs in ctx.featuresets():
        r = MM.import_shape_rule(ctx.mir(fs)["ts_rs"], "C07", rule="C07.R3")
        if fs == "default":
            from rules import export_rules as E
            out.append(E.type_arg_discipline_rule(ctx.mir(fs)["ts_rs"], "C07", rule="C07.R5"))
        if fs != "default":
            r.rule += "@" + fs
        out.append(r)
    return out
