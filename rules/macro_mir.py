"""MIR rules on the generator / runtime that complement the template rules."""
import re

from vlib.common import Result
from vlib import mirlib as M
from vlib.mirlib import fn_matches, op_local, op_place, origins


def fold(p):
    return re.sub(r"::\{closure#\d+\}", "", p)


def skip_rule(crate, prop, rule="C02.R2"):
    r = Result(rule, "every FieldAttr/VariantAttr value produced by from_attrs has its `skip` flag branched on, and no dependency is recorded and nothing is pushed to the output vectors on the skip == true side")
    n = 0
    for body in crate.bodies:
        if fold(body.path).endswith("::from_attrs"):
            continue
        sites = [(b, t) for b, t in body.calls() if re.search(r"(FieldAttr|VariantAttr)::from_attrs$", (t.get("fn") or {}).get("path", "")) and not body.is_cleanup(b)]
        if not sites:
            continue
        from rules.C16 import _value_locals
        for b, t in sites:
            vals = _value_locals(body, t)
            kind = t["fn"]["path"].split("::")[-2]
            # switches on <val>.skip
            sw = []
            for blk in range(body.n):
                term = body.term(blk)
                if term["k"] != "switch":
                    continue
                pl = op_place(term["discr"])
                if pl is None:
                    continue
                cand = [pl]
                # discr may be a temp copied from the field
                for db, i, d in M.def_sites(body, pl["l"]):
                    if i != "term" and d["rv"]["k"] == "use":
                        p2 = op_place(d["rv"]["op"])
                        if p2:
                            cand.append(p2)
                for p in cand:
                    if p["l"] in vals and ".skip" in p["p"]:
                        f_t = [tg for v, tg in term["targets"] if v == 0]
                        sw.append((blk, f_t[0] if f_t else None, term["otherwise"]))
            f, l = M.user_span(t["span"])
            n += 1
            # a helper may hand the flag (or the whole value) to its caller instead of branching itself
            delegated = False
            for blk in range(body.n):
                for st in body.stmts(blk):
                    if st["k"] == "assign" and st["dst"]["l"] == 0 and st["rv"]["k"] in ("use", "agg"):
                        ops = [st["rv"]["op"]] if st["rv"]["k"] == "use" else st["rv"]["ops"]
                        for o in ops:
                            p = op_place(o)
                            if p and p["l"] in vals:
                                delegated = True
            if not delegated and not sw:
                # `Ok(!attr.skip)`, `attr.skip || ..`: the flag itself (or a boolean computed from it) is what the helper returns
                seen_l, todo = set(), [0]
                while todo and not delegated:
                    cur = todo.pop()
                    if cur in seen_l:
                        continue
                    seen_l.add(cur)
                    for db, i, d in M.def_sites(body, cur):
                        if body.is_cleanup(db) or i == "term":
                            continue
                        rv = d["rv"]
                        ops = [rv["op"]] if rv["k"] in ("use", "cast") else rv["ops"] if rv["k"] == "agg" else [rv["a"]] if rv["k"] == "unop" else [rv["a"], rv["b"]] if rv["k"] == "binop" else []
                        for o in ops:
                            p = op_place(o)
                            if p is None:
                                continue
                            if p["l"] in vals and ".skip" in p["p"]:
                                delegated = True
                            todo.append(p["l"])
            r.inst(fn=fold(body.path), source=kind + "::from_attrs", where="%s:%s" % (f, l), skip_tested=bool(sw), returned_to_caller=delegated)
            if not sw and delegated:
                continue
            if not sw:
                r.fail(prop, "skip-untested %s <- %s::from_attrs" % (fold(body.path), kind), "the `skip` flag of this attribute value is never branched on: a skipped field/variant would still be emitted", f, l)
                continue
            # on the skip==true side (before rejoining / returning): no Dependencies::push/append_from and no Vec<TokenStream>::push
            for blk, false_t, true_t in sw:
                if false_t is None:
                    continue
                region = body.reachable_from([true_t], stop=lambda x: body.dominates(false_t, x) or x == false_t)
                only_true = region - body.reachable_from([false_t])
                for x in sorted(only_true):
                    term = body.term(x)
                    if term["k"] == "call" and not body.is_cleanup(x):
                        if fn_matches(term, r"deps::Dependencies::(push|append_from)$") or \
                                (fn_matches(term, r"vec::Vec::<T, A>::push$") and "TokenStream" in (term.get("arg_tys") or [""])[0]):
                            ff, ll = M.user_span(term["span"])
                            r.fail(prop, "emitted-on-skip %s" % fold(body.path), "%s happens on the skip == true side" % (term["fn"].get("res") or term["fn"]["path"]), ff, ll)
    # nothing is emitted *before* the flag has been looked at either: every emission in a function that reads attribute
    # values lies behind the not-skipped edge of one of its skip tests (an early `type = ".."` return in front of the test
    # emits a member that serde leaves out)
    for body in crate.bodies:
        if fold(body.path).endswith("::from_attrs"):
            continue
        sites = [(b, t) for b, t in body.calls() if re.search(r"(FieldAttr|VariantAttr)::from_attrs$", (t.get("fn") or {}).get("path", "")) and not body.is_cleanup(b)]
        if not sites:
            continue
        from rules.C16 import _value_locals
        vals = set()
        for b, t in sites:
            vals |= set(_value_locals(body, t))
        falses = []
        for blk in range(body.n):
            term = body.term(blk)
            if term["k"] != "switch" or body.is_cleanup(blk):
                continue
            pl = op_place(term["discr"])
            cand = [pl] if pl else []
            if pl:
                for db, i, d in M.def_sites(body, pl["l"]):
                    if i != "term" and d["rv"]["k"] == "use":
                        p2 = op_place(d["rv"]["op"])
                        if p2:
                            cand.append(p2)
            if any(p["l"] in vals and ".skip" in p["p"] for p in cand):
                f_t = [tg for v, tg in term["targets"] if v == 0]
                if f_t:
                    falses.append(f_t[0])
        if not falses:
            continue
        for x in range(body.n):
            term = body.term(x)
            if term["k"] != "call" or body.is_cleanup(x):
                continue
            if fn_matches(term, r"deps::Dependencies::(push|append_from)$") or \
                    (fn_matches(term, r"vec::Vec::<T, A>::push$") and "TokenStream" in (term.get("arg_tys") or [""])[0]):
                if not any(body.dominates(ft, x) for ft in falses):
                    ff, ll = M.user_span(term["span"])
                    r.inst(fn=fold(body.path), emission=term["fn"]["path"].split("::")[-1], where="%s:%s" % (ff, ll), behind_skip_test=False)
                    r.fail(prop, "emitted-before-skip-test %s" % fold(body.path),
                           "%s is reachable without passing the not-skipped edge of any `skip` test: a member that is `#[serde(skip)]` and has e.g. `#[ts(type = \"..\")]` is still emitted (`[number, string, string]` where serde writes two elements)" % (term["fn"].get("res") or term["fn"]["path"]),
                           ff, ll)
    r.floor = 7
    return r


def import_shape_rule(crate, prop, rule="C03.R3"):
    r = Result(rule, "imports are computed on the generics-erased type, the type itself is filtered out by TypeId, and an import is inserted only on the not-same-file edge of a test derived from the normalised relative specifier (import_path)")
    es = crate.body("export::export_to_string")
    gi = crate.body("export::generate_imports")
    if es is None or gi is None:
        r.fail(prop, "anchor-missing export_to_string/generate_imports", "not found")
        return r
    calls = [t for _, t in es.calls() if fn_matches(t, r"export::generate_imports$")]
    ok = bool(calls) and all("WithoutGenerics" in (t["fn"].get("args") or [""])[0] for t in calls)
    r.inst(fn=es.path, generate_imports_at=[(t["fn"].get("args") or ["?"])[0] for t in calls], erased=ok)
    own_deps = [t for blk, t in es.calls() if not es.is_cleanup(blk) and fn_matches(t, r"TS::dependencies$") and "WithoutGenerics" not in (t["fn"].get("args") or [""])[0]]
    if own_deps:
        # the list of dependencies is taken from T itself and handed on: the imports are those of the concrete instantiation
        ok = False
    if not ok:
        r.fail(prop, "imports-on-unerased-type export_to_string", "generate_imports is not instantiated at <T as TS>::WithoutGenerics: concrete type arguments would be imported although the declaration is generic", es.file(), es.line())
    # self filter: the dependency's TypeId is compared with TypeId::of::<T>() - in the body (helpers spliced in) the
    # outcome guards the insertion; in a closure handed to an iterator adaptor it is the adaptor's predicate
    gi = crate.ibody("export::generate_imports")
    group = crate.owned_by("export::generate_imports")
    def is_tid_cmp(t):
        return fn_matches(t, r"PartialEq.*::(ne|eq)$", r"cmp::PartialEq::(ne|eq)$") and any("TypeId" in a for a in (t.get("arg_tys") or []))
    has_of = any(fn_matches(t, r"TypeId::of$") for b in crate.bodies if b.path in group for _, t in b.calls())
    ins = [(b, t) for b, t in gi.calls() if fn_matches(t, r"BTreeSet::<T(, A)?>::insert$") and not gi.is_cleanup(b)]
    ip = [(b, t) for b, t in gi.calls() if fn_matches(t, r"export::import_path$") and not gi.is_cleanup(b)]
    filt = False
    for b in crate.bodies:
        if b.path in group and b.kind == "Closure" and any(is_tid_cmp(t) for _, t in b.calls()):
            filt = True
    for blk in range(gi.n):
        term = gi.term(blk)
        if term["k"] != "switch" or gi.is_cleanup(blk) or op_place(term["discr"]) is None:
            continue
        call, pos = M.flag_polarity(gi, op_place(term["discr"])["l"])
        if call is None or not is_tid_cmp(call):
            continue
        # pos: the switched value is true iff the two TypeIds are equal (negations and `ne` already counted)
        zero = [tg for v, tg in term["targets"] if v == 0]
        differ_edge = (zero[0] if zero else None) if pos else term["otherwise"]
        keyed_inserts = [b for b, t in gi.calls() if not gi.is_cleanup(b) and fn_matches(t, r"BTree(Set|Map)::<.*>::insert$", r"btree_map::Entry.*::or_")]
        if differ_edge is not None and any(gi.dominates(differ_edge, b) for b in keyed_inserts):
            filt = True
    r.inst(fn=gi.path, self_filter=filt and has_of)
    if not (filt and has_of):
        r.fail(prop, "self-import-filter-missing generate_imports", "dependencies are not filtered by `type_id != TypeId::of::<T>()`: a recursive type would import itself", gi.file(), gi.line())
    # same-file test
    if not ins or not ip:
        r.fail(prop, "anchor-missing import insertion", "no BTreeSet::insert / import_path call in generate_imports", gi.file(), gi.line())
        return r
    ok_any = False
    # the insertions that record an import: those that can follow the computation of the specifier (a set filled before,
    # e.g. to sort the dependencies first, is not what ends up in the file)
    after_ip = gi.reachable_from([b for b, _ in ip])
    ins = [(b, t) for b, t in ins if b in after_ip] or ins
    for blk in range(gi.n):
        term = gi.term(blk)
        if term["k"] != "switch" or gi.is_cleanup(blk):
            continue
        pl = op_place(term["discr"])
        if pl is None or gi.local_ty(pl["l"]) != "bool":
            continue
        calls, _, _ = M.deep_slice(gi, pl["l"])
        from_file_name = any(fn_matches(t, r"path::Path::file_name$") for _, t in calls)
        cap = any(fn_matches(t, r"export::import_path$") for _, t in calls)
        if not from_file_name:
            continue
        call, pos = M.flag_polarity(gi, pl["l"])
        zero = [tg for v, tg in term["targets"] if v == 0]
        # the flag says "same file" (an equality, or an Option chain ending in unwrap_or(false)); negations were counted
        not_same_edge = (zero[0] if zero else None) if pos else term["otherwise"]
        if not_same_edge is not None and all(gi.dominates(not_same_edge, b) for b, _ in ins):
            ok_any = True
            r.inst(fn=gi.path, same_file_test_block=blk, derived_from_import_path=cap, dominates_insertion=True)
            if not cap:
                r.fail(prop, "same-file-test-not-normalised generate_imports", "the same-file test does not use the normalised relative specifier returned by import_path: two spellings of one file would import from each other", gi.file(), gi.line())
    if not ok_any:
        r.fail(prop, "same-file-filter-missing generate_imports", "the import insertion is not guarded by a same-file test derived from the file name and the relative specifier", gi.file(), gi.line())
    r.floor = 3
    return r


def same_relation_rule(crate, prop, rule="C03.R4"):
    r = Result(rule, "imports (TS::dependencies) and exported files (export_recursive) are both driven by <T as TS>::visit_dependencies; the dependency record is built by Dependency::from_ty of the visited type")
    d = crate.body("TS::dependencies")
    ok = d is not None and any(fn_matches(t, r"TS::visit_dependencies$") and (t["fn"].get("args") or [""])[0] == "Self" for _, t in d.calls())
    r.inst(edge="TS::dependencies -> <Self as TS>::visit_dependencies", present=ok)
    if not ok:
        r.fail(prop, "edge-missing TS::dependencies -> visit_dependencies", "TS::dependencies() no longer walks visit_dependencies", d.file() if d else None, d.line() if d else None)
    v = [b for b in crate.bodies if b.raw.get("assoc_name") == "visit" and "TS::dependencies::Visit" in (b.raw.get("impl_self") or "")]
    ok = bool(v) and any(fn_matches(t, r"Dependency::from_ty$") and (t["fn"].get("args") or [""])[0] == "T" for _, t in v[0].calls())
    r.inst(edge="dependencies::Visit::visit -> Dependency::from_ty::<T>", present=ok)
    if not ok:
        r.fail(prop, "edge-missing Visit::visit -> Dependency::from_ty", "the dependency visitor does not record Dependency::from_ty::<T>()")
    from rules.export_rules import walker_roles, module_visit_types
    er = walker_roles(crate)[0]
    walked = module_visit_types(crate)
    ok = er is not None and bool(walked)
    r.inst(edge="export_recursive -> <T as TS>::visit_dependencies", present=ok)
    if not ok:
        r.fail(prop, "edge-missing export_recursive -> visit_dependencies", "exported files are not driven by visit_dependencies")
    # the file written for T declares T::WithoutGenerics and imports what *that* type depends on (export_to_string ->
    # generate_imports::<T::WithoutGenerics>).  With `concrete(..)` its dependencies differ from T's, so the exporter has to walk
    # them as well, or the file imports something nobody wrote.
    ok = er is not None and any("WithoutGenerics" in a for _, _, _, a in walked)
    r.inst(edge="export_recursive -> <T::WithoutGenerics as TS>::visit_dependencies", present=ok)
    if not ok:
        r.fail(prop, "exporter-walks-other-relation-than-importer export_recursive",
               "imports are computed from the dependencies of T::WithoutGenerics, exported files from those of T only: with `#[ts(concrete(D = Sql))] struct Connection<D: Driver> { info: D::Info }` used as `Connection<Kv>`, Connection.ts imports `./SqlInfo`, which export_all never writes",
               er.file() if er else None, er.line() if er else None)
    r.floor = 4
    return r
