"""C12 — built-in impls describe serde's representation of library types."""
from rules import libimpls as L

ASSUMPTIONS = ["reference/serde_classes.json states serde's JSON shape for std types (from serde's documentation and impls)",
               "value-level agreement and third-party crate types are NOT decided (reported as unclassified)"]


def run(ctx):
    out = []
    fsets = ctx.featuresets()
    if "allimpl" not in fsets:
        fsets = fsets + ["allimpl"]   # the feature-gated impls (chrono, serde_json, tokio, ..) are only type-checked there
    for fs in fsets:
        c = ctx.mir(fs)["ts_rs"]
        res = [L.visit_agreement_rule(c, "C12"), L.totality_rule(c, "C12"), L.forwarding_rule(c, "C12")]
        if fs == "default":
            # the expanded impls of every feature are at hand in the `allimpl` build: used when a macro is not read from source
            res.insert(0, L.class_table_rule(ctx.syn, ctx.mir("allimpl")["ts_rs"], "C12"))
            res.append(L.map_key_rule(ctx.syn, "C12", crate=c))
        for r in res:
            if fs != "default":
                r.rule += "@" + fs
                r.floor = None
        out += res
    return out
