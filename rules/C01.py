"""C01 — serialized values inhabit the generated type (representation-class, naming and enum-matrix clauses)."""
from rules import templates as T
from rules import field_rules as F
from rules import libimpls as L
from rules import macro_mir as MM

ASSUMPTIONS = ["reference/serde_classes.json and the enum representation matrix encode serde's documented data model",
               "flatten/tag composition, nesting and value-level agreement are NOT decided"]


def run(ctx):
    c = ctx.mir("default")["ts_rs"]
    return [L.class_table_rule(ctx.syn, c, "C01", rule="C01.R1"), L.forwarding_rule(c, "C01", rule="C01.R8"), F.naming_rule(ctx.mir("default")["ts_rs_macros"], "C01", rule="C01.R2"),
            F.rename_all_fields_rule(ctx.mir("default")["ts_rs_macros"], "C01", rule="C01.R2b"), F.variant_rule(ctx.mir("default")["ts_rs_macros"], "C01"), F.struct_tag_first_rule(ctx.mir("default")["ts_rs_macros"], "C01"), T.variant_tag_rule(ctx.syn, "C01"), T.struct_dispatch_rule(ctx.syn, "C01", crate=ctx.mir("default")["ts_rs_macros"]), F.variant_name_flow_rule(ctx.mir("default")["ts_rs_macros"], "C01", rule="C01.R7"), MM.skip_rule(ctx.mir("default")["ts_rs_macros"], "C01", rule="C01.R8")]
