"""C17 — export failures are returned as errors and do not poison later exports (structural clauses)."""
from rules import export_rules as E
from rules import export_panics as P

ASSUMPTIONS = ["justified panic sites in reference/justified_panics.json were judged by reading the code",
               "calls dispatched into user TS impls are outside the scope of the inventory"]


def run(ctx):
    out = []
    for fs in ctx.featuresets():
        c = ctx.mir(fs)["ts_rs"]
        res = [E.error_discipline_rule(c, "C17"), E.record_after_success_rule(c, "C17"), P.export_panic_rule(c, "C17"),
               P.lock_panic_rule(c, "C17"), E.path_agreement_rule(c, "C17"), E.walk_rule(c, "C17"), E.normaliser_purity_rule(c, "C17", rule="C17.R8"), E.normalisation_owner_rule(c, "C17"), E.entry_reaches_writer_rule(c, "C17", rule="C17.R10")]
        for r in res:
            if fs != "default":
                r.rule += "@" + fs
        out += res
    out.append(E.normaliser_rule(ctx.syn, "C17", crate=ctx.mir("default")["ts_rs"]))
    return out
