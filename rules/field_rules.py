"""Rules on how the derive names and documents the members it emits, decided on MIR (helpers spliced in) and on the
quote! templates recovered from it (vlib.quotelib): nothing here depends on the names of local variables, on whether a
step is written in place or in a helper, or on match / if-let / let-else spelling."""
import re

from vlib.common import Result
from vlib import mirlib as M
from vlib import quotelib as Q
from vlib import synlib as S
from vlib.mirlib import fn_matches, op_local, op_place, op_const, origins
from rules import panics

FIELD_FN = "types::named::format_field"
VARIANT_FN = "types::r#enum::format_variant"
MEMBER_LIT = re.compile(r"^(\{\})(\{\})(\{\})?: \{\},$")


def member_templates(crate):
    """(body, [(template, literal, [slot locals])]) for the templates of format_field that emit `<docs><name>[?]: <type>,`"""
    b = crate.ibody(FIELD_FN)
    if b is None:
        return None, []
    out = []
    for t in Q.templates(b):
        for lit, args in S.format_calls(t.tokens):
            v = S.unquote(lit) or ""
            if re.match(r"^(\{\})+: \{\},$", v):
                out.append((t, v, [l for _, l, _ in t.interps]))
    return b, out


def _comp(proj):
    p = [x for x in (proj or []) if x != "*"]
    return int(p[0][1:]) if p and re.match(r"^\.\d+$", p[0]) else None


def _only_calls(body, local, rx, proj=None):
    org = origins(body, local, stop=[rx], transparent=True, component=_comp(proj))
    calls = [o for o in org if o["kind"] == "call"]
    return bool(calls) and all(fn_matches(o["t"], rx) for o in calls) and not any(o["kind"] in ("arg", "const") for o in org)


def quoting_rule(crate, prop, rule="C04.R2"):
    r = Result(rule, "every property-name slot of a member template (`<docs><name>[?]: <type>,`) emitted by named::format_field - helpers included - is filled with the direct result of raw_name_to_ts_field(..) on every path (names that are not identifier-like get quoted)")
    b, mts = member_templates(crate)
    if b is None:
        r.fail(prop, "anchor-missing format_field", "not found")
        return r
    for t, lit, slots in mts:
        if not MEMBER_LIT.match(lit):
            r.fail(prop, "member-template-shape format_field", "member template literal %r is not `<docs><name>[?]: <type>,`" % lit, t.file, t.line)
            continue
        name_local = slots[1] if len(slots) > 1 else None
        ok = name_local is not None and _only_calls(b, name_local, r"utils::raw_name_to_ts_field$", t.projs[1] if len(t.projs) > 1 else None)
        if not ok and name_local is not None:
            # the name may travel in a struct of the crate (`FieldKey { name, docs }`): followed to where that struct is filled
            desc = panics.operand_origin(b, {"k": "copy", "pl": {"l": name_local, "p": list(t.projs[1] if len(t.projs) > 1 else [])}})
            mcar = re.match(r"^field (\S+)\.(\w+)$", desc)
            sites = []
            if mcar and not re.search(r"Attr$", mcar.group(1)):
                for bx in crate.bodies:
                    for blk in range(bx.n):
                        for st in bx.stmts(blk):
                            if st["k"] == "assign" and st["rv"]["k"] == "agg" and (st["rv"].get("adt") or "") == mcar.group(1) and mcar.group(2) in (st["rv"].get("fields") or []):
                                o = st["rv"]["ops"][st["rv"]["fields"].index(mcar.group(2))]
                                sites.append(op_local(o) is not None and _only_calls(crate.ibody(bx.path) if bx.kind in ("Fn", "AssocFn") and False else bx, op_local(o), r"utils::raw_name_to_ts_field$"))
            if sites and all(sites):
                ok = True
            elif not sites and (desc.startswith("param") or mcar):
                r.inst(fn=FIELD_FN, where="%s:%s" % (t.file, t.line), template=lit, name_slot_from=desc, verdict="undecided: where the name comes from is not visible here")
                continue
        r.inst(fn=FIELD_FN, where="%s:%s" % (t.file, t.line), template=lit, name_slot_from=sorted({(M.callee(o["t"]) or "?") if o["kind"] == "call" else o["kind"] for o in origins(b, name_local, stop=[r"utils::raw_name_to_ts_field$"], transparent=True, component=_comp(t.projs[1] if len(t.projs) > 1 else None))}) if name_local is not None else None, quoted=ok)
        if not ok:
            r.fail(prop, "unquoted-property-name format_field", "the property name interpolated into %r at line %s is not the direct result of raw_name_to_ts_field(..): names such as `foo-bar` would be emitted unquoted" % (lit, t.line), t.file, t.line)
    r.floor = 2
    return r


def docs_slot_rule(crate, prop, rule="C15.R2a"):
    r = Result(rule, "every member template of named::format_field carries the field's documentation in its first slot: the value is the empty string when FieldAttr.docs is empty and a line feed followed by FieldAttr.docs otherwise")
    b, mts = member_templates(crate)
    if b is None:
        r.fail(prop, "anchor-missing format_field", "not found")
        return r
    from rules.export_rules import _bool_switch

    def evaluate(b, l0, comp):
        calls, _, consts = M.deep_slice(b, l0, component=comp) if l0 is not None else ([], set(), [])
        # the choice between the two is made by `docs.is_empty()`: the formatted alternative sits behind its false edge
        tests_docs = False
        fmt_blocks = [blk for blk, c in calls if fn_matches(c, r"fmt::format$")]
        for blk, c in b.calls():
            if not b.is_cleanup(blk) and fn_matches(c, r"String::is_empty$", r"str::<impl str>::is_empty$") and c["args"] and re.search(r"FieldAttr\.docs$", panics.operand_origin(b, c["args"][0])):
                sw = _bool_switch(b, blk)
                if sw and sw[0] is not None and fmt_blocks and all(b.dominates(sw[0], fb) for fb in fmt_blocks):
                    tests_docs = True
        disp_docs = any(fn_matches(c, r"fmt::rt::Argument.*new_display") and c["args"] and re.search(r"FieldAttr\.docs$", panics.operand_origin(b, c["args"][0])) for _, c in calls)
        tmpl = None
        for _, c in calls:
            if fn_matches(c, r"fmt::Arguments"):
                for a in c["args"]:
                    if op_local(a) is None:
                        continue
                    for o in origins(b, op_local(a), identity=[]):
                        if o["kind"] == "const" and o.get("c") and str(o["c"].get("ty", "")).startswith("&[u8"):
                            tmpl = M.fmt_template(M._bytes_lit(o["c"].get("dbg")))
        empty = any((c or {}).get("str") == "" for c in consts) or any(fn_matches(c, r"String::new$") for _, c in calls)
        ok = tests_docs and disp_docs and tmpl == "\n" + M.ARG and empty
        return disp_docs, ok, dict(first_slot_reads_docs=disp_docs, chosen_by_is_empty=tests_docs, prefix=tmpl, empty_alternative=empty)
    for t, lit, slots in mts:
        l0 = slots[0] if slots else None
        comp = _comp(t.projs[0] if t.projs else None)
        disp_docs, ok, det = evaluate(b, l0, comp)
        if not ok and l0 is not None:
            # the prefix may travel in a struct of the crate (`FieldKey { name, docs }`): judged where that struct is filled
            desc = panics.operand_origin(b, {"k": "copy", "pl": {"l": l0, "p": list(t.projs[0] if t.projs else [])}})
            mcar = re.match(r"^field (\S+)\.(\w+)$", desc)
            res = []
            if mcar and not re.search(r"Attr$", mcar.group(1)):
                for bx in crate.bodies:
                    for blk in range(bx.n):
                        for st in bx.stmts(blk):
                            if st["k"] == "assign" and st["rv"]["k"] == "agg" and (st["rv"].get("adt") or "") == mcar.group(1) and mcar.group(2) in (st["rv"].get("fields") or []):
                                o = st["rv"]["ops"][st["rv"]["fields"].index(mcar.group(2))]
                                if op_local(o) is not None:
                                    res.append(evaluate(bx, op_local(o), None))
            if res:
                disp_docs, ok = all(x[0] for x in res), all(x[1] for x in res)
                det = dict(res[0][2], carried_by=mcar.group(1))
            elif mcar or desc.startswith("param"):
                r.inst(fn=FIELD_FN, where="%s:%s" % (t.file, t.line), first_slot_from=desc, verdict="undecided: where the first slot comes from is not visible here")
                continue
        r.inst(fn=FIELD_FN, where="%s:%s" % (t.file, t.line), ok=ok, **det)
        if not disp_docs:
            r.fail(prop, "member-docs-dropped format_field", "a member template does not start with the field's doc comment: documentation of that field would be lost", t.file, t.line)
        elif not ok:
            r.fail(prop, "doc-prefix-shape format_field", "the first slot is not `\"\\n\" + field docs` when non-empty / empty otherwise", t.file, t.line)
    r.floor = 2
    return r


# ------------------------------------------------------------------ naming

def _subject(body, place):
    """what a discriminant test looks at, as panics.operand_origin describes it (tuples built for a `match (a, b)` are
    looked through)"""
    cur, proj = place["l"], [x for x in place["p"] if x != "*"]
    for _ in range(6):
        idx = next((x for x in proj if re.match(r"^\.\d+$", x)), None)
        ds = M.real_defs(body, cur)
        if idx is not None and len(ds) == 1 and ds[0][1] != "term" and ds[0][2]["rv"]["k"] == "agg" and ds[0][2]["rv"].get("tuple"):
            op = ds[0][2]["rv"]["ops"][int(idx[1:])]
            if op_place(op) is None:
                return "const"
            rest = proj[proj.index(idx) + 1:]
            cur, proj = op_place(op)["l"], [x for x in op_place(op)["p"] if x != "*"] + rest
            continue
        break
    return panics.operand_origin(body, {"k": "copy", "pl": {"l": cur, "p": [x for x in proj if x.startswith(".") and not x.startswith(".Some") and "::" not in x]}})


def _edge_constraints(body, block):
    """[(subject, discriminant value)] of the switch edges that dominate `block`"""
    out = []
    dom = body.dominators()
    try_switches = {e["switch_block"] for e in M.try_edges(body)}
    for w in sorted(dom.get(block, ())):
        sw = body.term(w)
        if sw["k"] != "switch" or w == block or w in try_switches:
            continue
        dl = op_local(sw["discr"])
        discr_op = sw["discr"]
        if dl is None:
            # `match (a, flag) { (.., true) => .. }`: the switch reads a component of the scrutinee tuple
            dpl = op_place(sw["discr"])
            if dpl is not None and len(dpl["p"]) == 1 and re.match(r"^\.\d+$", dpl["p"][0]):
                tds = [d for d in M.real_defs(body, dpl["l"]) if not body.is_cleanup(d[0])]
                if len(tds) == 1 and tds[0][1] != "term" and tds[0][2]["rv"]["k"] == "agg" and tds[0][2]["rv"].get("tuple") and int(dpl["p"][0][1:]) < len(tds[0][2]["rv"]["ops"]):
                    discr_op = tds[0][2]["rv"]["ops"][int(dpl["p"][0][1:])]
                    dl = op_local(discr_op)
        if dl is None:
            continue
        subj = None
        for bb, i, d in M.def_sites(body, dl):
            if i != "term" and d["rv"]["k"] == "discr":
                subj = _subject(body, d["rv"]["pl"])
        flip = False
        if subj is None:
            dsl = M.real_defs(body, dl)
            if len(dsl) == 1 and dsl[0][1] == "term" and fn_matches(dsl[0][2], r"::len$") and dsl[0][2]["args"]:
                subj = "len of " + panics.operand_origin(body, dsl[0][2]["args"][0])      # `match x.len() { 0 => .., 1 => .., _ => .. }`
        if subj is None and body.local_ty(dl) == "bool":
            o = panics.operand_origin(body, discr_op)
            if o.startswith("field "):
                subj = o          # a boolean field tested directly
            else:
                call, pos = M.flag_polarity(body, dl)
                if call is not None and fn_matches(call, r"option::Option::<T>::(is_some|is_none)$") and call["args"]:
                    o2 = panics.operand_origin(body, call["args"][0])
                    if o2.startswith("field "):
                        # `x.is_some()` / `x.is_none()`: reported as the Option's discriminant (1 = Some)
                        subj = o2
                        flip = (not pos) != fn_matches(call, r"is_none$")
        if subj is None:
            continue
        edges = [(v, tg) for v, tg in sw["targets"]] + [("otherwise", sw["otherwise"])]
        took = [v for v, tg in edges if tg == block or body.dominates(tg, block)]
        if len(took) == 1:
            v = took[0]
            if v == "otherwise":
                vals = {x for x, _ in sw["targets"]}
                v = 1 if vals == {0} else 0 if vals == {1} else "otherwise"
            if flip and v in (0, 1):
                v = 1 - v
            out.append((subj, v))
    return out


def _classify(body, d, apply_rx, unraw_rx):
    """what one definition of the name is: ('verbatim', ..) the rename text, ('applied', callee) a rename_all conversion,
    ('ident', ..) the un-raw'ed identifier, ('other', ..)"""
    b, i, dd = d
    if i == "term":
        t = dd
        if fn_matches(t, r"attr::Inflection::apply\w*$"):
            return "applied", M.callee(t)
        if fn_matches(t, *unraw_rx):
            return "ident", M.callee(t)
        if fn_matches(t, *M.IDENTITY_CALLS) or fn_matches(t, r"utils::make_string_literal$"):
            # look through: classify the argument
            p = op_place(t["args"][0]) if t["args"] else None
            if p is not None:
                return _classify_local(body, p["l"], apply_rx, unraw_rx, [x for x in p["p"] if x.startswith(".")])
        return "other", M.callee(t)
    rv = dd["rv"]
    if rv["k"] in ("use", "cast") and op_place(rv["op"]) is not None:
        p = op_place(rv["op"])
        return _classify_local(body, p["l"], apply_rx, unraw_rx, [x for x in p["p"] if x.startswith(".")])
    if rv["k"] == "ref":
        p = rv["pl"]
        return _classify_local(body, p["l"], apply_rx, unraw_rx, [x for x in p["p"] if x.startswith(".")])
    return "other", rv["k"]


def _classify_local(body, local, apply_rx, unraw_rx, proj=(), depth=0):
    if any(re.search(r"\.rename$", x) or x == ".rename" for x in proj):
        return "verbatim", "rename"
    o = panics.operand_origin(body, {"k": "copy", "pl": {"l": local, "p": list(proj)}})
    if re.search(r"Attr\.rename$", o):
        return "verbatim", o
    ds = M.real_defs(body, local)
    if len(ds) != 1 or depth > 12:
        return "other", o
    b, i, dd = ds[0]
    if i != "term" and dd["rv"]["k"] in ("use", "cast", "ref"):
        p = op_place(dd["rv"]["op"]) if dd["rv"]["k"] != "ref" else dd["rv"]["pl"]
        if p is None:
            return "other", "const"
        return _classify_local(body, p["l"], apply_rx, unraw_rx, [x for x in p["p"] if x.startswith(".")], depth + 1)
    return _classify(body, ds[0], apply_rx, unraw_rx)


def _name_defs(body, sink_local):
    """the definitions of the value that reaches `sink_local`: walk back through moves until a local with several
    definitions (one per arm) or a call"""
    cur = sink_local
    for _ in range(30):
        ds = M.real_defs(body, cur)
        if len(ds) != 1:
            return cur, ds
        b, i, dd = ds[0]
        if i == "term":
            if fn_matches(dd, *M.IDENTITY_CALLS) and dd["args"] and op_place(dd["args"][0]) is not None and not op_place(dd["args"][0])["p"]:
                cur = op_place(dd["args"][0])["l"]
                continue
            return cur, ds
        rv = dd["rv"]
        nxt = op_place(rv["op"]) if rv["k"] in ("use", "cast") else rv.get("pl") if rv["k"] == "ref" else None
        if nxt is None or [x for x in nxt["p"] if x != "*"]:
            return cur, ds
        cur = nxt["l"]
    return cur, []


def naming_rule(crate, prop, rule="C09.R2"):
    r = Result(rule, "at the naming sites of named::format_field and enum::format_variant (helpers included): a definition of the name that is the `rename` text is only reached when `rename` is Some; one that applies `rename_all` only when `rename` is None and `rename_all` is Some, applies the conversion of the right kind (fields: apply_to_field, variants: apply_to_variant) and applies it to the un-raw'ed identifier; one that is the plain un-raw'ed identifier only when both are None.  Decided per definition from the discriminant tests that dominate it; a definition that cannot be classified is recorded as undecided")
    UNRAW = [r"utils::to_ts_ident$", r"IdentExt.*::unraw$", r"ext::IdentExt::unraw$"]
    for fn_path, role, good, bad in ((FIELD_FN, "field", r"apply_to_field$", r"apply_to_variant$"), (VARIANT_FN, "variant", r"apply_to_variant$", r"apply_to_field$")):
        b = crate.ibody(fn_path)
        if b is None:
            r.fail(prop, "anchor-missing " + fn_path, "not found")
            continue
        applies = [(blk, t) for blk, t in b.calls() if not b.is_cleanup(blk) and fn_matches(t, r"attr::Inflection::apply\w*$")]
        # the call sites of the naming function itself (and of its helpers), not the conversions' own recursion
        own_applies = [(blk, t) for blk, t in applies if not re.search(r"Inflection", b.blocks[blk].get("inl") or "")]
        for blk, t in own_applies:
            f, l = M.user_span(t["span"])
            wrong = fn_matches(t, bad)
            # the identifier handed to the conversion is un-raw'ed
            a1 = op_local(t["args"][1]) if len(t["args"]) > 1 else None
            calls, _, _ = M.deep_slice(b, a1) if a1 is not None else ([], set(), [])
            unrawed = any(fn_matches(c, *UNRAW) for _, c in calls)
            rawtxt = any(not re.search(r"to_ts_ident|unraw", b.blocks[blk_c].get("inl") or "") and fn_matches(c, r"ToString::to_string$", r"Ident::to_string$") and "Ident" in (c.get("arg_tys") or [""])[0] and not re.search(r"call .*unraw|call utils::to_ts_ident", panics.operand_origin(b, c["args"][0])) and "proc_macro2::Ident" in (c.get("arg_tys") or [""])[0]
                         and not any(fn_matches(c2, *UNRAW) for _, c2 in M.deep_slice(b, op_local(c["args"][0]))[0]) for blk_c, c in calls if c["args"] and op_local(c["args"][0]) is not None)
            r.inst(fn=fn_path, role=role, where="%s:%s" % (f, l), conversion=M.callee(t), identifier_unrawed=unrawed and not rawtxt)
            if wrong:
                r.fail(prop, "conversion-role %s" % fn_path, "a %s naming site uses %s" % (role, (M.callee(t) or "").split("::")[-1]), f, l)
            if not unrawed or rawtxt:
                r.fail(prop, "raw-identifier-name %s" % fn_path.split("::", 1)[-1], "the identifier given to the rename_all conversion does not come from to_ts_ident(..)/unraw(): `r#type` would be converted and emitted with its `r#`", f, l)
        # closures of the naming function (`.unwrap_or_else(|| ..)`) are part of the site: the kind of conversion is checked there too
        grp = crate.owned_by(fn_path)
        for cb in crate.bodies:
            if cb.kind == "Closure" and cb.path in grp:
                for blk, t in cb.calls():
                    if not cb.is_cleanup(blk) and fn_matches(t, r"attr::Inflection::apply\w*$") and fn_matches(t, bad):
                        f, l = M.user_span(t["span"])
                        r.inst(fn=cb.path, role=role, where="%s:%s" % (f, l), conversion=M.callee(t))
                        r.fail(prop, "conversion-role %s" % fn_path, "a %s naming site uses %s" % (role, (M.callee(t) or "").split("::")[-1]), f, l)
        if not own_applies:
            if any(fn_matches(t, r"attr::Inflection::apply\w*$") for cb in crate.bodies if cb.kind == "Closure" and cb.path in grp for _, t in cb.calls()):
                r.inst(fn=fn_path, role=role, note="the conversion is applied inside a closure: precedence undecided")
                continue
            r.fail(prop, "anchor-missing conversion %s" % fn_path, "no rename_all conversion at this naming site", b.file(), b.line())
            continue
        # the multi-definition local the conversions flow into
        seen_names = set()
        for blk, t in own_applies:
            cur = t["dst"]["l"]
            name_local = cur if len(M.real_defs(b, cur)) > 1 else None
            for _ in range(30 if name_local is None else 0):
                uses = []
                for bb in range(b.n):
                    if b.is_cleanup(bb):
                        continue
                    for st in b.stmts(bb):
                        if st["k"] == "assign" and not st["dst"]["p"]:
                            rv = st["rv"]
                            src = op_place(rv["op"]) if rv["k"] in ("use", "cast") else rv.get("pl") if rv["k"] == "ref" else None
                            if src is not None and src["l"] == cur and not [x for x in src["p"] if x != "*"]:
                                uses.append(st["dst"]["l"])
                    tt = b.term(bb)
                    if tt["k"] == "call" and tt["args"] and (op_place(tt["args"][0]) or {}).get("l") == cur and \
                            (fn_matches(tt, *M.IDENTITY_CALLS) or fn_matches(tt, r"utils::make_string_literal$")):
                        uses.append(tt["dst"]["l"])
                if not uses:
                    break
                cur = uses[0]
                if len(M.real_defs(b, cur)) > 1:
                    name_local = cur
                    break
            if name_local is None or name_local in seen_names:
                continue
            seen_names.add(name_local)
            for d in M.real_defs(b, name_local):
                cls, what = _classify(b, d, good, UNRAW)
                cons = _edge_constraints(b, d[0])
                ren = [v for s, v in cons if re.search(r"Attr\.rename$", s)]
                rall = [v for s, v in cons if re.search(r"rename_all$", s) or (s.startswith("param std::option::Option") and role == "field")]
                f, l = M.user_span(b.term(d[0]).get("span") or b.span)
                verdict = "undecided"
                if cls == "verbatim":
                    verdict = "ok" if 1 in ren else ("BAD" if 0 in ren else "undecided")
                elif cls == "applied":
                    verdict = "BAD" if (1 in ren or 0 in rall) else ("ok" if (0 in ren and 1 in rall) else "undecided")
                elif cls == "ident":
                    verdict = "BAD" if (1 in ren or 1 in rall) else ("ok" if (0 in ren and 0 in rall) else "undecided")
                r.inst(fn=fn_path, role=role, definition=cls, of=str(what)[:60], under={"rename": ren, "rename_all": rall}, verdict=verdict, where="%s:%s" % (f, l))
                if verdict == "BAD":
                    r.fail(prop, "naming-precedence %s [%s]" % (fn_path, cls),
                           "a definition of the %s name that is %s is reached with rename=%s, rename_all=%s (1 = given): an explicit `rename` must be used verbatim, `rename_all` applies only without it, and the plain identifier only without both" % (role, {"verbatim": "the `rename` text", "applied": "a rename_all conversion", "ident": "the plain identifier"}[cls], ren, rall),
                           f, l)
    # every property a struct field turns into is named through the same decision: the name slot of each member template
    # has a rename_all conversion among the values it can take (a member written by a path of its own - an overridden type,
    # a helper - must not fall back to `rename`/identifier only)
    fb, mts = member_templates(crate)
    for tpl, lit, slots in (mts if fb is not None else []):
        if len(slots) < 2:
            continue
        calls, _, _ = M.deep_slice(fb, slots[1], component=_comp(tpl.projs[1] if len(tpl.projs) > 1 else None))
        conv = sorted({(M.callee(c) or "").split("::")[-1] for _, c in calls if fn_matches(c, r"attr::Inflection::apply\w*$")})
        named = any(fn_matches(c, *UNRAW) or fn_matches(c, r"utils::raw_name_to_ts_field$") for _, c in calls)
        r.inst(fn=FIELD_FN, member_template=lit, where="%s:%s" % (tpl.file, tpl.line), name_slot_conversions=conv)
        if named and not conv:
            r.fail(prop, "member-name-skips-rename_all %s" % FIELD_FN, "the property name interpolated into %r (line %s) is computed without any rename_all conversion: for that kind of field `#[..(rename_all = \"..\")]` of the container has no effect" % (lit, tpl.line), tpl.file, tpl.line)
    r.floor = 4
    return r


# ------------------------------------------------------------------ optional marker

def _alternatives(body, local, depth=0, proj0=()):
    """[(block, stream-or-value local)] the alternatives a value is chosen from: follows moves; a component of a tuple
    that is built per arm gives one alternative per arm"""
    out = []
    cur, proj = local, [x for x in proj0 if x != "*"]
    for _ in range(20):
        ds = M.value_defs(body, cur)
        if len(ds) == 1 and ds[0][1] != "term" and ds[0][2]["rv"]["k"] in ("use", "cast") and op_place(ds[0][2]["rv"]["op"]) is not None:
            p = op_place(ds[0][2]["rv"]["op"])
            cur, proj = p["l"], [x for x in p["p"] if x != "*"] + proj
            continue
        if len(ds) == 1 and ds[0][1] != "term" and ds[0][2]["rv"]["k"] == "ref":
            p = ds[0][2]["rv"]["pl"]
            cur, proj = p["l"], [x for x in p["p"] if x != "*"] + proj
            continue
        if len(ds) == 1 and ds[0][1] == "term" and fn_matches(ds[0][2], r"clone::Clone::clone$", r"ops::Deref::deref$", r"borrow::Borrow::borrow$") and ds[0][2]["args"] and op_place(ds[0][2]["args"][0]) is not None:
            p = op_place(ds[0][2]["args"][0])
            cur, proj = p["l"], [x for x in p["p"] if x != "*"] + proj
            continue
        break
    ds = M.value_defs(body, cur)
    idx = next((x for x in proj if re.match(r"^\.\d+$", x)), None)
    for b, i, d in ds:
        if i == "term":
            if fn_matches(d, r"clone::Clone::clone$", r"ops::Deref::deref$", r"borrow::Borrow::borrow$", r"ToOwned::to_owned$") and d["args"] and op_place(d["args"][0]) is not None and depth < 4:
                sub = _alternatives(body, op_place(d["args"][0])["l"], depth + 1)
                out += [(b if len(sub) == 1 else sb, sl, so) for sb, sl, so in sub] if sub else [(b, cur, None)]
            else:
                out.append((b, cur, None))
            continue
        rv = d["rv"]
        if idx is not None and rv["k"] == "agg" and rv.get("tuple"):
            op = rv["ops"][int(idx[1:])]
            others = [o for k, o in enumerate(rv["ops"]) if k != int(idx[1:])]
            if op_place(op) is not None:
                out.append((b, op_place(op)["l"], others))
        elif ((rv["k"] in ("use", "cast") and op_place(rv["op"]) is not None) or rv["k"] == "ref") and depth < 4:
            src = op_place(rv["op"]) if rv["k"] != "ref" else rv["pl"]
            sub = _alternatives(body, src["l"], depth + 1)
            out += [(b if len(sub) == 1 else sb, sl, so) for sb, sl, so in sub] if sub else [(b, src["l"], None)]
        else:
            out.append((b, cur, None))
    return out


def _stream_of(body, local, tpls):
    """the template whose token stream ends up in `local`"""
    cur = local
    for _ in range(12):
        for t in tpls:
            if t.stream == cur:
                return t
        ds = M.real_defs(body, cur)
        if len(ds) != 1 or ds[0][1] == "term":
            return None
        rv = ds[0][2]["rv"]
        nxt = op_place(rv["op"]) if rv["k"] in ("use", "cast") else None
        if nxt is None:
            return None
        cur = nxt["l"]
    return None


def optional_rule(crate, prop, rule="C02.R6"):
    r = Result(rule, "optional-field table of named::format_field, read off the alternatives of the `?` slot of the member template (MIR, helpers included): the alternative carrying the compile-time IsOption check is only reached when the field's own `optional` is set; the one emitting `?` under `IS_OPTION` only when the struct's `optional_fields` is set and - wherever the function tests the field's own setting - the field's is not; the empty one only when neither is; and the template that replaces the field type by `OptionInnerType` sits behind the false edge of a boolean test (not nullable)")
    b, mts = member_templates(crate)
    if b is None:
        r.fail(prop, "anchor-missing format_field", "not found")
        return r
    tpls = Q.templates(b)
    FIELD, STRUCT = r"FieldAttr\.optional", r"^param attr::Optional"
    field_tested_somewhere = any(re.search(FIELD, s) for blk in range(b.n) if not b.is_cleanup(blk) for s, _ in _edge_constraints_of_switch(b, blk))
    n = 0
    for t, lit, slots in mts:
        if len(slots) != 4:
            continue
        for blk, sl, others in _alternatives(b, slots[2], proj0=t.projs[2] if len(t.projs) > 2 else ()):
            tp = _stream_of(b, sl, tpls)
            txt = tp.text() if tp else None
            kind = None if txt is None else "IsOption-check" if "IsOption" in txt and '"?"' in txt else "IS_OPTION-test" if "IS_OPTION" in txt and '"?"' in txt else "none" if txt.strip() == '""' else "?"
            cons = _edge_constraints(b, blk)
            fld = [v for s, v in cons if re.search(FIELD, s)]
            stc = [v for s, v in cons if re.search(STRUCT, s)]
            verdict = "undecided"
            if kind == "IsOption-check":
                verdict = "BAD" if 1 in fld else "ok" if 0 in fld else "undecided"
            elif kind == "IS_OPTION-test":
                verdict = "BAD" if (0 in fld or 1 in stc or (0 in stc and not fld and field_tested_somewhere)) else "ok" if (0 in stc and 1 in fld) else "undecided"
            elif kind == "none":
                verdict = "BAD" if (0 in fld or 0 in stc) else "ok" if (1 in fld and 1 in stc) else "undecided"
            n += 1
            r.inst(fn=FIELD_FN, alternative=kind, under={"field.optional (0 = set)": fld, "struct optional_fields (0 = set)": stc}, verdict=verdict, where="%s:%s" % ((tp.file, tp.line) if tp else (t.file, t.line)))
            if verdict == "BAD":
                r.fail(prop, "optional-table format_field %s" % kind,
                       "the `%s` alternative of the optional marker is reachable with field.optional %s / struct optional_fields %s (0 = set, 1 = not set): a field-level `optional` wins and carries the IsOption check; the struct-level one is conditional on IS_OPTION; without either there is no marker" % (kind, fld or "untested", stc or "untested"),
                       tp.file if tp else t.file, tp.line if tp else t.line)
    if n == 0:
        r.fail(prop, "anchor-missing optional table", "the member template has no slot for the optional marker, or its alternatives could not be found", b.file(), b.line())
    # type replacement
    inner = [t for t in tpls if "OptionInnerType" in t.text()]
    if not inner:
        r.fail(prop, "optional-type-selection format_field", "no template replaces the field type by <ty as TS>::OptionInnerType: `?` without `nullable` would keep `| null`", b.file(), b.line())
    for t in inner:
        pol = None
        for w in range(b.n):
            sw = b.term(w)
            if sw["k"] != "switch" or b.is_cleanup(w) or op_local(sw["discr"]) is None or b.local_ty(op_local(sw["discr"])) != "bool":
                continue
            zero = next((tg for v, tg in sw["targets"] if v == 0), None)
            if zero is not None and zero != sw["otherwise"] and b.dominates(zero, t.block):
                pol = "false-edge"
            elif sw["otherwise"] != zero and b.dominates(sw["otherwise"], t.block) and pol is None:
                pol = "true-edge"
        r.inst(fn=FIELD_FN, option_inner_type_behind=pol, where="%s:%s" % (t.file, t.line))
        if pol == "true-edge":
            r.fail(prop, "optional-type-selection format_field", "the field type becomes <ty as TS>::OptionInnerType when the boolean it is chosen by is *true*: it must stay `ty` when nullable and lose the Option otherwise", t.file, t.line)
    r.floor = 3
    return r


def _edge_constraints_of_switch(body, blk):
    sw = body.term(blk)
    if sw["k"] != "switch" or op_local(sw["discr"]) is None:
        return []
    out = []
    for bb, i, d in M.def_sites(body, op_local(sw["discr"])):
        if i != "term" and d["rv"]["k"] == "discr":
            out.append((_subject(body, d["rv"]["pl"]), None))
    return out


# ------------------------------------------------------------------ documentation stays documentation

DOC_OPS = [r"ops::Deref::deref$", r"ops::Add::add$", r"ops::AddAssign::add_assign$", r"clone::Clone::clone$", r"String::is_empty$", r"str::<impl str>::is_empty$",
           r"fmt::rt::Argument.*::new_display", r"cmp::PartialEq::(eq|ne)$", r"ToTokens::to_tokens$", r"::as_ref$", r"::as_str$", r"Borrow::borrow$",
           r"String::push_str$", r"String::push$", r"mem::take$", r"mem::replace$", r"ToOwned::to_owned$", r"ToString::to_string$", r"From::from$", r"Into::into$",
           r"Option::<T>::(unwrap_or_default|unwrap_or)$"]


def docs_operations_rule(crate, prop, rule="C15.R1"):
    r = Result(rule, "documentation text is only ever copied, concatenated, tested for emptiness, and printed: every operation the derive applies to a value that comes from a `docs` field (of an attribute value or of DerivedTS) - in whichever function, helpers that receive it as a parameter included - is one of clone / deref / + / is_empty / == / Display / to_tokens / push_str; nothing inspects or transforms its content (contains, starts_with, len, split, ..), so a doc comment cannot decide what is declared")
    work = [(b, None) for b in crate.bodies]          # (body, parameter locals that carry docs)
    done = set()
    n = 0
    while work:
        b, params = work.pop()
        key = (b.path, tuple(sorted(params)) if params else None)
        if key in done:
            continue
        done.add(key)
        for blk, t in b.calls():
            if b.is_cleanup(blk) or not t.get("fn"):
                continue
            for k, a in enumerate(t["args"]):
                desc, root = panics.operand_origin_ex(b, a)
                is_docs = bool(re.search(r"(Attr|DerivedTS)\.docs$", desc)) or (params is not None and desc.startswith("param ") and root in params)
                if not is_docs:
                    continue
                n += 1
                ok = fn_matches(t, *DOC_OPS)
                f, l = M.user_span(t["span"])
                if not ok:
                    tg = crate.call_targets(b, t, ())
                    if len(tg) == 1 and tg[0].kind in ("Fn", "AssocFn") and tg[0].raw["arg_count"] == len(t["args"]) and len(done) < 400:
                        work.append((tg[0], frozenset({k + 1})))       # the helper is examined with that parameter marked
                        r.inst(fn=b.path, operation=M.callee(t), on=desc, where="%s:%s" % (f, l), verdict="handed to a function of the crate (examined)")
                        continue
                r.inst(fn=b.path, operation=M.callee(t), on=desc, where="%s:%s" % (f, l), verdict="copy/print" if ok else "INSPECTS")
                if not ok:
                    r.fail(prop, "docs-read-outside-doc-sinks %s" % re.sub(r"::\{closure#\d+\}", "", b.path),
                           "%s is applied to documentation text (%s): a doc comment could influence what is declared" % (M.callee(t), desc), f, l)
    r.stats = {"operations_on_docs": n}
    r.floor = 10
    return r


# ------------------------------------------------------------------ enum representations

VARIANT_SHAPES = [
    (r'^"\{\}"$', ["name"], "unit, externally tagged"),
    (r'^\{\{ "\{\}": \{\} \}\}$', ["name", "payload"], "externally tagged"),
    (r'^\{\{ "\{\}": "\{\}" \}\}$', ["tag", "name"], "tag only"),
    (r'^\{\{ "\{\}": "\{\}", "\{\}": \{\} \}\}$', ["tag", "name", "content", "payload"], "adjacently tagged"),
    (r'^\{\{ "\{\}": "\{\}" \}\} & \{\}$', ["tag", "name", "payload"], "internally tagged"),
]


def _role(body, local, proj):
    o = panics.operand_origin(body, {"k": "copy", "pl": {"l": local, "p": list(proj or [])}})
    if re.search(r"Tagged\.(Adjacently|Internally)::tag$", o):
        return "tag", o
    if re.search(r"Tagged\.Adjacently::content$", o):
        return "content", o
    if re.search(r"crate_rename$", o) or re.search(r"syn::Path$", body.local_ty(local)):
        return "crate", o
    calls, _, _ = M.deep_slice(body, local, component=_comp(proj))
    if any(fn_matches(c, r"utils::escaped_name$", r"utils::make_string_literal$", r"Inflection::apply_to_variant$") for _, c in calls) and not any(fn_matches(c, r"types::type_def$") for _, c in calls if False):
        # the name; a payload also depends on type_def(name, ..) - told apart by what was computed last
        last = origins(body, local, transparent=True, component=_comp(proj))
        if any(o2["kind"] == "call" and fn_matches(o2["t"], r"utils::escaped_name$", r"utils::make_string_literal$") for o2 in last):
            return "name", o
    return "payload", o


def _reaches(body, local, proj, tpls, rx, depth=3):
    """does the value derive from a call matching rx?  Token streams assembled by quote! are followed into what they
    interpolate (they are filled through `&mut`, which a backward slice of the stream itself does not show)"""
    if any(fn_matches(c, rx) for _, c in M.deep_slice(body, local, component=_comp(proj))[0]):
        return True
    if depth > 0:
        for sl_blk, sl, _ in _alternatives(body, local, proj0=proj or ()):
            tp = Q.stream_template(body, sl, tpls)
            if tp is not None and any(_reaches(body, l2, pj2, tpls, rx, depth - 1) for (_, l2, _), pj2 in zip(tp.interps, tp.projs) if l2 is not None):
                return True
    return False


def variant_rule(crate, prop, rule="C01.R3"):
    r = Result(rule, "enum representations, read off the alternatives of the value format_variant pushes (MIR, helpers included): each alternative's format string is one of serde's five shapes and its slots are filled, in order, with exactly the roles the shape names (tag and content are recognised by where they come from: the fields of Tagged::Adjacently / Tagged::Internally; the name by escaped_name(..)); an alternative without a name is only reached for untagged variants / enums (or the tagged struct body of an internally tagged variant); one with a name never is; an alternative without payload is not reached for a variant that is known to carry one, and one with payload not for a unit variant")
    b = crate.ibody(VARIANT_FN)
    if b is None:
        r.fail(prop, "anchor-missing format_variant", "not found")
        return r
    tpls = Q.templates(b)
    pushes = [(blk, t) for blk, t in b.calls() if not b.is_cleanup(blk) and fn_matches(t, r"vec::Vec::<T, A>::push$", r"Vec::<T>::push$") and "TokenStream" in (t.get("arg_tys") or ["", ""])[1]
              and "Vec<proc_macro2::TokenStream>" in (t.get("arg_tys") or [""])[0]]
    n = 0
    for blk, t in pushes:
        if panics.operand_origin(b, t["args"][0]).startswith("param") is False:
            continue
        vl = op_place(t["args"][1])
        if vl is None:
            continue
        for ablk, sl, others in _alternatives(b, vl["l"]):
            tp = _stream_of(b, sl, tpls)
            if tp is None:
                r.inst(fn=VARIANT_FN, alternative="(not a template)", verdict="undecided")
                continue
            n += 1
            fc = S.format_calls(tp.tokens)
            lit = S.unquote(fc[0][0]) if fc else None
            roles = [_role(b, l, pj)[0] for (_, l, _), pj in zip(tp.interps, tp.projs)]
            payload_ok = all(_reaches(b, l, pj, tpls, r"types::type_def$")
                             for ((_, l, _), pj), ro in zip(zip(tp.interps, tp.projs), roles) if ro == "payload")
            slot_roles = [x for x in roles if x != "crate"]
            cons = _edge_constraints(b, ablk)
            untag = [v for s, v in cons if re.search(r"VariantAttr\.untagged$", s)]
            tagged = [v for s, v in cons if re.search(r"EnumAttr::tagged$", s)]
            fields = [v for s, v in cons if re.search(r"syn::Variant\.fields$", s)]
            skip = [v for s, v in cons if re.search(r"FieldAttr\.skip$", s)]
            verdict, why = "ok", ""
            if lit is None:
                # no format string: the alternative *is* the payload (the variant's type, `as` / `type` applied)
                slot_roles, payload_ok = ["payload"], True
                if (0 in untag or not untag) and any(v in (0, 1) for v in tagged) and not (1 in untag):
                    verdict, why = "BAD", "the payload alone is emitted for an externally / adjacently tagged variant"
                if 2 in tagged and not (1 in untag):
                    # internally tagged: the struct body carries the tag itself - unless `as` / `type` on the variant replaced
                    # that body, so this alternative must be unreachable when either is given
                    t_as = [v for s2, v in cons if re.search(r"VariantAttr\.type_as$", s2)]
                    t_ov = [v for s2, v in cons if re.search(r"VariantAttr\.type_override$", s2)]
                    if not (0 in t_as and 0 in t_ov):
                        verdict, why = "BAD", "an internally tagged variant is emitted as its payload alone although `as` / `type` on the variant may have replaced the struct body that carries the tag"
            else:
                shape = next((sh for sh in VARIANT_SHAPES if re.match(sh[0], lit)), None)
                if shape is None:
                    verdict, why = "BAD", "format string %r is none of serde's representations" % lit
                elif slot_roles != shape[1]:
                    verdict, why = "BAD", "format string %r (%s) expects %s in this order, the slots carry %s" % (lit, shape[2], shape[1], slot_roles)
                else:
                    if 1 in untag or 3 in tagged:
                        verdict, why = "BAD", "a named representation is emitted for an untagged variant / enum"
                    if "payload" not in slot_roles and (0 in fields) and not (1 in skip):
                        verdict, why = "BAD", "a struct variant is emitted without its payload"
                    if "payload" in slot_roles and 2 in fields:
                        verdict, why = "BAD", "a unit variant is emitted with a payload"
                    if "payload" in slot_roles and 1 in skip:
                        verdict, why = "BAD", "the payload of a newtype variant whose field is skipped is emitted"
            if verdict == "ok" and not payload_ok:
                verdict, why = "BAD", "a payload slot is filled with something that does not derive from type_def(..) of the variant (with the variant's `as` / `type` applied): the payload is re-derived from the field"
            r.inst(fn=VARIANT_FN, format=lit, slots=slot_roles, under={"variant untagged": untag, "tagged() (0 ext, 1 adj, 2 int, 3 untagged)": tagged, "fields (0 named, 1 unnamed, 2 unit)": fields, "field skip": skip},
                   verdict=verdict, where="%s:%s" % (tp.file, tp.line))
            if verdict == "BAD":
                r.fail(prop, "variant-matrix %s" % (lit if lit is not None else "pass-through"), why + " (format_variant, template at line %s)" % tp.line, tp.file, tp.line)
    # the variant's own `untagged` decides on its own: a test on something computed from it and from other inputs
    # (`untagged && !unit`) makes the flag conditional
    for blk in range(b.n):
        sw = b.term(blk)
        if sw["k"] != "switch" or b.is_cleanup(blk) or op_place(sw["discr"]) is None:
            continue
        o, root = panics.operand_origin_ex(b, sw["discr"])
        if re.search(r"VariantAttr\.untagged$", o) or root is None or b.local_ty(root) != "bool":
            continue
        # does the tested value depend on the flag?
        seen_l, todo, dep = set(), [root], False
        while todo and len(seen_l) < 60:
            cur = todo.pop()
            if cur in seen_l:
                continue
            seen_l.add(cur)
            for db, i, d in M.def_sites(b, cur):
                if b.is_cleanup(db) or i == "term":
                    continue
                rv = d["rv"]
                ops = [rv["op"]] if rv["k"] in ("use", "cast") else [rv["a"]] if rv["k"] == "unop" else [rv["a"], rv["b"]] if rv["k"] == "binop" else []
                for o2 in ops:
                    p2 = op_place(o2)
                    if p2 is None:
                        continue
                    if ".untagged" in p2["p"] and "VariantAttr" in b.local_ty(p2["l"]):
                        dep = True
                    todo.append(p2["l"])
            # `flag && other`: the value is set on both sides of a test of the flag
            sides = set()
            for db, i, d in M.real_defs(b, cur):
                for s2, v2 in _edge_constraints(b, db):
                    if re.search(r"VariantAttr\.untagged$", s2):
                        sides.add(v2)
            all_const = all(i2 != "term" and d2["rv"]["k"] == "use" and op_const(d2["rv"]["op"]) is not None for _, i2, d2 in M.real_defs(b, cur))
            if b.local_ty(cur) == "bool" and {0, 1} <= sides and not all_const:      # (all constants: a drop flag of the compiler)
                dep = True
        if dep:
            f, l = M.user_span(b.blocks[blk]["term"].get("span") or b.span)
            r.fail(prop, "variant-untagged-conditional format_variant", "the test that selects the untagged representation looks at a value computed from `untagged` and something else: a variant marked `untagged` can still be emitted with its name", f or b.file(), l or b.line())
    if n == 0:
        r.fail(prop, "anchor-missing variant templates", "no template reaches formatted_variants.push(..) in format_variant", b.file(), b.line())
    r.floor = 8
    return r


def variant_name_flow_rule(crate, prop, rule="C09.R5"):
    """the name computed for a variant (rename, else the enum's rename_all applied to the identifier) is the name every
    representation uses - the struct body of an internally tagged variant included, which writes it as the tag value"""
    r = Result(rule, "format_variant hands the variant's computed name (explicit rename, else rename_all applied to the identifier) to type_def(), which uses it as the tag value of an internally tagged struct variant: the value passed as type_def's name derives from the rename_all conversion and from the `rename` attribute, not from the bare identifier alone")
    b = crate.ibody(VARIANT_FN)
    if b is None:
        r.fail(prop, "anchor-missing format_variant", "not found")
        return r
    calls = [(blk, t) for blk, t in b.calls() if not b.is_cleanup(blk) and fn_matches(t, r"types::type_def$")]
    if not calls:
        r.fail(prop, "anchor-missing type_def call", "format_variant does not call type_def", b.file(), b.line())
    for blk, t in calls:
        pl = op_place(t["args"][1]) if len(t["args"]) > 1 else None
        cs, _, _ = M.deep_slice(b, pl["l"]) if pl is not None else ([], set(), [])
        conv = any(fn_matches(c, r"Inflection::apply_to_variant$") for _, c in cs)
        ren = any(re.search(r"VariantAttr\.rename$", panics.operand_origin(b, a)) for _, c in cs for a in c["args"]) or \
            any(re.search(r"VariantAttr\.rename$", panics.operand_origin(b, {"k": "copy", "pl": d[2]["rv"].get("pl") or op_place(d[2]["rv"].get("op", {"k": ""})) or {"l": 0, "p": []}}))
                for l0 in ([pl["l"]] if pl else []) for d in M.real_defs(b, l0) if d[1] != "term" and d[2]["rv"]["k"] in ("use", "ref"))
        f, l = M.user_span(t["span"])
        ok = conv
        r.inst(fn=VARIANT_FN, where="%s:%s" % (f, l), name_argument_derives_from_rename_all=conv, ok=ok)
        if not ok:
            r.fail(prop, "variant-name-not-passed format_variant -> type_def",
                   "type_def() does not receive the variant's computed name: the tag value of an internally tagged struct variant ignores the enum's rename_all (`\"kind\": \"KeyPress\"` where serde writes `\"key_press\"`)", f, l)
    r.floor = 1
    return r


# ------------------------------------------------------------------ operands of `&`

def intersection_operand_rule(crate, prop, rule):
    """`A & B | C` is `(A & B) | C`.  A type placed after ` & ` must therefore be atomic: an object, a name, or something in
    parentheses.  `inline_flattened()` is parenthesised by contract for unions (C14.R6); `inline()` / `name()` of an arbitrary
    type is not (an enum's inline() is `X | Y`, Option's name() is `T | null`)."""
    r = Result(rule, "every operand a template of macros/src/types places after ` & ` (templates read from MIR, token streams built in helpers or bound to variables spliced in) is passed through intersection_operand() (which parenthesises unions), literally wrapped in `( )`, or a ` & `-join over a list that only ever receives `inline_flattened()` parts (parenthesised by contract); an arbitrary inline()/name() there lets `|` inside it escape the intersection")
    n = 0
    for ib, tpls, keep in Q.function_templates(crate, "types::"):
        for t in keep:
            ex = Q.expanded(ib, t, tpls)
            for lit, args in S.format_calls(ex):
                u = S.unquote(lit) if lit else None
                if not u or ("& {}" not in u and "&{}" not in u):
                    continue
                ph = [m.start() for m in re.finditer(r"(?<!\{)\{\}(?!\})", u.replace("{{", "\0\0").replace("}}", "\1\1"))]
                for i, pos in enumerate(ph):
                    if not u[:pos].rstrip().endswith("&"):
                        continue
                    n += 1
                    toks = [x for x in S.flat(args[i]) if isinstance(x, str)] if i < len(args) else []
                    arg = " ".join(toks)
                    ok = bool(re.match(r"^# \w+ :: intersection_operand \( .* \)$", arg)) or (toks[:1] == ["("] and toks[-1:] == [")"])
                    why = "intersection_operand()" if ok else None
                    t_ctx = t
                    m1 = re.match(r"^# (\w+)$", arg)
                    if not ok and m1:
                        # a token stream built elsewhere: look at the template it was built from
                        loc1 = next((l for (n2, l, _) in t.interps if n2 == m1.group(1)), None)
                        tp1 = Q.stream_template(ib, loc1, tpls) if loc1 is not None else None
                        if tp1 is None:
                            # no single template: is it the text of a whole type (what type_def / a DerivedTS `inline` gives)?
                            # that can be a union, so it is not atomic
                            o1 = panics.operand_origin(ib, {"k": "copy", "pl": {"l": loc1, "p": []}}) if loc1 is not None else ""
                            sl = M.deep_slice(ib, loc1)[0] if loc1 is not None else []
                            payload = re.search(r"DerivedTS\.inline(_flattened)?$", o1) or any(fn_matches(c, r"types::type_def$", r"types::\w+::\w+$") and "DerivedTS" in (c.get("dst_ty") or "") for _, c in sl)
                            if not payload:
                                r.inst(fn=ib.path, literal=u, operand=arg[:120], atomic=None, because="the operand is a token stream whose template is not visible here: undecided", where="%s:%s" % (t.file, t.line))
                                continue
                            arg = "%s (the inline text of a type: %s)" % (arg, o1)
                        else:
                            arg = tp1.text()
                            t_ctx = tp1
                            ok = bool(re.match(r"^# \w+ :: intersection_operand \( .* \)$", arg)) or arg.startswith("( ") and arg.endswith(" )")
                            why = "intersection_operand()" if ok else None
                    mj = re.search(r":: join \( & \[ ,? ?# (\w+) \] , \" & \" \)$", arg)
                    if not ok and mj:
                        t = t_ctx
                        # the list that is joined: everything pushed to it must be an inline_flattened() part
                        nm = mj.group(1)
                        loc = next((l for (n2, l, _) in t.interps if n2 == nm), None)
                        if loc is None:
                            for t2 in tpls:
                                loc = loc or next((l for (n2, l, _) in t2.interps if n2 == nm), None)
                        root = panics.operand_origin_ex(ib, {"k": "copy", "pl": {"l": loc, "p": []}})[1] if loc is not None else None
                        if loc is not None:
                            # inside `#(..)*` the interpolated value is an element of the list: go back to the list
                            for _, c0 in M.deep_slice(ib, loc)[0]:
                                if fn_matches(c0, r"quote_into_iter$") and c0["args"]:
                                    root = panics.operand_origin_ex(ib, c0["args"][0])[1]
                        pushed = []
                        for blk, c in ib.calls():
                            if ib.is_cleanup(blk) or not fn_matches(c, r"vec::Vec::<T, A>::push$") or "TokenStream" not in (c.get("arg_tys") or ["", ""])[1]:
                                continue
                            if panics.operand_origin_ex(ib, c["args"][0])[1] != root:
                                continue
                            pl = op_place(c["args"][1])
                            tp = Q.stream_template(ib, pl["l"], tpls) if pl is not None else None
                            pushed.append(tp.text() if tp is not None else None)
                        ok = bool(pushed) and all(p is not None and re.search(r":: inline_flattened \( \)$", p) for p in pushed)
                        why = "join over %d inline_flattened() part(s)" % len(pushed) if ok else None
                        if not pushed or (not ok and all(p is None or re.search(r":: inline_flattened \( \)$", p) for p in pushed)):
                            # the list is filled somewhere this function's MIR does not show (through a closure): undecided
                            r.inst(fn=ib.path, literal=u, operand=arg[:120], atomic=None, because="joined list is filled out of sight: undecided", where="%s:%s" % (t.file, t.line))
                            continue
                    r.inst(fn=ib.path, literal=u, operand=arg[:120], atomic=ok, because=why, where="%s:%s" % (t.file, t.line))
                    if not ok:
                        r.fail(prop, "intersection-operand-unparenthesised %s" % ib.path,
                               "`%s` interpolates `%s` after ` & ` without parentheses: when it is a union (an inlined enum payload, `Option<T>` by name, a `type = \"A | B\"` override) the result reads `{ tag } & A | B`, whose second arm has lost the tag" % (u, arg[:80]),
                               t.file, t.line)
    r.floor = 3
    return r


# ------------------------------------------------------------------ text between double quotes

def quoted_sink_rule(crate, syn, prop, rule="C04.R4"):
    r = Result(rule, "every value a template of macros/src/types interpolates between double quotes (tag, content, variant / type names) is, on every path, the result of an escape routine (escaped_name / escape_string) or the container's tag / content, which are escaped once where the container attributes are read; decided on the origin of the interpolated value in the MIR (helpers and intermediate variables looked through), not on its name")
    esc = r"utils::\w*escape\w*$"
    # central sanitisation of container tag/content (where the attributes are read)
    central = {}

    def escapes(b, local, seen=None):
        """is an escape routine among what the value is computed with: called, passed as a function (`.map(escape_string)`)
        or called by a closure passed along (`.map(|t| escape_string(&t))`)"""
        calls, _, consts = M.deep_slice(b, local)
        if any(fn_matches(c, esc) for _, c in calls) or any(re.search(esc, ((c or {}).get("fn") or {}).get("path") or "") for c in consts):
            return True
        for _, c in calls:
            for a in c["args"]:
                la = op_local(a)
                for o in (origins(b, la) if la is not None else []):
                    cl = o["rv"].get("closure") if o["kind"] == "agg" else None
                    for cb in crate.by_path.get(cl, []) if cl else []:
                        if any(fn_matches(c2, esc) for _, c2 in cb.calls()):
                            return True
        return False
    for x in ("EnumAttr", "StructAttr"):
        got = set()
        # from_attrs, and the functions of the crate it reaches that are about this attribute type (a generic helper, a
        # `finish(self, docs)` method of the type)
        roots = [bb.path for bb in crate.bodies if re.search(r"%s::from_attrs$" % x, bb.path) and bb.kind in ("Fn", "AssocFn")]
        cg0 = crate.callgraph(())
        reach0, todo0 = set(), list(roots)
        while todo0 and len(reach0) < 60:
            q0 = todo0.pop()
            if q0 in reach0:
                continue
            reach0.add(q0)
            todo0 += [z for z in cg0.get(q0, ()) if z.startswith(("attr::", "utils::", "<attr::")) or "{closure" in z]
        for b0 in crate.bodies:
            if b0.path not in reach0 or b0.kind not in ("Fn", "AssocFn") or not (b0.path in roots or x in b0.path):
                continue
            b = crate.ibody(b0.path)
            for fld in ("tag", "content"):
                stored = []
                for blk in range(b.n):
                    if b.is_cleanup(blk):
                        continue
                    for st in b.stmts(blk):
                        if st["k"] != "assign":
                            continue
                        if st["dst"]["p"] and st["dst"]["p"][-1] == "." + fld and x in (b.local_ty(st["dst"]["l"]) or ""):
                            o = st["rv"].get("op") if st["rv"]["k"] in ("use", "cast") else None
                            if o is not None and op_local(o) is not None:
                                stored.append(op_local(o))
                        if st["rv"]["k"] == "agg" and (st["rv"].get("adt") or "").endswith("::" + x) and fld in (st["rv"].get("fields") or []):
                            o = st["rv"]["ops"][st["rv"]["fields"].index(fld)]
                            if op_local(o) is not None:
                                stored.append(op_local(o))
                    tt = b.term(blk)
                    if tt["k"] == "call" and tt["dst"]["p"] and tt["dst"]["p"][-1] == "." + fld and x in (b.local_ty(tt["dst"]["l"]) or ""):
                        stored.append(("call", tt))
                for sv in stored:
                    if isinstance(sv, tuple):
                        tt = sv[1]
                        ok = fn_matches(tt, esc) or any(escapes(b, op_local(a)) for a in tt["args"] if op_local(a) is not None) or \
                            any(re.search(esc, ((op_const(a) or {}).get("fn") or {}).get("path") or "") for a in tt["args"])
                        for a in tt["args"]:
                            la = op_local(a)
                            for o in (origins(b, la) if la is not None else []):
                                cl = o["rv"].get("closure") if o["kind"] == "agg" else None
                                for cb in crate.by_path.get(cl, []) if cl else []:
                                    if any(fn_matches(c2, esc) for _, c2 in cb.calls()):
                                        ok = True
                    else:
                        ok = escapes(b, sv)
                    if ok:
                        got.add(fld)
        central[x] = got
        r.inst(attr=x, escaped_when_read=sorted(got))
    tag_ok = "tag" in central.get("EnumAttr", ()) and "tag" in central.get("StructAttr", ())
    content_ok = "content" in central.get("EnumAttr", ())
    n = 0
    for ib, tpls, keep in Q.function_templates(crate, "types::"):
        for t in keep:
            flat_ix = 0
            for lit, args in S.format_calls(t.tokens):
                v = S.unquote(lit) or ""
                vv = re.sub(r"\{\{|\}\}", "##", v)
                # which interpolation fills which argument
                arg_first = []
                for a in args:
                    cnt = sum(1 for x in S.flat(a) if x == "#")
                    arg_first.append((flat_ix, cnt))
                    flat_ix += cnt
                k = 0
                for m in re.finditer(r"\{(\w*)\}", vv):
                    if m.group(1):
                        continue
                    quoted = m.start() > 0 and vv[m.start() - 1] == '"' and m.end() < len(vv) and vv[m.end()] == '"'
                    a_ix = k
                    k += 1
                    if not quoted or a_ix >= len(arg_first):
                        continue
                    first, cnt = arg_first[a_ix]
                    argtxt = " ".join(x for x in S.flat(args[a_ix]) if isinstance(x, str))
                    n += 1
                    how = None
                    if re.search(r"escape\w* \(", argtxt):
                        how = "escape routine in the sink expression"
                    elif cnt == 1 and first < len(t.interps):
                        nm, loc, ty = t.interps[first]
                        pj = t.projs[first] if first < len(t.projs) else []
                        o = panics.operand_origin(ib, {"k": "copy", "pl": {"l": loc, "p": list(pj)}})
                        org = origins(ib, loc, transparent=True, component=_comp(pj), stop=[esc])
                        calls = [x for x in org if x["kind"] == "call"]
                        if calls and all(fn_matches(x["t"], esc) for x in calls) and not any(x["kind"] == "arg" for x in org):
                            how = "result of %s" % sorted({(M.callee(x["t"]) or "").split("::")[-1] for x in calls})
                        elif re.search(r"(Tagged\.(Adjacently|Internally)::tag|StructAttr\.tag|EnumAttr\.tag)$", o) and tag_ok:
                            how = "container tag, escaped where the attributes are read"
                        elif re.search(r"(Tagged\.Adjacently::content|EnumAttr\.content)$", o) and content_ok:
                            how = "container content, escaped where the attributes are read"
                    if how is None and cnt == 1 and first < len(t.interps):
                        # the value may travel in a struct of the crate (`Tagging { name: escaped_name(..) }`): judged where it is filled
                        nm0, loc0, _ = t.interps[first]
                        o0 = panics.operand_origin(ib, {"k": "copy", "pl": {"l": loc0, "p": list(t.projs[first] if first < len(t.projs) else [])}})
                        mcar = re.match(r"^field (\S+)\.(\w+)$", o0)
                        if mcar and not re.search(r"Attr$|Tagged$", mcar.group(1)):
                            verdicts = []
                            for bx in crate.bodies:
                                for blk in range(bx.n):
                                    for st in bx.stmts(blk):
                                        if st["k"] == "assign" and st["rv"]["k"] == "agg" and (st["rv"].get("adt") or "") == mcar.group(1) and mcar.group(2) in (st["rv"].get("fields") or []):
                                            oo = st["rv"]["ops"][st["rv"]["fields"].index(mcar.group(2))]
                                            if op_local(oo) is None:
                                                verdicts.append(False)
                                                continue
                                            org2 = origins(bx, op_local(oo), transparent=True, stop=[esc])
                                            c2 = [x for x in org2 if x["kind"] == "call"]
                                            verdicts.append(bool(c2) and all(fn_matches(x["t"], esc) for x in c2) and not any(x["kind"] == "arg" for x in org2))
                            if verdicts and all(verdicts):
                                how = "escaped where %s is filled" % mcar.group(1)
                            elif not verdicts:
                                how = "(carried by %s, which is not built in a readable place - undecided)" % mcar.group(1)
                    if how is None and ib.kind == "Closure" and cnt == 1 and first < len(t.interps) and \
                            panics.operand_origin(ib, {"k": "copy", "pl": {"l": t.interps[first][1], "p": []}}).startswith("param"):
                        how = "(a parameter of a closure: where it comes from is not visible here - undecided)"
                    r.inst(fn=ib.path, where="%s:%s" % (t.file, t.line), literal=v[:40], sink=argtxt[:60], escaped_by=how)
                    if how is None:
                        r.fail(prop, "unescaped-quoted-sink %s" % ib.path,
                               "`%s` is interpolated between double quotes in %r (template at line %s) without escaping: a `\"` or `\\` in a rename/tag/content string breaks the string literal in the generated .ts" % (argtxt[:60], v[:40], t.line),
                               t.file, t.line)
    r.stats = {"quoted_sinks": n}
    r.floor = 10
    return r


def struct_tag_first_rule(crate, prop, rule="C01.R4"):
    r = Result(rule, "for a struct-level tag (and internally tagged struct variants) named() - helpers and closures included - emits a property `\"<tag>\": \"<name>\",` whose first slot is the container's `tag` and whose second slot is the escaped name of the type; where that property is pushed to the member list inside named() itself, no member can have been pushed before it")
    found = []
    for ib, tpls, keep in Q.function_templates(crate, "types::named::named"):
        for t in tpls:
            for lit, args in S.format_calls(t.tokens):
                if S.squash(S.unquote(lit) or "") == '"{}":"{}",':
                    found.append((ib, tpls, t))
    if not found:
        nb = crate.body("types::named::named")
        r.fail(prop, "struct-tag-shape named", "the tag property is not emitted as `\"<tag>\": \"<name>\",`", nb.file() if nb else None, nb.line() if nb else None)
    for ib, tpls, t in found[:1]:
        o0 = panics.operand_origin(ib, {"k": "copy", "pl": {"l": t.interps[0][1], "p": list(t.projs[0])}}) if t.interps else ""
        slot0 = bool(re.search(r"StructAttr\.tag$", o0)) or o0.startswith("param")       # in a helper / closure the tag arrives as a parameter
        org1 = origins(ib, t.interps[1][1], transparent=True, component=_comp(t.projs[1]), stop=[r"utils::escaped_name$"]) if len(t.interps) > 1 else []
        slot1 = any(x["kind"] == "call" and fn_matches(x["t"], r"utils::escaped_name$") for x in org1) or (org1 and all(x["kind"] == "arg" for x in org1))
        # order, when visible: the push of this template is not reachable from a push of a member template
        first = None
        pushes = [(blk, c) for blk, c in ib.calls() if not ib.is_cleanup(blk) and fn_matches(c, r"vec::Vec::<T, A>::push$") and "TokenStream" in (c.get("arg_tys") or ["", ""])[1]]
        mine = [blk for blk, c in pushes if op_place(c["args"][1]) is not None and Q.stream_template(ib, op_place(c["args"][1])["l"], tpls) is t]
        if mine:
            others = [blk for blk, c in pushes if blk not in mine and op_place(c["args"][1]) is not None and
                      (lambda tp: tp is not None and any(re.match(r"^(\\{\\})+: \\{\\},$", S.unquote(l2) or "") for l2, _ in S.format_calls(tp.tokens)))(Q.stream_template(ib, op_place(c["args"][1])["l"], tpls))]
            first = not any(mine[0] in ib.reachable_from([ob]) for ob in others)
        # the property is one of the members: pushed to the member list here, or produced inside a closure (the list's
        # initial content).  A tag kept in a variable of its own and spliced into some of the object templates is not.
        member = bool(mine)
        if not member and ib.kind == "Closure":
            # whose closure?  handed to an iterator adaptor it fills a list; handed to Option::map it makes a lone value
            for pb in crate.bodies:
                for blk2, c2 in pb.calls():
                    if pb.is_cleanup(blk2):
                        continue
                    for a2 in c2["args"]:
                        l2 = op_local(a2)
                        if l2 is not None and any(o2["kind"] == "agg" and o2["rv"].get("closure") == ib.path for o2 in origins(pb, l2)):
                            member = member or fn_matches(c2, r"Iterator::(map|filter_map|flat_map)$")
        ok = slot0 and slot1 and first is not False and member
        r.inst(fn=ib.path, tag_template='"{}": "{}",', first_slot=o0, second_slot_escaped=bool(slot1), pushed_before_members=first, is_a_member_of_the_list=member, ok=ok, where="%s:%s" % (t.file, t.line))
        if not ok:
            r.fail(prop, "struct-tag-shape named", "the tag property is not emitted first as `\"<tag>\": \"<name>\",` with the container's tag and the escaped type name", t.file, t.line)
    r.floor = 1
    return r


def named_composition_rule(crate, prop, rule="C14.R7"):
    r = Result(rule, "named() (helpers included): the text it declares for a struct is chosen from `{  }`, `{ fields }`, the flattened member(s) joined by ` & `, and `{ fields } & flattened`; own members are joined by a space and flattened ones by ` & `; inline_flattened() never strips the parentheses of a flattened member (only inline() may, for the lonely flattened member); both go through the `, } & { ` merge")
    b = crate.ibody("types::named::named")
    if b is None:
        r.fail(prop, "anchor-missing named", "not found")
        return r
    tpls = Q.templates(b)

    def classify(tp):
        txt = " ".join(x for x in S.flat(Q.expanded(b, tp, tpls)) if isinstance(x, str))
        if re.search(r'"\{ *\}" \. to_owned', txt):
            return "empty-object"
        if re.search(r'format ! \( "\{\{ \{\} \}\} & \{\}"', txt):
            return "object&flattened"
        if re.search(r'format ! \( "\{\{ \{\} \}\}"', txt):
            return "object"
        if "strip_prefix ( '(' )" in txt or "starts_with ( '(' )" in txt:
            return "flattened-unparenthesised"
        if re.search(r'join \( & \[.*\] , " & " \)', txt) and "format !" not in txt:
            return "flattened"
        return "?" + txt[:40]

    def classes(local, proj, depth=0):
        out = set()
        for blk, sl, _ in _alternatives(b, local, proj0=proj or ()):
            tp = Q.stream_template(b, sl, tpls)
            if tp is None:
                out.add("?")
                continue
            flat = [x for x in S.flat(tp.tokens) if isinstance(x, str)]
            # a wrapper around another stream (`#x.replace(..)`, `#x`): look at what is wrapped
            if len(tp.interps) >= 1 and flat[:2] == ["#", tp.interps[0][0]] and "TokenStream" in (tp.interps[0][2] or "") and depth < 4 and not re.search(r"format !|join|to_owned", " ".join(flat)):
                out |= classes(tp.interps[0][1], tp.projs[0], depth + 1)
            else:
                out.add(classify(tp))
        return out

    got = {}
    for blk in range(b.n):
        for st in b.stmts(blk):
            if st["k"] == "assign" and st["rv"]["k"] == "agg" and str(st["rv"].get("adt", "")).endswith("DerivedTS") and "fields" in st["rv"]:
                names = st["rv"]["fields"]
                for nm in ("inline", "inline_flattened"):
                    if nm in names:
                        op = st["rv"]["ops"][names.index(nm)]
                        pl = op_place(op)
                        if pl is None:
                            continue
                        l = pl["l"]
                        if nm == "inline_flattened":
                            for bb, i, d in M.real_defs(b, l):
                                if i != "term" and d["rv"]["k"] == "agg" and d["rv"].get("variant") == "Some" and op_place(d["rv"]["ops"][0]) is not None:
                                    l = op_place(d["rv"]["ops"][0])["l"]
                        got.setdefault(nm, set()).update(classes(l, []))
    need = {"inline": {"empty-object", "object", "object&flattened", "flattened", "flattened-unparenthesised"},
            "inline_flattened": {"empty-object", "object", "object&flattened", "flattened"}}
    for nm in ("inline", "inline_flattened"):
        g = got.get(nm, set())
        unknown = any(x.startswith("?") for x in g)
        missing = sorted(need[nm] - g) if not unknown else []      # an alternative that could not be read may be the missing one: undecided
        bad = nm == "inline_flattened" and "flattened-unparenthesised" in g
        r.inst(fn=b.path, value=nm, forms=sorted(g), missing=missing, undecided=unknown, ok=not missing and not bad)
        if not g:
            r.fail(prop, "anchor-missing named.%s table" % nm, "the alternatives of DerivedTS.%s built by named() could not be found" % nm, b.file(), b.line())
        elif missing or bad:
            r.fail(prop, "named-composition %s" % nm, "named() builds %s from %s: %s" % (nm, sorted(g), ("missing " + ", ".join(missing)) if missing else "inline_flattened() must keep the parentheses of a flattened member"), b.file(), b.line())
    txt_all = " ".join(t.text() for t in tpls)
    ok = bool(re.search(r'join \( & \[[^\]]*\] , " " \)', txt_all)) and bool(re.search(r'join \( & \[[^\]]*\] , " & " \)', txt_all))
    r.inst(field_separator_and_flatten_separator=ok)
    if not ok:
        r.fail(prop, "named-separators", "own fields must be joined by a space and flattened members by ` & `", b.file(), b.line())
    r.floor = 3
    return r


# ------------------------------------------------------------------ generated output_path()

def output_path_rule(crate, prop, rule="C11.R4"):
    r = Result(rule, "the generated output_path() (templates of DerivedTS::into_impl, helpers included): the alternative reached without `export_to` is `<name>.ts`; the one reached with `export_to` yields the given directory followed by `<name>.ts` exactly when the given text ends in `/`, and the given text verbatim otherwise; the name slot is DerivedTS.ts_name in both")
    b = crate.ibody("DerivedTS::into_impl")
    if b is None:
        r.fail(prop, "anchor-missing into_impl", "not found")
        return r
    groups = Q.function_templates(crate, "DerivedTS::into_impl")
    host = [t for ib, tpls, keep in groups for t in tpls if re.search(r"fn output_path \( \)", t.text())]
    if not host:
        r.fail(prop, "anchor-missing output_path template", "no template defines fn output_path()", b.file(), b.line())
        return r
    t0 = host[0]
    if not any("TokenStream" in (ty or "") for _, _, ty in t0.interps):
        r.fail(prop, "output-path-wrapper", "fn output_path() does not return the computed path expression", t0.file, t0.line)
    # the path expressions: told apart by the test on DerivedTS.export_to that dominates them
    tpls = Q.templates(b)
    some = none = None
    for tp in tpls:
        ex = " ".join(x for x in S.flat(Q.expanded(b, tp, tpls)) if isinstance(x, str))
        if not re.search(r'format ! \( "[^"]*\.ts"|ends_with \( \'/\' \)', ex):
            continue
        cons = [v for s2, v in _edge_constraints(b, tp.block) if re.search(r"DerivedTS\.export_to$", s2)]
        if 1 in cons and (some is None or len(ex) > some[1]):
            some = (tp, len(ex))            # the outermost of the templates built for `export_to = ..`
        elif 0 in cons and (none is None or len(ex) > none[1]):
            none = (tp, len(ex))
    some, none = (some[0] if some else None), (none[0] if none else None)
    if False:
        pass
    if not some or not none:
        r.fail(prop, "anchor-missing output_path template", "the alternatives of the path expression for export_to = Some / None could not be told apart", t0.file, t0.line)
        return r
    some_tokens, none_tokens = Q.expanded(b, some, tpls), Q.expanded(b, none, tpls)

    def _interps_deep(tp, depth=3):
        out = list(zip(tp.interps, tp.projs))
        if depth:
            for (_, l, ty), pj in zip(tp.interps, tp.projs):
                sub = Q.stream_template(b, l, tpls) if l is not None and "TokenStream" in (ty or "") else None
                if sub is not None and sub is not tp:
                    out += _interps_deep(sub, depth - 1)
        return out

    def name_slot_ok(tp):
        return any(re.search(r"DerivedTS\.ts_name$", panics.operand_origin(b, {"k": "copy", "pl": {"l": l, "p": list(pj)}})) for (_, l, _), pj in _interps_deep(tp) if l is not None)

    fcn = S.format_calls(none_tokens)
    ok_none = len(fcn) == 1 and S.unquote(fcn[0][0]) == "{}.ts" and len(fcn[0][1]) == 1 and name_slot_ok(none)
    r.inst(case="no export_to", template=[S.unquote(l) for l, _ in fcn], ok=ok_none, where="%s:%s" % (none.file, none.line))
    if not ok_none:
        r.fail(prop, "output-path-default", "without export_to the path must be `<TypeScript name>.ts`", none.file, none.line)
    txt = " ".join(x for x in S.flat(some_tokens) if isinstance(x, str))
    fcs = S.format_calls(some_tokens)
    lits = [S.unquote(l) for l, _ in fcs]
    m = re.search(r"if (\w+) \. ends_with \( '/' \)", txt)
    var = m.group(1) if m else None
    dir_form = var is not None and any(l == "{%s}{}.ts" % var and len(args) == 1 for (l0, args), l in zip(fcs, lits))
    file_form = var is not None and "{%s}" % var in lits
    then_first = txt.find("{%s}{}.ts" % var) < txt.find('"{%s}"' % var) if dir_form and file_form else False
    given = var is not None and bool(re.search(r"let %s = format ! \( \"\{\}\" , # [\w:]+ \)" % var, txt)) and \
        any(re.search(r"DerivedTS\.export_to$", panics.operand_origin(b, {"k": "copy", "pl": {"l": l, "p": list(pj)}})) for (_, l, _), pj in _interps_deep(some) if l is not None)
    ok = bool(m) and dir_form and file_form and then_first and name_slot_ok(some) and given
    r.inst(case="export_to", condition_on_trailing_slash=bool(m), directory_form=dir_form, file_form=file_form, given_text_is_export_to=given, ok=ok, where="%s:%s" % (some.file, some.line))
    if not ok:
        r.fail(prop, "output-path-export_to", "export_to must yield `<dir>/<name>.ts` exactly when it ends in `/` and the path verbatim otherwise (templates %s)" % lits, some.file, some.line)
    r.floor = 2
    return r


# ------------------------------------------------------------------ emitted dependency visits

def deps_kind_templates(crate):
    """{variant name: normalised text} of what `impl ToTokens for Dependency` emits per variant (helpers spliced in; an
    interpolated value is named after what it is: `ty` for a syn::Type, `crate_rename` for a syn::Path)"""
    b = crate.ibody("<deps::Dependency as quote::ToTokens>::to_tokens")
    if b is None:
        return None, {}
    tpls = Q.templates(b)
    inner = set()
    for t in tpls:
        for (_, l, ty) in t.interps:
            sub = Q.stream_template(b, l, tpls) if l is not None and "TokenStream" in (ty or "") else None
            if sub is not None:
                inner.add(id(sub))
    out = {}
    for t in tpls:
        if id(t) in inner:
            continue
        variant = None

        def norm(tp, depth=3):
            nonlocal variant
            toks, k = [], 0
            fl = tp.flat()
            i = 0
            while i < len(fl):
                x = fl[i]
                if x == "#" and i + 1 < len(fl) and k < len(tp.interps) and fl[i + 1] == tp.interps[k][0]:
                    nm, l, ty = tp.interps[k]
                    pj = tp.projs[k]
                    k += 1
                    sub = Q.stream_template(b, l, tpls) if l is not None and "TokenStream" in (ty or "") else None
                    if sub is not None and sub is not tp and depth:
                        toks += norm(sub, depth - 1)
                    else:
                        o = panics.operand_origin(b, {"k": "copy", "pl": {"l": l, "p": list(pj)}}) if l is not None else ""
                        m = re.search(r"Dependency\.(\w+)::(\w+)$", o)
                        if m:
                            variant = variant or m.group(1)
                        by_type = "ty" if "syn::Type" in (ty or "") else "crate_rename" if "syn::Path" in (ty or "") else nm
                        role = m.group(2) if m and not m.group(2).isdigit() else by_type
                        toks += ["#", role]
                    i += 2
                    continue
                toks.append(x)
                i += 1
            return toks

        txt = " ".join(norm(t))
        if variant:
            out["Dependency::" + variant] = txt
    return b, out


# ------------------------------------------------------------------ `[#(#xs),*].join(..)` with an empty xs

def empty_repetition_rule(crate, prop, rule="C16.R9"):
    """`[#(#xs),*].join(..)` expands to `[].join(..)` when xs is empty: rustc cannot infer the element type (E0282) and the
    derive's output does not compile.  Either the element type is spelled (`<[String]>::join(&[..], ..)`) or the
    repetition is only reached when xs is known to be non-empty."""
    from rules.export_rules import _bool_switch
    r = Result(rule, "an array or vec literal built from a `#(#xs),*` repetition whose element type is left to inference is only emitted where xs is known to be non-empty: the template is dominated by the non-empty edge of an is_empty() / peek() / len() test on the list the repetition iterates, or on a list that one was computed from")
    n = 0
    for ib, tpls, keep in Q.function_templates(crate, ""):
        for t in keep:
            fl = [x for x in t.flat() if isinstance(x, str)]
            for i in range(len(fl) - 5):
                # a bracket group holding nothing but one repeated interpolation and its separator (the loop quote! expands
                # `#(#x),*` into reads `, # x` in the MIR), followed by a method call
                if fl[i] == "[" and ((fl[i + 1:i + 4] == [",", "#", fl[i + 3]] and fl[i + 4:i + 6] == ["]", "."]) or (fl[i + 1] == "#" and fl[i + 3:i + 6] == [",", "]", "."])):
                    if i >= 1 and fl[i - 1] == "&":
                        continue      # `&[..]` handed to a function with a typed parameter
                    x = fl[i + 3] if fl[i + 1] == "," else fl[i + 2]
                    n += 1
                    loc = next((l for (nm, l, _) in t.interps if nm == x), None)
                    # the list behind the repetition, and everything it was computed from
                    related = set()
                    if loc is not None:
                        vis = set()
                        for _, c0 in M.deep_slice(ib, loc)[0]:
                            for a in c0["args"]:
                                if op_place(a) is not None:
                                    related.add(panics.operand_origin_ex(ib, a)[1])
                                    related.add(op_place(a)["l"])
                    guard = None
                    for blk, c in ib.calls():
                        if ib.is_cleanup(blk) or not c["args"] or op_place(c["args"][0]) is None:
                            continue
                        root = panics.operand_origin_ex(ib, c["args"][0])[1]
                        if root not in related and op_place(c["args"][0])["l"] not in related:
                            continue
                        sw = _bool_switch(ib, blk)
                        if not sw:
                            continue
                        if fn_matches(c, r"::is_empty$") and sw[0] is not None and ib.dominates(sw[0], t.block):
                            guard = "behind the false edge of is_empty()"
                        if fn_matches(c, r"Option::<T>::is_some$") and sw[1] is not None and ib.dominates(sw[1], t.block):
                            guard = "behind the true edge of peek().is_some()"
                        if fn_matches(c, r"Option::<T>::is_none$") and sw[0] is not None and ib.dominates(sw[0], t.block):
                            guard = "behind the false edge of peek().is_none()"
                    r.inst(fn=ib.path, repetition="#" + x, where="%s:%s" % (t.file, t.line), guard=guard)
                    if guard is None:
                        r.fail(prop, "untyped-empty-repetition %s #%s" % (ib.path, x),
                               "`[#(#%s),*].%s(..)` is emitted although %s may be empty (every field or variant skipped): the expansion contains `[].%s(..)` and fails with E0282 `type annotations needed`" % (x, fl[i + 6] if i + 6 < len(fl) else "..", x, fl[i + 6] if i + 6 < len(fl) else ".."),
                               t.file, t.line)
    r.stats["untyped_repetitions"] = n
    r.floor = 3
    return r



# ------------------------------------------------------------------ which formatter gets which shape

def dispatch_rule(crate, prop, rule="C01.R6a"):
    r = Result(rule, "type_def hands each shape of fields to the formatter serde's data model calls for: read off the tests that dominate each formatter call (MIR): unit::null only for Fields::Unit, unit::empty_array / newtype / tuple only for unnamed fields with 0 / 1 / more of them, unit::empty_object only for named fields with none of them (and no tag), named only for named fields.  A dispatch that goes through a classification of its own (an enum of shapes) is recorded as undecided")
    b = crate.body("types::type_def")
    if b is None:
        r.fail(prop, "anchor-missing type_def", "not found")
        return r
    want = {"unit::null": {"fields": {2}}, "unit::empty_array": {"fields": {1}, "len": {0}}, "newtype::newtype": {"fields": {1}, "len": {1}},
            "tuple::tuple": {"fields": {1}, "len": {"otherwise"}}, "unit::empty_object": {"fields": {0}, "len": {0}}, "named::named": {"fields": {0}}}
    n = 0
    for blk, t in b.calls():
        if b.is_cleanup(blk):
            continue
        p = (t.get("fn") or {}).get("path") or ""
        key = next((k for k in want if p.endswith("types::" + k)), None)
        if key is None:
            continue
        n += 1
        cons = _edge_constraints(b, blk)
        fields = {v for s2, v in cons if re.search(r"^param syn::Fields$|syn::Fields$", s2)}
        lens = {v for s2, v in cons if s2.startswith("len of ")}
        w = want[key]
        bad = (fields and not (fields & w["fields"])) or ("len" in w and lens and not (lens & w["len"]) and not ("otherwise" in w["len"] and lens - {0, 1}))
        verdict = "BAD" if bad else "ok" if fields and ("len" not in w or lens) else "undecided"
        f, l = M.user_span(t["span"])
        r.inst(formatter=key, under={"fields (0 named, 1 unnamed, 2 unit)": sorted(map(str, fields)), "len": sorted(map(str, lens))}, verdict=verdict, where="%s:%s" % (f, l))
        if bad:
            r.fail(prop, "struct-dispatch %s" % key, "%s is called for fields %s with length test %s; serde's data model sends other shapes there" % (key, sorted(map(str, fields)), sorted(map(str, lens))), f, l)
    if n == 0:
        r.fail(prop, "anchor-missing dispatch", "type_def calls none of the shape formatters", b.file(), b.line())
    r.floor = 4
    return r


def rename_all_fields_rule(crate, prop, rule="C09.R3"):
    r = Result(rule, "StructAttr::from_variant (helpers included): a variant's own rename_all wins - where the two are combined with Option::or / or_else the variant's value is the receiver and the enum's rename_all_fields the argument - and rename_all_fields is only read for variants with named fields (every read is dominated by the `Fields::Named` outcome of a test on the variant's fields); combinations written some other way are recorded as undecided")
    b = crate.ibody("attr::r#struct::StructAttr::from_variant")
    if b is None:
        r.fail(prop, "anchor-missing StructAttr::from_variant", "not found")
        return r
    n = 0
    # (1) precedence
    for blk, t in b.calls():
        if b.is_cleanup(blk) or not fn_matches(t, r"option::Option::<T>::(or|or_else|xor)$") or len(t["args"]) < 2 or "Inflection" not in (t.get("arg_tys") or [""])[0]:
            continue
        recv = panics.operand_origin(b, t["args"][0])
        arg_calls, _, _ = M.deep_slice(b, op_place(t["args"][1])["l"]) if op_place(t["args"][1]) is not None else ([], set(), [])
        arg = panics.operand_origin(b, t["args"][1])
        n += 1
        f, l = M.user_span(t["span"])
        variant_first = bool(re.search(r"VariantAttr\.rename_all$", recv))
        enum_first = bool(re.search(r"EnumAttr\.rename_all_fields$", recv))
        r.inst(fn=b.path, combined_with=(M.callee(t) or "").split("::")[-1], receiver=recv, argument=arg, variant_first=variant_first, where="%s:%s" % (f, l))
        if enum_first:
            r.fail(prop, "rename_all_fields-precedence StructAttr::from_variant", "rename_all of a struct variant takes the enum's rename_all_fields first: the variant's own #[..(rename_all)] must take precedence (serde's order)", f, l)
    # (2) routing: reads of EnumAttr.rename_all_fields only for named fields
    reads = []
    for blk in range(b.n):
        if b.is_cleanup(blk):
            continue
        for st in b.stmts(blk):
            if st["k"] != "assign":
                continue
            rv = st["rv"]
            pl = op_place(rv["op"]) if rv["k"] in ("use", "cast") else rv.get("pl") if rv["k"] in ("ref", "discr") else None
            if pl is not None and ".rename_all_fields" in pl["p"]:
                reads.append((blk, st))
        t = b.term(blk)
        if t["k"] == "call":
            for a in t["args"]:
                pl = op_place(a)
                if pl is not None and ".rename_all_fields" in pl["p"]:
                    reads.append((blk, t))
    for blk, x in reads:
        cons = _edge_constraints(b, blk)
        fields = [v for s2, v in cons if re.search(r"syn::Fields$", s2)]
        n += 1
        verdict = "ok" if 0 in fields else "BAD" if fields and 0 not in fields else "undecided"
        sp = (x.get("span") if isinstance(x, dict) else None) or b.span
        f, l = M.user_span(sp)
        r.inst(fn=b.path, read="EnumAttr.rename_all_fields", under_fields_test=fields, verdict=verdict, where="%s:%s" % (f, l))
        if verdict == "BAD":
            r.fail(prop, "rename_all_fields-routing StructAttr::from_variant", "rename_all_fields is read for a variant that is known not to have named fields", f, l)
    if n == 0:
        r.fail(prop, "anchor-missing rename_all_fields use", "from_variant neither combines rename_all with rename_all_fields nor reads it", b.file(), b.line())
    r.floor = 2
    return r


# ------------------------------------------------------------------ Attr::merge, field by field

def _side_slice(body, start_ops, limit=400):
    """backward data slice from operands: ({(side, field)} read from the two parameters of merge, [call terminators])"""
    sides, calls, seen, work = set(), [], set(), []

    def feed(op):
        pl = op_place(op) if isinstance(op, dict) and "k" in op and op["k"] in ("copy", "move", "const") else None
        if pl is None:
            return
        if pl["l"] in (1, 2):
            f = next((x[1:] for x in pl["p"] if x.startswith(".")), "*")
            sides.add(("self" if pl["l"] == 1 else "other", f))
        else:
            work.append(pl["l"])
    for o in start_ops:
        feed(o)
    while work and len(seen) < limit:
        l = work.pop()
        if l in seen:
            continue
        seen.add(l)
        for blk, i, d in M.def_sites(body, l):
            if body.is_cleanup(blk):
                continue
            if i == "term":
                if d.get("inlined"):
                    continue
                calls.append(d)
                for a in d["args"]:
                    feed(a)
                continue
            rv = d["rv"]
            k = rv["k"]
            if k in ("use", "cast", "repeat"):
                feed(rv["op"])
            elif k in ("ref", "rawptr", "discr", "len"):
                feed({"k": "copy", "pl": rv["pl"]})
            elif k == "agg":
                for o in rv["ops"]:
                    feed(o)
            elif k == "binop":
                feed(rv["a"]); feed(rv["b"])
            elif k == "unop":
                feed(rv["a"])
    return sides, calls


def _merge_alternatives(body, op, depth=0):
    """[(block, [operands the alternative is computed from], call-or-None)]: the definitions the merged value of one
    field is chosen from (moves and tuple components are followed)"""
    pl = op_place(op)
    if pl is None or pl["l"] in (1, 2) or depth > 6:
        return [(None, [op], None)]
    comp = next((int(x[1:]) for x in pl["p"] if re.match(r"^\.\d+$", x)), None)
    out = []
    vds = [x for x in M.value_defs(body, pl["l"]) if not body.is_cleanup(x[0])]

    def lift(sub, blk):
        return [(blk if len(vds) > 1 or sb is None else sb, so, sc) for sb, so, sc in sub]
    for blk, i, d in vds:
        if i == "term":
            out.append((blk, list(d["args"]), d))
            continue
        rv = d["rv"]
        if rv["k"] in ("use", "cast") and op_place(rv["op"]) is not None and comp is None:
            out += lift(_merge_alternatives(body, rv["op"], depth + 1), blk)
        elif rv["k"] == "agg" and rv.get("tuple") and comp is not None and comp < len(rv["ops"]):
            out += lift(_merge_alternatives(body, rv["ops"][comp], depth + 1), blk)
        elif rv["k"] == "agg" and rv.get("variant") == "Some" and len(rv["ops"]) == 1:
            out += lift(_merge_alternatives(body, rv["ops"][0], depth + 1), blk)     # `Some(x)` with x taken out of one side
        elif rv["k"] == "agg":
            out.append((blk, list(rv["ops"]), None))
        elif rv["k"] == "binop":
            out.append((blk, [rv["a"], rv["b"]], None))
        elif rv["k"] in ("use", "cast", "unop"):
            out.append((blk, [rv.get("op") or rv.get("a")], None))
        elif rv["k"] in ("ref", "discr"):
            out.append((blk, [{"k": "copy", "pl": rv["pl"]}], None))
        else:
            out.append((blk, [], None))
    return out or [(None, [op], None)]


def merge_summary(crate, attr):
    """{field: {"type":.., "alternatives": [{"sides": {'self','other'}, "block":.., "order": 'self-first'|'other-first'|None,
    "tests": {sides the dominating tests look at}, "test_values": [(side, value)]}]}} of `<attr as Attr>::merge`, or None"""
    cands = [b for b in crate.bodies if re.search(r"%s as (\w+::)*Attr>::merge$" % attr, b.path)]
    if len(cands) != 1:
        return None, None
    b = crate.ibody(cands[0].path)
    fields = None
    per_field, tys = {}, {}
    d0 = M.value_defs(b, 0)
    aggs = [d for blk, i, d in d0 if i != "term" and d["rv"]["k"] == "agg" and d["rv"].get("fields")]
    if len(d0) == 1 and aggs:
        rv = aggs[0]["rv"]
        for name, op in zip(rv["fields"], rv["ops"]):
            per_field[name] = _merge_alternatives(b, op)
            tys[name] = b.local_ty(op_local(op)) if op_local(op) is not None else (M.op_const(op) or {}).get("ty")
    else:
        # `mut self` updated in place and returned
        src = {op_place(d["rv"]["op"])["l"] for blk, i, d in d0 if i != "term" and d["rv"]["k"] == "use" and op_place(d["rv"]["op"]) is not None and not op_place(d["rv"]["op"])["p"]}
        if src != {1}:
            return b, None
        for bx in crate.bodies:
            for blk in range(bx.n):
                for st in bx.stmts(blk):
                    if st["k"] == "assign" and st["rv"]["k"] == "agg" and (st["rv"].get("adt") or "").endswith("::" + attr) and st["rv"].get("fields"):
                        fields = st["rv"]["fields"]
        if not fields:
            return b, None
        for name in fields:
            alts = []
            for blk in range(b.n):
                if b.is_cleanup(blk):
                    continue
                for st in b.stmts(blk):
                    if st["k"] != "assign":
                        continue
                    if st["dst"]["l"] == 1 and st["dst"]["p"] == ["." + name]:
                        rv = st["rv"]
                        o1 = rv.get("op") if rv["k"] in ("use", "cast") else rv.get("a")
                        if isinstance(o1, dict) and op_local(o1) is not None:
                            tys[name] = b.local_ty(op_local(o1))
                        if rv["k"] in ("use", "cast") and op_place(rv["op"]) is not None:
                            alts += [(sb if sb is not None else blk, so, sc) for sb, so, sc in _merge_alternatives(b, rv["op"])]
                        elif rv["k"] == "binop":
                            alts.append((blk, [rv["a"], rv["b"]], None))
                        elif rv["k"] == "agg":
                            alts.append((blk, list(rv["ops"]), None))
                        else:
                            alts.append((blk, [o1] if isinstance(o1, dict) else [], None))
                    elif st["rv"]["k"] == "ref" and st["rv"].get("mut") and st["rv"]["pl"]["l"] == 1 and st["rv"]["pl"]["p"][:1] == ["." + name]:
                        # `self.f.extend(..)`: the call that receives the borrow
                        holder = {st["dst"]["l"]}
                        for _ in range(3):
                            for blk2 in range(b.n):
                                for st2 in b.stmts(blk2):
                                    if st2["k"] == "assign" and st2["rv"]["k"] in ("ref", "use", "cast"):
                                        p2 = st2["rv"].get("pl") or op_place(st2["rv"].get("op"))
                                        if p2 is not None and p2["l"] in holder:
                                            holder.add(st2["dst"]["l"])
                        for blk2, t in b.calls():
                            if not b.is_cleanup(blk2) and not t.get("inlined") and any(op_local(a) in holder for a in t["args"]):
                                alts.append((blk2, [{"k": "copy", "pl": {"l": 1, "p": ["." + name]}}] + list(t["args"]), t))
            per_field[name] = alts or [(None, [{"k": "copy", "pl": {"l": 1, "p": ["." + name]}}], None)]
    dom = b.dominators()
    try_switches = {e["switch_block"] for e in M.try_edges(b)}
    out = {}
    for name, alts in per_field.items():
        res = []
        for blk, ops, call in alts:
            sides, calls = _side_slice(b, ops)
            mine = {s for s, f in sides if f == name}
            foreign = sorted({"%s.%s" % (s, f) for s, f in sides if f != name})
            order = None
            for t in ([call] if call is not None else []) + calls:
                last = (M.callee(t) or "").split("::")[-1]
                if last in ("or", "or_else") and len(t["args"]) >= 2:
                    rs, _ = _side_slice(b, [t["args"][0]])
                    as_, _ = _side_slice(b, [t["args"][1]])
                    rs, as_ = {s for s, f in rs if f == name}, {s for s, f in as_ if f == name}
                    if rs == {"self"} and "other" in as_:
                        order = "self-first"
                    elif rs == {"other"} and "self" in as_:
                        order = "other-first"
            tests, values = set(), []
            if blk is not None:
                for w in sorted(dom.get(blk, ())):
                    sw = b.term(w)
                    if sw["k"] != "switch" or w == blk or w in try_switches:
                        continue
                    ts, _ = _side_slice(b, [sw["discr"]])
                    ts = {s for s, f in ts if f == name}
                    if not ts:
                        continue
                    tests |= ts
                    edges = [(v, tg) for v, tg in sw["targets"]] + [("otherwise", sw["otherwise"])]
                    took = [v for v, tg in edges if tg == blk or b.dominates(tg, blk)]
                    direct = [d for bb, i, d in M.def_sites(b, op_local(sw["discr"]) or -1) if i != "term" and d["rv"]["k"] == "discr" and d["rv"]["pl"]["l"] in (1, 2) and d["rv"]["pl"]["p"] == ["." + name]]
                    if len(took) == 1 and direct and len(ts) == 1:
                        v = took[0]
                        if v == "otherwise":
                            vals = {x for x, _ in sw["targets"]}
                            v = 1 if vals == {0} else 0 if vals == {1} else None
                        values.append((next(iter(ts)), v))
            res.append({"sides": mine, "foreign": foreign, "order": order, "tests": tests, "test_values": values, "block": blk,
                        "calls": sorted({(M.callee(t) or "?").split("::")[-1] for t in ([call] if call is not None else []) + calls})})
        out[name] = {"alternatives": res, "ty": tys.get(name)}
    return b, out


def merge_verdict(info, kind):
    """kind 'option' (first one wins, self first), 'flag' (either side sets it) or 'union' (both contribute).
    -> (verdict, text): verdict is 'ok', 'BAD' or 'undecided'"""
    alts = info["alternatives"]
    desc = "; ".join("%s%s%s" % ("+".join(sorted(a["sides"])) or "neither side", " via " + ",".join(a["calls"]) if a["calls"] else "",
                                 " when a test of %s says %s" % ("+".join(sorted(a["tests"])), a["test_values"] or "?") if a["tests"] else "") for a in alts)
    if any(a["order"] == "other-first" for a in alts):
        return "BAD", desc + " - the #[serde] side is the receiver"
    if kind in ("option", "flag") and any(a.get("foreign") for a in alts):
        # every key is merged on its own (all sibling fields are); a value that also depends on a different key makes
        # the outcome of `#[ts(a)] #[serde(b)]` differ from writing both keys with one spelling
        return "BAD", desc + " - the merged value also depends on %s" % ", ".join(sorted({f for a in alts for f in a.get("foreign", [])}))
    everything = set().union(*[a["sides"] | a["tests"] for a in alts]) if alts else set()
    if not {"self", "other"} <= everything:
        return "BAD", desc + " - only %s takes part" % ("+".join(sorted(everything)) or "neither side")
    if kind == "flag":
        return "ok", desc
    if kind == "union":
        if any({"self", "other"} <= a["sides"] for a in alts):
            return ("ok" if all({"self", "other"} <= a["sides"] or a["tests"] for a in alts) else "undecided"), desc
        return "BAD", desc + " - no alternative combines both sides"
    # option: every alternative either combines both in the right order, or is one side chosen under a test of the same field
    verdict = "ok"
    for a in alts:
        if {"self", "other"} <= a["sides"]:
            if a["order"] != "self-first":
                verdict = "undecided" if verdict == "ok" else verdict
            continue
        if not a["sides"]:
            continue
        if not a["tests"]:
            return "BAD", desc + " - `%s` alone is taken without looking at the other side" % "+".join(sorted(a["sides"]))
        side = next(iter(a["sides"]))
        tv = dict(a["test_values"])
        if side == "self" and tv.get("self") == 1 or side == "other" and tv.get("self") == 0:
            continue
        if side == "other" and tv.get("self") == 1 or side == "self" and tv.get("self") == 0 and "other" in everything and not any(v for s, v in a["test_values"] if s == "other"):
            return "BAD", desc + " - `%s` is taken although the test says the #[ts] value is %s" % (side, "present" if tv.get("self") == 1 else "absent")
        verdict = "undecided"
    return verdict, desc


# ------------------------------------------------------------------ what a field's type is emitted as, and what is recorded for it

_TS_REF = re.compile(r"< # (\S+) as # \S+ :: TS > :: (inline_flattened|inline|name) \(")


def _type_refs(crate, prefix="types::"):
    """[(body, template, interp name, local, proj, method)] for every `<#x as TS>::name()/inline()/inline_flattened()` in a
    template of the type formatters"""
    out = []
    for b in crate.bodies:
        if not b.path.startswith(prefix):
            continue
        for tpl in Q.templates(b):
            for m in _TS_REF.finditer(tpl.text()):
                for (nm, l, ty), pj in zip(tpl.interps, tpl.projs):
                    if nm == m.group(1):
                        out.append((b, tpl, nm, l, list(pj or []), m.group(2)))
                        break
    return out


def _field_flags(cons):
    fl = {}
    for s, v in cons:
        m = re.search(r"FieldAttr\.(inline|flatten|skip|type_override)$", s)
        if m and v in (0, 1):
            fl[m.group(1)] = v
    return fl


def _carrier_sites(crate, enum_ty, variant):
    """where a value `enum_ty::variant` is built: [(body, block)]"""
    out = []
    for bx in crate.bodies:
        for blk in range(bx.n):
            if bx.is_cleanup(blk):
                continue
            for st in bx.stmts(blk):
                if st["k"] == "assign" and st["rv"]["k"] == "agg" and (st["rv"].get("adt") or "") == enum_ty and st["rv"].get("variant") == variant:
                    out.append((bx, blk))
    return out


def _cell(fl):
    return "type=.." if fl.get("type_override") == 1 else "flatten" if fl.get("flatten") == 1 else "inline" if fl.get("inline") == 1 else "plain" if fl.get("inline") == 0 else "?"


def selector_rule(crate, prop, rule="C14.R3"):
    r = Result(rule, "every template of the type formatters that refers to a field's type is read together with the tests of the field's attributes that dominate it (when the choice travels in an enum - `Inlined(ty)`, `Named(ty)` - with the tests that dominate the places where that variant is built): `inline()` only for `#[ts(inline)]`, `name()` only without it, `inline_flattened()` only for `#[ts(flatten)]`, none of them when the type is overridden or the field skipped; templates without such tests around them are recorded as undecided")
    n = 0
    for b, tpl, nm, l, pj, m in _type_refs(crate):
        cons = _edge_constraints(b, tpl.block)
        sites = [(b, _field_flags(cons))]
        via = None
        var = next((x[3:] for x in pj if x.startswith("as ")), None)
        if not sites[0][1] and var is not None:
            o = panics.operand_origin(b, {"k": "copy", "pl": {"l": l, "p": pj}})
            mm = re.match(r"field (\S+)\.%s::" % re.escape(var), o)
            if mm:
                via = "%s::%s" % (mm.group(1), var)
                sites = [(bx, _field_flags(_edge_constraints(bx, blk))) for bx, blk in _carrier_sites(crate, mm.group(1), var)]
        for bx, fl in sites:
            verdict = "undecided"
            if fl.get("type_override") == 1 or fl.get("skip") == 1:
                verdict = "BAD"
            elif m == "inline":
                verdict = "BAD" if fl.get("inline") == 0 or fl.get("flatten") == 1 else "ok" if fl.get("inline") == 1 else "undecided"
            elif m == "name":
                verdict = "BAD" if fl.get("inline") == 1 or fl.get("flatten") == 1 else "ok" if fl.get("inline") == 0 else "undecided"
            elif m == "inline_flattened":
                # chosen by tests of the field's attributes none of which is `flatten`: the flattened form of a type is
                # emitted for a field that is not flattened
                verdict = "BAD" if fl.get("flatten") == 0 or (fl and "flatten" not in fl) else "ok" if fl.get("flatten") == 1 else "undecided"
            if fl:
                n += 1
            fn = re.sub(r"::\{closure#\d+\}", "", bx.path)
            r.inst(fn=b.path, emits="%s()" % m, carried_by=via, decided_in=bx.path, attribute_tests=fl, where="%s:%s" % (tpl.file, tpl.line), verdict=verdict)
            if verdict == "BAD":
                r.fail(prop, "selector-emission %s [%s]" % (fn, _cell(fl)), "for a field with %s the formatter emits `<T as TS>::%s()`" % (", ".join("%s=%s" % kv for kv in sorted(fl.items())), m), tpl.file, tpl.line)
    if n == 0:
        r.fail(prop, "anchor-missing field type templates", "no template referring to a field's type under a test of the field's attributes found")
    r.floor = 6
    return r


def pairing_rule(crate, prop, rule="C03.R1"):
    r = Result(rule, "every template of the type formatters that names a type (`<#x as TS>::name()`) has `Dependencies::push` called for the same value, and every template that inlines it (`inline()`, `inline_flattened()`) has `append_from`: in the same function on the same path (one of the two dominates the other), or - when the value travels in an enum variant - wherever a function records the payload of that same variant")
    want = {"name": "push", "inline": "append_from", "inline_flattened": "append_from"}
    dep_rx = r"deps::Dependencies::(push|append_from)$"
    all_deps = []
    for bx in crate.bodies:
        for blk, t in bx.calls():
            if not bx.is_cleanup(blk) and fn_matches(t, dep_rx) and len(t["args"]) > 1:
                desc, root = panics.operand_origin_ex(bx, t["args"][1])
                all_deps.append((bx, blk, M.callee(t).split("::")[-1], desc, root))
    n = 0
    for b, tpl, nm, l, pj, m in _type_refs(crate, prefix=""):
        if not (b.path.startswith("types::") or b.path.startswith("utils::")):
            continue
        desc, root = panics.operand_origin_ex(b, {"k": "copy", "pl": {"l": l, "p": pj}})
        # recorded on the same path: no test of the CFG is decided one way on the way to the template and the other way on
        # the way to the call (`match` for the text, then a second `match` on the same attributes for the dependencies)
        tc = dict((s, v) for s, v in _edge_constraints(b, tpl.block) if not s.startswith("call "))
        def compatible(blk):
            return all(tc.get(s, v) == v for s, v in _edge_constraints(b, blk) if not s.startswith("call "))
        local = [(blk, kind) for bx, blk, kind, d2, r2 in all_deps if bx is b and r2 == root and (d2 == desc or not desc.startswith("field ")) and compatible(blk)]
        fn = re.sub(r"::\{closure#\d+\}", "", b.path)
        key = "unpaired-reference %s #%s::%s" % (fn, re.sub(r"^self__|^_\d+__", "", nm), m)
        n += 1
        if local:
            kinds = sorted({k for _, k in local})
            ok = want[m] in kinds
            r.inst(fn=b.path, template="<#%s as TS>::%s()" % (nm, m), value=desc, recorded_by=kinds, where="%s:%s" % (tpl.file, tpl.line), paired=ok)
            if not ok:
                r.fail(prop, key, "template emits <#%s as TS>::%s() but on that path the function calls %s for the same value, not %s: the binding would mention a type whose import/file is not produced (or import one it does not use)" % (nm, m, kinds, want[m]), tpl.file, tpl.line)
            continue
        mm = re.match(r"field (\S+)\.(\w+)::\d+$", desc)
        if mm:
            same = sorted({k for bx, blk, k, d2, r2 in all_deps if d2 == desc})
            on_enum = [d2 for bx, blk, k, d2, r2 in all_deps if d2.startswith("field %s." % mm.group(1))]
            verdict = "ok" if want[m] in same else "BAD" if same or on_enum else "undecided"
            r.inst(fn=b.path, template="<#%s as TS>::%s()" % (nm, m), value=desc, recorded_elsewhere=same, where="%s:%s" % (tpl.file, tpl.line), paired=verdict)
            if verdict == "BAD":
                r.fail(prop, key, "template emits <#%s as TS>::%s() for the payload of %s::%s, but what is recorded for that payload is %s (expected %s)" % (nm, m, mm.group(1), mm.group(2), same or "nothing", want[m]), tpl.file, tpl.line)
            continue
        has_deps = any("deps::Dependencies" in (x["ty"] or "") for x in b.locals)
        same_root = sorted({k for bx, blk, k, d2, r2 in all_deps if bx is b and r2 == root})
        r.inst(fn=b.path, template="<#%s as TS>::%s()" % (nm, m), value=desc, recorded_by=same_root, where="%s:%s" % (tpl.file, tpl.line), paired=False if has_deps else "undecided: the function has no Dependencies at hand")
        if has_deps:
            r.fail(prop, key, "template emits <#%s as TS>::%s() but the function never calls %s for that value%s: the binding would mention a type whose import/file is not produced (or import one it does not use)"
                   % (nm, m, want[m], (" (it calls %s on another path)" % same_root) if same_root else ""), tpl.file, tpl.line)
    if n == 0:
        r.fail(prop, "anchor-missing type reference templates", "no template referring to a type through TS::name()/inline() found")
    r.floor = 8
    return r


# ------------------------------------------------------------------ container settings reach DerivedTS

_PEEL = [r"clone::Clone::clone$", r"option::Option::<T>::(cloned|copied|as_ref|as_deref|map|as_mut)$", r"option::Option::<&T>::(cloned|copied)$", r"borrow::ToOwned::to_owned$",
         r"slice::<impl \[T\]>::to_vec$", r"convert::(Into::into|From::from)$", r"ops::Deref::deref$", r"string::ToString::to_string$"]


def _setting_origin(crate, b, op, depth=0):
    """where a value put into DerivedTS comes from, through clones/borrows/`Option` adaptors and through a struct of the
    crate that merely carries it: -> list of origin descriptions"""
    cur = op
    for _ in range(8):
        desc, root = panics.operand_origin_ex(b, cur)
        m = re.match(r"^call (.+)$", desc)
        if not m:
            break
        nxt = None
        for blk, t in b.calls():
            if t["dst"]["l"] == root and not b.is_cleanup(blk) and fn_matches(t, *_PEEL) and t["args"]:
                nxt = t["args"][0]
        if nxt is None:
            break
        cur = nxt
    desc, root = panics.operand_origin_ex(b, cur)
    m = re.match(r"^field (\S+)\.(\w+)$", desc)
    if m and not re.search(r"Attr$", m.group(1)) and depth < 3:
        # carried by a struct of the crate: follow every place where that struct is built
        out = []
        for bx in crate.bodies:
            for blk in range(bx.n):
                if bx.is_cleanup(blk):
                    continue
                for st in bx.stmts(blk):
                    if st["k"] == "assign" and st["rv"]["k"] == "agg" and (st["rv"].get("adt") or "") == m.group(1) and m.group(2) in (st["rv"].get("fields") or []):
                        out += _setting_origin(crate, bx, st["rv"]["ops"][st["rv"]["fields"].index(m.group(2))], depth + 1)
        if out:
            return out
    return [desc]


def passthrough_fields_rule(crate, prop, rule="C07.R7"):
    """what the container attribute says about export, path, concretisation and bounds holds whatever shape the body takes"""
    r = Result(rule, "every DerivedTS value built in macros/src/types takes `export`, `export_to`, `concrete` and `bound` from the field of the same name of a container attribute (StructAttr / EnumAttr) - directly, cloned, through Option adaptors, or through a struct of the crate that only carries the settings (followed to where that struct is filled): a body that is replaced (`type = ..`, `as = ..`) or taken from elsewhere must not lose them")
    FIELDS = ("export", "export_to", "concrete", "bound")
    n = 0
    for b in crate.bodies:
        if not b.path.startswith("types::"):
            continue
        for blk in range(b.n):
            if b.is_cleanup(blk):
                continue
            for st in b.stmts(blk):
                if st["k"] != "assign" or st["rv"]["k"] != "agg" or not (st["rv"].get("adt") or "").endswith("DerivedTS") or not st["rv"].get("fields"):
                    continue
                n += 1
                f, l = M.user_span(st.get("span") or b.span)
                fn = re.sub(r"::\{closure#\d+\}", "", b.path)
                for k in FIELDS:
                    if k not in st["rv"]["fields"]:
                        continue
                    op = st["rv"]["ops"][st["rv"]["fields"].index(k)]
                    if op_place(op) is None:
                        srcs = ["constant"]
                    else:
                        srcs = _setting_origin(crate, b, op)
                    good = [s for s in srcs if re.search(r"(Struct|Enum)Attr\.%s$" % k, s)]
                    # positive evidence of a lost setting: a constant, a freshly made empty value (`Default::default()`,
                    # `HashMap::new()`, `None`), or another field of an attribute
                    bad = [s for s in srcs if s not in good and (s == "constant" or re.match(r"^field \S+Attr\.\w+$", s) or s.startswith("aggregate")
                                                                 or re.search(r"^call .*(default::Default::default|::new|::with_capacity|::default)$", s))]
                    verdict = "ok" if good and len(good) == len(srcs) else "BAD" if bad else "undecided"
                    r.inst(fn=b.path, field=k, comes_from=sorted(set(srcs)), verdict=verdict, where="%s:%s" % (f, l))
                    if verdict == "BAD":
                        r.fail(prop, "container-setting-dropped %s %s" % (fn, k),
                               "DerivedTS.%s comes from %s instead of the container attribute's `%s`: e.g. `#[ts(type = \"string\", concrete(T = i32))] struct Token<T>` becomes generic over T again (`type Token<T> = string;`, referenced as `Token<number>`)" % (k, sorted(set(bad)), k),
                               f, l)
    if n == 0:
        r.fail(prop, "anchor-missing DerivedTS values", "no DerivedTS value built in macros/src/types")
    r.stats["literals"] = n
    r.floor = 12
    return r


def docs_init_rule(crate, prop, rule="C15.R7"):
    """one item, one comment: the documentation of the declaration is the item's own"""
    r = Result(rule, "every DerivedTS value built in macros/src/types takes `docs` from the `docs` of a container attribute (StructAttr / EnumAttr), unchanged - directly, cloned, or through a struct of the crate that carries it: nothing else (a field's or a variant's comment, a concatenation) becomes the comment of the declaration")
    n = 0
    for b in crate.bodies:
        if not b.path.startswith("types::"):
            continue
        for blk in range(b.n):
            if b.is_cleanup(blk):
                continue
            for st in b.stmts(blk):
                if st["k"] != "assign" or st["rv"]["k"] != "agg" or not (st["rv"].get("adt") or "").endswith("DerivedTS") or "docs" not in (st["rv"].get("fields") or []):
                    continue
                n += 1
                op = st["rv"]["ops"][st["rv"]["fields"].index("docs")]
                srcs = _setting_origin(crate, b, op) if op_place(op) is not None else ["constant"]
                good = [s for s in srcs if re.search(r"(Struct|Enum)Attr\.docs$", s)]
                verdict = "ok" if good and len(good) == len(srcs) else "undecided" if all(s.startswith("param") or s.startswith("local") for s in srcs) else "BAD"
                f, l = M.user_span(st.get("span") or b.span)
                fn = re.sub(r"::\{closure#\d+\}", "", b.path)
                r.inst(fn=b.path, docs_from=sorted(set(srcs)), verdict=verdict, where="%s:%s" % (f, l))
                if verdict == "BAD":
                    r.fail(prop, "docs-slot-init %s" % fn,
                           "DerivedTS.docs is initialised from %s: the declaration would carry something other than the item's own doc comment (two `/** */` blocks, or a member's text in front of `export type`)" % sorted(set(srcs)), f, l)
    if n == 0:
        r.fail(prop, "anchor-missing DerivedTS values", "no DerivedTS value built in macros/src/types")
    r.floor = 12
    return r
