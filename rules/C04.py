"""C04 — exported files are well-formed modules (layout/quoting/unraw/escaping clauses)."""
from rules import templates as T
from rules import text_rules as X
from rules import field_rules as F
from rules import merge_rules as MR
from rules import export_rules as E

ASSUMPTIONS = ["parsing every possible output under a TypeScript grammar is NOT decided"]


def run(ctx):
    out = [F.quoting_rule(ctx.mir("default")["ts_rs_macros"], "C04"), T.unraw_rule(ctx.syn, "C04"), F.quoted_sink_rule(ctx.mir("default")["ts_rs_macros"], ctx.syn, "C04"), T.quoted_sink_rule(ctx.syn, "C04", rule="C04.R4b", direct_only=True), MR.writer_reader_rule(ctx.syn, "C04", rule="C04.R5", crate=ctx.mir("default")["ts_rs"]), T.object_merge_rule(ctx.syn, "C04", "C04.R6"), T.paren_strip_rule(ctx.syn, "C04", "C04.R7"), T.empty_name_rule(ctx.syn, "C04"), X.escape_coverage_rule(ctx.mir("default")["ts_rs_macros"], ctx.syn, "C04")]
    for fs in ctx.featuresets():
        r = T.layout_rule(ctx.mir(fs)["ts_rs"], "C04")
        if fs != "default":
            r.rule += "@" + fs
        out.append(r)
    # the `format` feature adds a path on which the text to be written is replaced; it is analysed on every run
    for fs in ["default", "format"] + (["allimpl"] if ctx.tier == "thorough" else []):
        r = E.written_text_rule(ctx.mir(fs)["ts_rs"], "C04")
        if fs != "default":
            r.rule += "@" + fs
        out.append(r)
    return out
